"""Shared by C09 and C12: "an archive member above the per-member limit is never read" as a typestate obligation on the real
member loops of archive_extractor.py.

The read call `zf.read(V)` / `zf.open(V)` / `tf.extractfile(V)` must take the member object itself (a local name V bound to the
ZipInfo / TarInfo, not a file name: names are not unique in an archive), and on every path to it the guard
`V.<size attr> > <limit>` must have been evaluated false for the same binding of V (must-fact, killed when V is rebound).
Anything else (size carried in a tuple, read by name, other guard shape) is not recognised -> `unknown`: the native replayer then
decides with real archives (oversize members, records sharing one name)."""
import ast

from pyvc import loader
from pyvc.flow import MustFacts, ground_obligation

ARCH = "sharepoint2text/parsing/extractors/archive_extractor.py"
LIMITS = ("_config.max_memory_size", "MAX_MEMORY_SIZE")


def _guard(test, size_attrs):
    """-> name V when `test` is `V.<size attr> > <limit>`."""
    if isinstance(test, ast.Compare) and len(test.ops) == 1 and isinstance(test.ops[0], ast.Gt) and ast.unparse(test.comparators[0]) in LIMITS:
        l = test.left
        if isinstance(l, ast.Attribute) and l.attr in size_attrs and isinstance(l.value, ast.Name):
            return l.value.id
    return None


def _archive_objects(f):
    """Local names bound (with-as / assignment) to an opened archive: ZipFile(...), tarfile.open(...), TarFile(...), SevenZipFile(...)."""
    out = set()
    opener = lambda c: isinstance(c, ast.Call) and ast.unparse(c.func).split(".")[-1] in ("ZipFile", "TarFile", "SevenZipFile") or \
        isinstance(c, ast.Call) and ast.unparse(c.func) in ("tarfile.open", "TarFile.open", "tarfile.TarFile.open")
    for n in ast.walk(f):
        if isinstance(n, (ast.With, ast.AsyncWith)):
            for it in n.items:
                if opener(it.context_expr) and isinstance(it.optional_vars, ast.Name):
                    out.add(it.optional_vars.id)
        elif isinstance(n, ast.Assign) and opener(n.value):
            out |= {t.id for t in n.targets if isinstance(t, ast.Name)}
    return out


def member_reads(arch, f, readers):
    """-> (read sites of `f`, {id(site): the expression naming the member that is read}).  A read site is a call `A.<reader>(V, ..)`
    on the archive object, or a call `h(.., V, ..)` of a local helper whose body does `X.<reader>(P, ..)` on its parameter P."""
    reads = [n for n in ast.walk(f) if isinstance(n, ast.Call) and isinstance(n.func, ast.Attribute) and n.func.attr in readers]
    arch_objs = _archive_objects(f)
    if arch_objs:      # `fh.read()` on the stream that `zf.open(V)` returned is not a member read: keep the calls on the archive object
        reads = [n for n in reads if isinstance(n.func.value, ast.Name) and n.func.value.id in arch_objs]
    arg_of = {id(n): n.args[0] for n in reads if n.args}
    for c in ast.walk(f):
        h = arch.functions.get(c.func.id) if isinstance(c, ast.Call) and isinstance(c.func, ast.Name) else None
        if h is None or h is f:
            continue
        params = [a.arg for a in h.args.posonlyargs + h.args.args]
        for r in ast.walk(h):
            if isinstance(r, ast.Call) and isinstance(r.func, ast.Attribute) and r.func.attr in readers and r.args and isinstance(r.args[0], ast.Name) \
                    and r.args[0].id in params and isinstance(r.func.value, ast.Name) and r.func.value.id in params:
                k = params.index(r.args[0].id)
                actual = c.args[k] if k < len(c.args) else next((kw.value for kw in c.keywords if kw.arg == r.args[0].id), None)
                if actual is not None:
                    reads.append(c)
                    arg_of[id(c)] = actual
                    break
    return reads, arg_of


def _seen_through(arch, f, test, branch, size_attrs):
    """Names V for which `test` evaluating to `branch` implies `V.<size attr> <= limit`: the guard up to negation / De Morgan /
    flipped comparison / single-assignment local alias / a local predicate helper (`f(.., V.size)` whose body decides
    `size > limit`), read by contracts/guardlib.py."""
    from contracts import guardlib
    out = []
    for x in guardlib.upper_bounded(guardlib.implied(test, branch, arch, f), LIMITS):
        e = ast.parse(x, mode="eval").body
        if isinstance(e, ast.Attribute) and e.attr in size_attrs and isinstance(e.value, ast.Name):
            out.append(e.value.id)
    return out


def member_size_guard(prop, repo, fn_name, readers, size_attrs, label="member-size-check-dominates-read"):
    arch = loader.module(ARCH, repo)
    oid = f"{prop}/archive_extractor.py::{fn_name}/typestate#{label}"
    f = arch.functions.get(fn_name)
    if f is None:
        return ground_obligation(oid, False, "function missing", ARCH, definite=False), None
    reads = [n for n in ast.walk(f) if isinstance(n, ast.Call) and isinstance(n.func, ast.Attribute) and n.func.attr in readers]
    reads, arg_of = member_reads(arch, f, readers)
    if not reads:
        return ground_obligation(oid, False, f"no {'/'.join(readers)} call found", ARCH, definite=False), None
    odd = [n for n in reads if not isinstance(arg_of.get(id(n)), ast.Name)]
    if odd:
        return ground_obligation(oid, False, f"line {odd[0].lineno}: `{ast.unparse(odd[0])}` does not read through the member object that was size-checked", ARCH,
                                 definite=False), None

    def gen_cond(test, branch):
        v = _guard(test, size_attrs)
        if v is None:
            return [("within-limit", w) for w in _seen_through(arch, f, test, branch, size_attrs)]
        return [("within-limit", v)] if v is not None and branch is False else []

    from contracts import guardlib     # a guard applied while a local work list is built holds for the elements the read loop takes from it
    MF = guardlib.carrying(MustFacts, guardlib.carried_facts(f, gen_cond, MustFacts))
    mf = MF(gen_cond=gen_cond, need=lambda n: [(("within-limit", arg_of[id(n)].id), f"line {n.lineno}")] if any(n is r for r in reads) else [],
            kill_names=lambda fact: [fact[1]])
    res = mf.run(f)
    bad = [r for r in res if not r.ok]
    ok = bool(res) and not bad
    return ground_obligation(oid, ok, "; ".join(f"{r.desc}: read of a member whose size was not checked against the limit on this path" for r in bad)
                             or f"{len(res)} read site(s), each dominated by the size guard on the same member object", ARCH, definite=False), arch.fn_info(fn_name)


def zip_and_tar(prop, repo, label="member-size-check-dominates-read"):
    out = []
    out.append(member_size_guard(prop, repo, "_extract_from_zip_optimized", ("read", "open"), ("file_size",), label))
    out.append(member_size_guard(prop, repo, "_extract_from_tar_optimized", ("extractfile", "extract", "extractall"), ("size",), label))
    return out
