"""Shared by C09 and C12: "an archive member above the per-member limit is never read" as a typestate obligation on the real
member loops of archive_extractor.py.

The read call `zf.read(V)` / `zf.open(V)` / `tf.extractfile(V)` must take the member object itself (the ZipInfo / TarInfo value, not a
file name: names are not unique in an archive), and on every path to it the guard `V.<size attr> > <limit>` must have been evaluated
false for the same *value* V.  Since round 3 the analysis is `contracts/C09_flow.py::GuardFlow` (facts attached to values, not to
variable names): renamed / inlined locals, `continue` guards vs nested ifs, flipped or negated comparisons, a boolean helper such as
`_exceeds_limit(name, V.size)`, a pre-filter moved into a (generator) helper or a comprehension are all followed.  Anything else (size
carried in a tuple, read by name, other guard shape) is not recognised -> `unknown`: the native replayer then decides with real
archives (oversize members, records sharing one name)."""
import ast

from pyvc import loader
from pyvc.flow import ground_obligation

ARCH = "sharepoint2text/parsing/extractors/archive_extractor.py"
LIMITS = ("_config.max_memory_size", "MAX_MEMORY_SIZE")
_KIND = {"_extract_from_zip_optimized": "zip-size", "_extract_from_tar_optimized": "tar-size"}


def _archive_objects(f):
    """Local names bound (with-as / assignment) to an opened archive: ZipFile(...), tarfile.open(...), TarFile(...), SevenZipFile(...)."""
    out = set()
    opener = lambda c: isinstance(c, ast.Call) and ast.unparse(c.func).split(".")[-1] in ("ZipFile", "TarFile", "SevenZipFile") or \
        isinstance(c, ast.Call) and ast.unparse(c.func) in ("tarfile.open", "TarFile.open", "tarfile.TarFile.open")
    for n in ast.walk(f):
        if isinstance(n, (ast.With, ast.AsyncWith)):
            for it in n.items:
                if opener(it.context_expr) and isinstance(it.optional_vars, ast.Name):
                    out.add(it.optional_vars.id)
        elif isinstance(n, ast.Assign) and opener(n.value):
            out |= {t.id for t in n.targets if isinstance(t, ast.Name)}
    return out


def member_reads(arch, f, readers):
    """-> (read sites of `f`, {id(site): the expression naming the member that is read}).  A read site is a call `A.<reader>(V, ..)`
    on the archive object, or a call `h(.., V, ..)` of a local helper whose body does `X.<reader>(P, ..)` on its parameter P."""
    reads = [n for n in ast.walk(f) if isinstance(n, ast.Call) and isinstance(n.func, ast.Attribute) and n.func.attr in readers]
    arch_objs = _archive_objects(f)
    if arch_objs:      # `fh.read()` on the stream that `zf.open(V)` returned is not a member read: keep the calls on the archive object
        reads = [n for n in reads if isinstance(n.func.value, ast.Name) and n.func.value.id in arch_objs]
    arg_of = {id(n): n.args[0] for n in reads if n.args}
    for c in ast.walk(f):
        h = arch.functions.get(c.func.id) if isinstance(c, ast.Call) and isinstance(c.func, ast.Name) else None
        if h is None or h is f:
            continue
        params = [a.arg for a in h.args.posonlyargs + h.args.args]
        for r in ast.walk(h):
            if isinstance(r, ast.Call) and isinstance(r.func, ast.Attribute) and r.func.attr in readers and r.args and isinstance(r.args[0], ast.Name) \
                    and r.args[0].id in params and isinstance(r.func.value, ast.Name) and r.func.value.id in params:
                k = params.index(r.args[0].id)
                actual = c.args[k] if k < len(c.args) else next((kw.value for kw in c.keywords if kw.arg == r.args[0].id), None)
                if actual is not None:
                    reads.append(c)
                    arg_of[id(c)] = actual
                    break
    return reads, arg_of


def _seen_through(arch, f, test, branch, size_attrs):
    """Names V for which `test` evaluating to `branch` implies `V.<size attr> <= limit`: the guard up to negation / De Morgan /
    flipped comparison / single-assignment local alias / a local predicate helper (`f(.., V.size)` whose body decides
    `size > limit`), read by contracts/guardlib.py."""
    from contracts import guardlib
    out = []
    for x in guardlib.upper_bounded(guardlib.implied(test, branch, arch, f), LIMITS):
        e = ast.parse(x, mode="eval").body
        if isinstance(e, ast.Attribute) and e.attr in size_attrs and isinstance(e.value, ast.Name):
            out.append(e.value.id)
    return out


def member_size_guard(prop, repo, fn_name, readers, size_attrs, label="member-size-check-dominates-read"):
    """`readers` / `size_attrs` are kept for backwards compatibility (the reader methods and size attributes are fixed per archive kind)."""
    from contracts import C09_flow
    arch = loader.module(ARCH, repo)
    oid = f"{prop}/archive_extractor.py::{fn_name}/typestate#{label}"
    if fn_name not in arch.functions:
        return ground_obligation(oid, False, "function missing", ARCH, definite=False), None
    try:
        gf = C09_flow.guard_flow(repo, ARCH)
        sinks = gf.sinks(fn_name, _KIND.get(fn_name, "zip-size"))
    except Exception as e:  # noqa  an unforeseen shape is "not recognised", never an engine error
        return ground_obligation(oid, False, f"guard analysis does not cover this shape ({type(e).__name__}: {e})", ARCH, definite=False), arch.fn_info(fn_name)
    if not sinks:
        return ground_obligation(oid, False, f"no {'/'.join(readers)} call on an archive object found from {fn_name}", ARCH, definite=False), arch.fn_info(fn_name)
    bad = [s for s in sinks if not s[3]]
    return ground_obligation(oid, not bad, "; ".join(f"{s[4]} in {s[0]}: read of a member whose size was not checked against the limit on this path" for s in bad)
                             or f"{len(sinks)} read site(s), each dominated by the size guard on the same member object", ARCH, definite=False), arch.fn_info(fn_name)


def zip_and_tar(prop, repo, label="member-size-check-dominates-read"):
    out = []
    out.append(member_size_guard(prop, repo, "_extract_from_zip_optimized", ("read", "open"), ("file_size",), label))
    out.append(member_size_guard(prop, repo, "_extract_from_tar_optimized", ("extractfile", "extract", "extractall"), ("size",), label))
    return out
