"""Shared by C09 and C12: "an archive member above the per-member limit is never read" as a typestate obligation on the real
member loops of archive_extractor.py.

The read call `zf.read(V)` / `zf.open(V)` / `tf.extractfile(V)` must take the member object itself (the ZipInfo / TarInfo value, not a
file name: names are not unique in an archive), and on every path to it the guard `V.<size attr> > <limit>` must have been evaluated
false for the same *value* V.  Since round 3 the analysis is `contracts/C09_flow.py::GuardFlow` (facts attached to values, not to
variable names): renamed / inlined locals, `continue` guards vs nested ifs, flipped or negated comparisons, a boolean helper such as
`_exceeds_limit(name, V.size)`, a pre-filter moved into a (generator) helper or a comprehension are all followed.  Anything else (size
carried in a tuple, read by name, other guard shape) is not recognised -> `unknown`: the native replayer then decides with real
archives (oversize members, records sharing one name)."""
import ast

from pyvc import loader
from pyvc.flow import ground_obligation

ARCH = "sharepoint2text/parsing/extractors/archive_extractor.py"
LIMITS = ("_config.max_memory_size", "MAX_MEMORY_SIZE")
_KIND = {"_extract_from_zip_optimized": "zip-size", "_extract_from_tar_optimized": "tar-size"}


def member_size_guard(prop, repo, fn_name, readers, size_attrs, label="member-size-check-dominates-read"):
    """`readers` / `size_attrs` are kept for backwards compatibility (the reader methods and size attributes are fixed per archive kind)."""
    from contracts import C09_flow
    arch = loader.module(ARCH, repo)
    oid = f"{prop}/archive_extractor.py::{fn_name}/typestate#{label}"
    if fn_name not in arch.functions:
        return ground_obligation(oid, False, "function missing", ARCH, definite=False), None
    try:
        gf = C09_flow.guard_flow(repo, ARCH)
        sinks = gf.sinks(fn_name, _KIND.get(fn_name, "zip-size"))
    except Exception as e:  # noqa  an unforeseen shape is "not recognised", never an engine error
        return ground_obligation(oid, False, f"guard analysis does not cover this shape ({type(e).__name__}: {e})", ARCH, definite=False), arch.fn_info(fn_name)
    if not sinks:
        return ground_obligation(oid, False, f"no {'/'.join(readers)} call on an archive object found from {fn_name}", ARCH, definite=False), arch.fn_info(fn_name)
    bad = [s for s in sinks if not s[3]]
    return ground_obligation(oid, not bad, "; ".join(f"{s[4]} in {s[0]}: read of a member whose size was not checked against the limit on this path" for s in bad)
                             or f"{len(sinks)} read site(s), each dominated by the size guard on the same member object", ARCH, definite=False), arch.fn_info(fn_name)


def zip_and_tar(prop, repo, label="member-size-check-dominates-read"):
    out = []
    out.append(member_size_guard(prop, repo, "_extract_from_zip_optimized", ("read", "open"), ("file_size",), label))
    out.append(member_size_guard(prop, repo, "_extract_from_tar_optimized", ("extractfile", "extract", "extractall"), ("size",), label))
    return out
