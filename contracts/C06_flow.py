"""C06 round 2 -- three more obligation families on the real AST (back end `dataflow`):

  stream:  every read of a stream that the function does not own (a parameter, something reachable from `self`) starts at
           offset 0 on every path (must-fact dominance of `X.seek(0)` over `X.read()`), so what is read does not depend on
           where an earlier observer left the cursor;
  state:   process-persistent state (module-level containers, `global` rebinding, lru_cache) written on the extraction path is
           a *memo*: the stored value is determined by the key it is stored under, so results never depend on what the process
           extracted before (history independence);
  taint:   a nondeterministic value (clock, random, pid, names of temporary files/directories, ...) is followed through
           assignments, containers, helper returns and helper parameters across the package and must not reach a result
           (stored into a caller-visible object, handed to a dynamically selected callable, returned by an entry point).
"""
import ast

from pyvc.flow import MustFacts, dotted, ground_obligation


def own_nodes(fnode):
    stack = list(ast.iter_child_nodes(fnode))
    while stack:
        n = stack.pop()
        yield n
        if isinstance(n, (ast.FunctionDef, ast.AsyncFunctionDef, ast.Lambda)):
            continue
        stack.extend(ast.iter_child_nodes(n))


def root_name(e):
    while isinstance(e, (ast.Attribute, ast.Subscript)):
        e = e.value
    return e.id if isinstance(e, ast.Name) else None


def params_of(fnode):
    if isinstance(fnode, ast.Lambda):
        return [a.arg for a in fnode.args.args]
    a = fnode.args
    out = [x.arg for x in a.posonlyargs + a.args + a.kwonlyargs]
    if a.vararg:
        out.append(a.vararg.arg)
    if a.kwarg:
        out.append(a.kwarg.arg)
    return out


def local_names(fnode):
    """Names bound inside the function (parameters, assignment / loop / with / comprehension / except targets), minus
    names declared `global`."""
    names = set(params_of(fnode))
    glob = set()
    for n in own_nodes(fnode):
        if isinstance(n, ast.Name) and isinstance(n.ctx, (ast.Store, ast.Del)):
            names.add(n.id)
        elif isinstance(n, ast.Global):
            glob |= set(n.names)
        elif isinstance(n, ast.ExceptHandler) and n.name:
            names.add(n.name)
        elif isinstance(n, (ast.Import, ast.ImportFrom)):
            for a in n.names:
                names.add(a.asname or a.name.split(".")[0])
        elif isinstance(n, (ast.FunctionDef, ast.AsyncFunctionDef, ast.ClassDef)):
            names.add(n.name)
    return names - glob, glob


# ------------------------------------------------------------------ stream --
READS = {"read", "readline", "readlines", "read1", "readinto"}
STREAM_FILES = ("sharepoint2text/parsing/extractors/data_types.py", "sharepoint2text/parsing/extractors/serialization.py")


INPUT_PARAM = "file_like"


def _seek0_gen(call):
    f = call.func
    if isinstance(f, ast.Attribute) and f.attr == "seek" and len(call.args) >= 1 and isinstance(call.args[0], ast.Constant) \
            and call.args[0].value == 0 and (len(call.args) == 1 or (isinstance(call.args[1], ast.Constant) and call.args[1].value == 0)):
        return [("at0", ast.unparse(f.value))]
    return []


def _callers_pass_at0(m, helper, pname):
    """Every call of `helper` in its module passes, for parameter `pname`, a stream that is at offset 0: a fresh
    io.BytesIO(...) or a name for which `seek(0)` dominates the call."""
    ps = params_of(helper)
    idx = ps.index(pname)
    n_calls, bad = 0, []
    for q, fnode in m.functions.items():
        def need(node, _h=helper.name):
            if isinstance(node, ast.Call) and isinstance(node.func, ast.Name) and node.func.id == _h:
                arg = node.args[idx] if idx < len(node.args) else next((k.value for k in node.keywords if k.arg == pname), None)
                if arg is None:
                    return []
                if isinstance(arg, ast.Call) and dotted(arg.func).split(".")[-1] == "BytesIO":
                    return [(("fresh",), "fresh stream")]
                return [(("at0", ast.unparse(arg)), "positioned")]
            return []
        mf = MustFacts(gen=_seek0_gen, need=need, kill_names=lambda fact: [fact[1].split(".")[0]] if len(fact) > 1 else [])
        for nd in mf.run(fnode, entry_facts=[("fresh",)]):
            n_calls += 1
            if not nd.ok:
                bad.append(f"{q}:{nd.node.lineno}")
    if n_calls and not bad:
        return True, f" (established by all {n_calls} call site(s): fresh io.BytesIO / seek(0) before the call)"
    return False, f" (call sites without the fact: {bad})" if bad else " (no call site found)"


def stream_obligations(mods):
    """`X.read*()` on a stream the function does not own must be dominated by `X.seek(0)` (same receiver expression, no
    reassignment of its root in between).  Scope: result classes and the serializer (streams owned by a result), plus
    every function of the package that reads a parameter called like a stream of a result (`buffer`, `data`, `stream`)."""
    obls, n_fn = [], 0
    for rel, m in mods.items():
        for q, fnode in m.functions.items():
            params = set(params_of(fnode))
            locs, _ = local_names(fnode)
            fresh = set()     # locals bound to a stream created here: io.BytesIO(...), open(...)
            for n in own_nodes(fnode):
                if isinstance(n, ast.Assign) and len(n.targets) == 1 and isinstance(n.targets[0], ast.Name) and isinstance(n.value, ast.Call):
                    if dotted(n.value.func).split(".")[-1] in ("BytesIO", "StringIO", "open"):
                        fresh.add(n.targets[0].id)
                if isinstance(n, ast.With):
                    for it in n.items:
                        if isinstance(it.optional_vars, ast.Name):
                            fresh.add(it.optional_vars.id)
            def foreign(recv):
                r = root_name(recv)
                if r is None or r in fresh:
                    return False
                if rel in STREAM_FILES:
                    return r in params or r == "self" or isinstance(recv, ast.Attribute)
                return isinstance(recv, ast.Name) and recv.id == INPUT_PARAM and INPUT_PARAM in params     # the caller's input buffer
            def need(node):
                if isinstance(node, ast.Call) and isinstance(node.func, ast.Attribute) and node.func.attr in READS and foreign(node.func.value):
                    return [(("at0", ast.unparse(node.func.value)), f"{ast.unparse(node.func)}() starts at offset 0")]
                return []
            mf = MustFacts(gen=_seek0_gen, need=need, kill_names=lambda fact: [fact[1].split(".")[0].split("[")[0]])
            res = mf.run(fnode)
            if not res:
                continue
            n_fn += 1
            for k, nd in enumerate(res):
                if not nd.ok and rel not in STREAM_FILES and fnode.name.startswith("_"):
                    # private helper: the fact may be established by every caller (fresh io.BytesIO(...) or seek(0) before the call)
                    nd.ok, extra = _callers_pass_at0(m, fnode, INPUT_PARAM)
                    nd.desc += extra
                o = ground_obligation(f"C06/{rel.split('/')[-1]}::{q}/stream#read-starts-at-offset-0-{k}", bool(nd.ok),
                                      f"{rel}:{nd.node.lineno} {nd.desc}" + ("" if nd.ok else ": no `seek(0)` on every path before it -- "
                                                                            "the bytes read depend on where an earlier reader left the cursor"), rel)
                o["replay_hint"] = {"kind": "stream", "file": rel, "function": q, "line": nd.node.lineno}
                obls.append(o)
    return obls, n_fn


# ------------------------------------------------------------------- state --
STATE_MUTATORS = {"append", "extend", "insert", "pop", "remove", "clear", "sort", "reverse", "update", "setdefault", "popitem", "add",
                  "discard", "move_to_end", "appendleft", "popleft", "__setitem__", "__delitem__"}
EVICTIONS = {"pop", "popitem", "clear", "move_to_end"}
INJECTIVE_WRAPPERS = {"tuple", "bytes", "str.encode"}
CACHE_DECORATORS = ("lru_cache", "cache", "cached_property")
EQ_INJECTIVE_ANNOTATIONS = {"str", "bytes", "int", "bool"}


def _module_level_names(m):
    """name -> kind for names bound at module level ('var', 'class', 'function', 'import')."""
    out = {}
    for s in m.tree.body:
        if isinstance(s, ast.Assign):
            for t in s.targets:
                for n in ast.walk(t):
                    if isinstance(n, ast.Name):
                        out[n.id] = "var"
        elif isinstance(s, ast.AnnAssign) and isinstance(s.target, ast.Name):
            out[s.target.id] = "var"
        elif isinstance(s, ast.ClassDef):
            out[s.name] = "class"
        elif isinstance(s, (ast.FunctionDef, ast.AsyncFunctionDef)):
            out[s.name] = "function"
        elif isinstance(s, (ast.Import, ast.ImportFrom)):
            for a in s.names:
                out.setdefault(a.asname or a.name.split(".")[0], "import")
    return out


def _assignments(fnode):
    """local name -> [value expressions it may take] (flow-insensitive), including loop / with targets and what is put
    into a local container (`x.append(e)`, `x[k] = e`)."""
    out = {}
    def add(t, v):
        for n in ast.walk(t):
            if isinstance(n, ast.Name) and isinstance(n.ctx, ast.Store):
                out.setdefault(n.id, []).append(v)
    for n in own_nodes(fnode):
        if isinstance(n, ast.Assign):
            for t in n.targets:
                if isinstance(t, (ast.Subscript, ast.Attribute)):
                    r = root_name(t)
                    if r:
                        out.setdefault(r, []).append(n.value)
                        if isinstance(t, ast.Subscript):
                            out[r].append(t.slice)
                else:
                    add(t, n.value)
        elif isinstance(n, ast.AnnAssign) and n.value is not None:
            add(n.target, n.value)
        elif isinstance(n, ast.AugAssign):
            r = root_name(n.target)
            if r:
                out.setdefault(r, []).append(n.value)
        elif isinstance(n, (ast.For, ast.AsyncFor)):
            add(n.target, n.iter)
        elif isinstance(n, ast.comprehension):
            add(n.target, n.iter)
        elif isinstance(n, ast.With):
            for it in n.items:
                if it.optional_vars is not None:
                    add(it.optional_vars, it.context_expr)
        elif isinstance(n, ast.NamedExpr):
            add(n.target, n.value)
        elif isinstance(n, ast.Call) and isinstance(n.func, ast.Attribute) and n.func.attr in STATE_MUTATORS:
            r = root_name(n.func.value)
            if r:
                for a in list(n.args) + [k.value for k in n.keywords]:
                    out.setdefault(r, []).append(a)
    return out


def _leaves(expr, assigns, params, seen=None):
    """Parameter / free names the value of `expr` may depend on (data dependence, flow-insensitive)."""
    seen = set() if seen is None else seen
    out = set()
    for n in ast.walk(expr):
        if isinstance(n, ast.Name) and isinstance(n.ctx, ast.Load):
            if n.id in seen:
                continue
            seen.add(n.id)
            if n.id in params:
                out.add(n.id)
            if n.id in assigns:
                for v in assigns[n.id]:
                    out |= _leaves(v, assigns, params, seen)
            elif n.id not in params:
                out.add(n.id)        # free name (module-level / builtin)
    return out


def _determined(key, assigns, params, depth=0):
    """Names whose value can be recovered from the key (the key is injective in them)."""
    if depth > 4:
        return set()
    if isinstance(key, ast.Name):
        out = {key.id}
        vals = assigns.get(key.id, [])
        if len(vals) == 1 and key.id not in params:
            out |= _determined(vals[0], assigns, params, depth + 1)
        return out
    if isinstance(key, ast.Tuple):
        out = set()
        for e in key.elts:
            out |= _determined(e, assigns, params, depth + 1)
        return out
    if isinstance(key, ast.Call) and len(key.args) == 1 and not key.keywords and dotted(key.func) in INJECTIVE_WRAPPERS:
        return _determined(key.args[0], assigns, params, depth + 1)
    if isinstance(key, ast.Attribute):
        return {ast.unparse(key)}
    return set()


def state_obligations(mods):
    """One obligation per write of process-persistent state."""
    obls, n_sites = [], 0
    # which functions are called somewhere in the package (simple names)
    called = set()
    for m in mods.values():
        for n in ast.walk(m.tree):
            if isinstance(n, ast.Call):
                d = dotted(n.func)
                if d:
                    called.add(d.split(".")[-1])
    written_globals = {}     # rel -> {global names written inside functions}
    mnames_by_rel = {}
    sites = []
    for rel, m in mods.items():
        mnames = _module_level_names(m)
        mnames_by_rel[rel] = mnames
        # class-level mutable containers are shared by all instances (process-persistent) unless rebound per instance
        class_state = set()
        for cq, cnode in m.classes.items():
            for st_ in cnode.body:
                t_, v_ = None, None
                if isinstance(st_, ast.Assign) and len(st_.targets) == 1 and isinstance(st_.targets[0], ast.Name):
                    t_, v_ = st_.targets[0].id, st_.value
                elif isinstance(st_, ast.AnnAssign) and isinstance(st_.target, ast.Name) and st_.value is not None:
                    t_, v_ = st_.target.id, st_.value
                if t_ and (isinstance(v_, (ast.Dict, ast.List, ast.Set, ast.ListComp, ast.DictComp, ast.SetComp)) or
                           (isinstance(v_, ast.Call) and dotted(v_.func).split(".")[-1] in ("dict", "list", "set", "OrderedDict", "defaultdict", "deque", "Counter"))):
                    class_state.add(t_)
        for n in ast.walk(m.tree):      # `self.NAME = ...` makes NAME an instance attribute
            if isinstance(n, (ast.Assign, ast.AnnAssign)):
                for t_ in (n.targets if isinstance(n, ast.Assign) else [n.target]):
                    if isinstance(t_, ast.Attribute) and isinstance(t_.value, ast.Name) and t_.value.id == "self":
                        class_state.discard(t_.attr)

        def shared_attr(e, _cs=class_state, _m=m):
            """`self.NAME` / `cls.NAME` / `Class.NAME` where NAME is a class-level mutable container."""
            while isinstance(e, ast.Subscript):
                e = e.value
            if isinstance(e, ast.Attribute) and e.attr in _cs and isinstance(e.value, ast.Name) and \
                    (e.value.id in ("self", "cls") or e.value.id in _m.classes):
                return e.attr
            return None
        for q, fnode in m.functions.items():
            locs, declared_global = local_names(fnode)
            def is_global(name):
                return name is not None and (name in declared_global or (name not in locs and name in mnames))
            for n in own_nodes(fnode):
                # writes to class-level shared containers
                if isinstance(n, (ast.Assign, ast.AugAssign)):
                    for t_ in (n.targets if isinstance(n, ast.Assign) else [n.target]):
                        if isinstance(t_, ast.Subscript) and shared_attr(t_.value):
                            sites.append((rel, q, fnode, n, shared_attr(t_.value), "store", t_.slice, n.value))
                if isinstance(n, ast.Call) and isinstance(n.func, ast.Attribute) and n.func.attr in STATE_MUTATORS and shared_attr(n.func.value):
                    sites.append((rel, q, fnode, n, shared_attr(n.func.value), "evict" if n.func.attr in EVICTIONS else "mutate", None, None))
                if isinstance(n, ast.Name) and isinstance(n.ctx, ast.Store) and n.id in declared_global:
                    sites.append((rel, q, fnode, n, n.id, "rebind", None, None))
                tgts = []
                if isinstance(n, ast.Assign):
                    tgts = [(t, n.value) for t in n.targets]
                elif isinstance(n, ast.AugAssign):
                    tgts = [(n.target, n.value)]
                elif isinstance(n, ast.AnnAssign) and n.value is not None:
                    tgts = [(n.target, n.value)]
                elif isinstance(n, ast.Delete):
                    tgts = [(t, None) for t in n.targets]
                for t, v in tgts:
                    for sub in (t.elts if isinstance(t, (ast.Tuple, ast.List)) else [t]):
                        if isinstance(sub, (ast.Subscript, ast.Attribute)):
                            r = root_name(sub)
                            if is_global(r) and (mnames.get(r) != "import" or isinstance(sub, ast.Attribute)):
                                if v is None:
                                    sites.append((rel, q, fnode, n, r, "evict", None, None))
                                elif isinstance(sub, ast.Subscript) and isinstance(sub.value, ast.Name):
                                    sites.append((rel, q, fnode, n, r, "store", sub.slice, v))
                                else:
                                    sites.append((rel, q, fnode, n, r, "attr-store", None, v))
                if isinstance(n, ast.Call) and isinstance(n.func, ast.Attribute) and n.func.attr in STATE_MUTATORS:
                    r = root_name(n.func.value)
                    if is_global(r) and mnames.get(r) in ("var", "class") and not (r in ("logger", "logging", "log")):
                        kind = "evict" if n.func.attr in EVICTIONS and isinstance(n.func.value, ast.Name) else "mutate"
                        sites.append((rel, q, fnode, n, r, kind, None, None))
                if isinstance(n, ast.Call) and dotted(n.func) == "setattr" and n.args and is_global(root_name(n.args[0])):
                    sites.append((rel, q, fnode, n, root_name(n.args[0]), "attr-store", None, n.args[2] if len(n.args) > 2 else None))
    for (rel, q, fnode, n, g, kind, k, v) in sites:
        if kind != "evict":
            written_globals.setdefault(rel, set()).add(g)
    counters = {}
    for (rel, q, fnode, n, g, kind, key, val) in sites:
        if kind == "evict":
            continue           # dropping entries of a memo never changes a result (the value is recomputed from the key)
        n_sites += 1
        short = rel.split("/")[-1]
        idx = counters.setdefault((rel, q, g, kind), 0)
        counters[(rel, q, g, kind)] += 1
        loc = f"{rel}:{n.lineno}"
        hint = {"kind": "state", "file": rel, "function": q, "global": g, "line": n.lineno,
                "params": [(a.arg, ast.unparse(a.annotation) if a.annotation is not None else "") for a in
                           (fnode.args.posonlyargs + fnode.args.args + fnode.args.kwonlyargs)]}
        if kind == "store":
            params = set(params_of(fnode))
            assigns = _assignments(fnode)
            det = _determined(key, assigns, params)
            leaves = _leaves(val, assigns, params)
            var_leaves = {x for x in leaves if x in params}
            other_state = {x for x in leaves if x in written_globals.get(rel, ()) and x not in params and x not in assigns}
            missing = sorted(var_leaves - det)
            key_leaves = {x for x in _leaves(key, assigns, params) if x in params}
            ksrc = ast.unparse(key)
            def same_key(e):
                return e is not None and ast.unparse(e) == ksrc
            def on_g(e, _g=g):
                return (isinstance(e, ast.Name) and e.id == _g) or (isinstance(e, ast.Attribute) and e.attr == _g)
            has_lookup = any(
                (isinstance(x, ast.Call) and isinstance(x.func, ast.Attribute) and x.func.attr == "get" and on_g(x.func.value) and x.args and same_key(x.args[0])) or
                (isinstance(x, ast.Compare) and len(x.ops) == 1 and isinstance(x.ops[0], (ast.In, ast.NotIn)) and on_g(x.comparators[0]) and same_key(x.left)) or
                (isinstance(x, ast.Subscript) and isinstance(x.ctx, ast.Load) and on_g(x.value) and same_key(x.slice))
                for x in own_nodes(fnode))
            writers = {(r2, q2) for (r2, q2, _f, _n, g2, k2, _k, _v) in sites if g2 == g and r2 == rel and k2 != "evict"}
            outside = sorted({q2 for q2, f2 in mods[rel].functions.items() if (rel, q2) not in writers and not isinstance(f2, ast.Lambda) and
                              g not in local_names(f2)[0] and any(isinstance(x, ast.Name) and x.id == g and isinstance(x.ctx, ast.Load) for x in own_nodes(f2))}) \
                if mnames_by_rel[rel].get(g) else []
            ok = not missing and not other_state and (has_lookup or not key_leaves) and not outside
            why = (f"{loc} {g}[{ast.unparse(key)}] = {ast.unparse(val)[:60]}: the stored value depends on {sorted(var_leaves)}; "
                   f"the key determines {sorted(d for d in det if d in params)}")
            if missing:
                why += (f" -- {missing} not recoverable from the key: two inputs with equal keys share one entry, so a result depends on "
                        "what this process extracted earlier")
            if other_state:
                why += f" -- value reads other process-persistent state {sorted(other_state)}"
            if not missing and not (has_lookup or not key_leaves):
                why += (f" -- entries are added under an input-dependent key ({sorted(key_leaves)}) without a lookup of the same key in this function: "
                        "which entries exist depends on what the process extracted earlier")
            if outside:
                why += f" -- {g} is also read outside its memo function(s): {outside}"
            o = ground_obligation(f"C06/{short}::{q}/state#{g}-stored-value-determined-by-key-{idx}", ok, why, rel, definite=False)
        elif kind == "rebind":
            pub = not fnode.name.startswith("_") and "<locals>" not in q
            ok = pub and fnode.name not in called
            o = ground_obligation(f"C06/{short}::{q}/state#{g}-rebound-only-by-configuration-api-{idx}", ok,
                                  f"{loc} `global {g}` rebound in {q}: " + ("public configuration entry point, never called inside the package"
                                                                             if ok else "reachable from package code: later results depend on earlier calls"),
                                  rel, definite=False)
        else:
            o = ground_obligation(f"C06/{short}::{q}/state#{g}-not-mutated-{idx}", False,
                                  f"{loc} {kind} of process-persistent {g}: {ast.unparse(n)[:80]} (not a key -> value memo)", rel, definite=False)
        o["replay_hint"] = hint
        obls.append(o)
    # decorator caches: keyed by the complete argument tuple (hash / ==)
    for rel, m in mods.items():
        for q, fnode in m.functions.items():
            if isinstance(fnode, ast.Lambda):
                continue
            decs = [d for d in fnode.decorator_list if dotted(d.func if isinstance(d, ast.Call) else d).split(".")[-1] in CACHE_DECORATORS]
            if not decs:
                continue
            n_sites += 1
            bad = []
            for a in fnode.args.posonlyargs + fnode.args.args + fnode.args.kwonlyargs:
                if a.arg in ("self", "cls"):
                    bad.append(f"cache on a method keeps `{a.arg}` alive and keys by object identity/equality")
                    continue
                ann = ast.unparse(a.annotation) if a.annotation is not None else ""
                if ann not in EQ_INJECTIVE_ANNOTATIONS:
                    bad.append(f"parameter {a.arg}: {ann or 'unannotated'} (== may identify different values)")
            locs, dg = local_names(fnode)
            reads_state = sorted({x.id for x in own_nodes(fnode) if isinstance(x, ast.Name) and isinstance(x.ctx, ast.Load)
                                  and x.id not in locs and x.id in written_globals.get(rel, ())})
            if reads_state:
                bad.append(f"body reads mutable module state {reads_state}")
            if fnode.args.vararg or fnode.args.kwarg:
                bad.append("variadic parameters")
            o = ground_obligation(f"C06/{rel.split('/')[-1]}::{q}/state#decorator-cache-result-determined-by-arguments", not bad,
                                  f"{rel}:{fnode.lineno} @{ast.unparse(decs[0])}: " + ("; ".join(bad) or "all parameters of ==-injective types, "
                                                                                       "body reads no mutable module state"), rel, definite=False)
            o["replay_hint"] = {"kind": "state", "file": rel, "function": q, "global": None, "line": fnode.lineno,
                                "params": [(a.arg, ast.unparse(a.annotation) if a.annotation is not None else "") for a in fnode.args.args]}
            obls.append(o)
    return obls, n_sites


# ------------------------------------------------------------------- taint --
# the value (not the effect) of these calls is independent of a tainted *name* passed in
NAME_CONSUMERS = {"open", "os.path.exists", "os.path.isfile", "os.path.isdir", "os.path.getsize", "os.remove", "os.unlink", "os.makedirs",
                  "os.mkdir", "os.rmdir", "shutil.rmtree", "isinstance", "io.open", "os.path.islink", "os.path.lexists"}
NAME_CONSUMER_METHODS = {"extractall", "extract", "cleanup", "close"}
LOGGER_ROOTS = {"logger", "logging", "log", "_logger", "LOGGER"}


class Taint:
    """Interprocedural, context-insensitive may-taint for ONE source site.

    Followed: assignments (incl. tuple / loop / with targets), operators, f-strings, subscripts / attributes of tainted
    values, containers and their mutators (`lst.append(t)` taints `lst`), library calls (result tainted when an argument or
    the receiver is), package calls (argument -> parameter of the resolved callee; tainted `return`/`yield` -> call
    expression in every resolved caller).  Not followed: control dependence (a branch on a tainted condition), exceptions
    raised with a tainted message (they end in log messages or abort the extraction)."""

    def __init__(self, mods, index):
        self.mods = mods
        self.index = index           # simple name -> [(rel, q, fnode)]
        self.tainted = {}            # (rel, q) -> set of local names
        self.ret = set()             # (rel, q) whose return / yield value is tainted
        self.violations = []         # (rel, q, lineno, text)
        self.trace = []

    # -- resolution
    def resolve(self, m, q, call):
        f = call.func
        cands = []
        if isinstance(f, ast.Name):
            nested = f"{q}.<locals>.{f.id}"
            parent_nested = (q.rsplit(".<locals>.", 1)[0] + ".<locals>." + f.id) if ".<locals>." in q else None
            for cand in (nested, parent_nested, f.id):
                if cand and cand in m.functions:
                    return [(m.rel, cand, m.functions[cand])]
            origin = m.imports.get(f.id, "")
            if origin.startswith("sharepoint2text."):
                rel = origin.rsplit(".", 1)[0].replace(".", "/") + ".py"
                name = origin.rsplit(".", 1)[1]
                m2 = self.mods.get(rel)
                if m2 is not None and name in m2.functions:
                    return [(rel, name, m2.functions[name])]
        elif isinstance(f, ast.Attribute) and isinstance(f.value, ast.Name) and f.value.id in ("self", "cls") and "." in q:
            cls = q.split(".<locals>.")[0].rsplit(".", 1)[0]
            cand = f"{cls}.{f.attr}"
            if cand in m.functions:
                return [(m.rel, cand, m.functions[cand])]
        elif isinstance(f, ast.Attribute) and isinstance(f.value, ast.Name):
            origin = m.imports.get(f.value.id, "")
            if origin.startswith("sharepoint2text"):
                rel = origin.replace(".", "/") + ".py"
                m2 = self.mods.get(rel)
                if m2 is not None and f.attr in m2.functions:
                    return [(rel, f.attr, m2.functions[f.attr])]
        return cands

    def run(self, rel, q, source_call, bound_names=()):
        self.source = source_call
        self.tainted[(rel, q)] = set(bound_names)
        work = [(rel, q)]
        rounds = 0
        while work and rounds < 400:
            rounds += 1
            key = work.pop()
            m = self.mods[key[0]]
            changed_callees, ret_changed = self.analyze(m, key[1], m.functions[key[1]])
            for c in changed_callees:
                if c not in work:
                    work.append(c)
            if ret_changed:
                # every resolved caller has to be (re)analysed
                name = key[1].split(".")[-1]
                n_callers = 0
                for rel2, m2 in self.mods.items():
                    for q2, f2 in m2.functions.items():
                        n_callers += sum(1 for n in own_nodes(f2) if isinstance(n, ast.Call) and dotted(n.func).split(".")[-1] == name)
                fn = m.functions[key[1]]
                if n_callers == 0 and fn.name.startswith("_") and not fn.name.startswith("__"):
                    self.violations.append((key[0], key[1], fn.lineno, f"returned / yielded by {key[1]}, which is only used as a value (no direct call site)"))
                for rel2, m2 in self.mods.items():
                    for q2, f2 in m2.functions.items():
                        if any(isinstance(n, ast.Call) and dotted(n.func).split(".")[-1] == name for n in own_nodes(f2)):
                            if (rel2, q2) not in work:
                                self.tainted.setdefault((rel2, q2), set())
                                work.append((rel2, q2))
        return self.violations

    def analyze(self, m, q, fnode):
        key = (m.rel, q)
        T = self.tainted.setdefault(key, set())
        params = params_of(fnode)
        locs, declared_global = local_names(fnode)
        changed_callees = set()
        ret_before = key in self.ret
        viol = {}

        def is_logger(call):
            r = root_name(call.func)
            return r in LOGGER_ROOTS

        def t(e):
            if e is None:
                return False
            if e is self.source:
                return True
            if isinstance(e, ast.Name):
                return e.id in T
            if isinstance(e, ast.Constant):
                return False
            if isinstance(e, ast.Lambda):
                return False
            if isinstance(e, ast.Call):
                d = dotted(e.func)
                canon = d
                if d:
                    head, _, rest = d.partition(".")
                    origin = m.imports.get(head)
                    if origin:
                        canon = origin + ("." + rest if rest else "")
                args = list(e.args) + [k.value for k in e.keywords]
                anyt = any(t(a.value if isinstance(a, ast.Starred) else a) for a in args)
                if canon in NAME_CONSUMERS or d in NAME_CONSUMERS:
                    return False
                if is_logger(e):
                    return False
                res = self.resolve(m, q, e)
                if res:
                    out = False
                    for (r2, q2, f2) in res:
                        if (r2, q2) in self.ret:
                            out = True
                    return out
                if isinstance(e.func, ast.Attribute):
                    if e.func.attr in NAME_CONSUMER_METHODS:
                        return False
                    if any((r2, q2) in self.ret for (r2, q2, _f) in self.index.get(e.func.attr, ()) if "." in q2):
                        return True      # unresolved receiver: some package method of that name returns the value
                    return anyt or t(e.func.value)
                return anyt
            if isinstance(e, (ast.GeneratorExp, ast.ListComp, ast.SetComp)):
                return t(e.elt) or any(t(g.iter) for g in e.generators)
            if isinstance(e, ast.DictComp):
                return t(e.key) or t(e.value) or any(t(g.iter) for g in e.generators)
            return any(t(c) for c in ast.iter_child_nodes(e) if isinstance(c, ast.expr))

        def bind(target, flag):
            nonlocal grew
            if not flag:
                return
            for n in ast.walk(target):
                if isinstance(n, ast.Name) and isinstance(n.ctx, ast.Store) and n.id not in T:
                    T.add(n.id)
                    grew = True

        def caller_visible(root):
            return root is not None and (root == "self" or root in params or root in declared_global or (root not in locs))

        for _ in range(8):
            grew = False
            for n in own_nodes(fnode):
                if isinstance(n, ast.Assign):
                    f = t(n.value)
                    for tg in n.targets:
                        for sub in (tg.elts if isinstance(tg, (ast.Tuple, ast.List)) else [tg]):
                            if isinstance(sub, ast.Starred):
                                sub = sub.value
                            if isinstance(sub, (ast.Attribute, ast.Subscript)):
                                if f or (isinstance(sub, ast.Subscript) and t(sub.slice)):
                                    r = root_name(sub)
                                    if caller_visible(r):
                                        viol[(n.lineno, "store")] = f"stored into caller-visible {ast.unparse(sub)[:60]}"
                                    if r and r not in T:
                                        T.add(r)
                                        grew = True
                            else:
                                bind(sub, f)
                elif isinstance(n, ast.AnnAssign) and n.value is not None:
                    if isinstance(n.target, ast.Name):
                        bind(n.target, t(n.value))
                    elif t(n.value):
                        r = root_name(n.target)
                        if caller_visible(r):
                            viol[(n.lineno, "store")] = f"stored into caller-visible {ast.unparse(n.target)[:60]}"
                elif isinstance(n, ast.AugAssign):
                    if t(n.value):
                        r = root_name(n.target)
                        if isinstance(n.target, ast.Name):
                            bind(n.target, True)
                        else:
                            if caller_visible(r):
                                viol[(n.lineno, "store")] = f"stored into caller-visible {ast.unparse(n.target)[:60]}"
                            if r and r not in T:
                                T.add(r)
                                grew = True
                elif isinstance(n, (ast.For, ast.AsyncFor)):
                    bind(n.target, t(n.iter))
                elif isinstance(n, ast.comprehension):
                    bind(n.target, t(n.iter))
                elif isinstance(n, ast.With):
                    for it in n.items:
                        if it.optional_vars is not None:
                            bind(it.optional_vars, t(it.context_expr))
                elif isinstance(n, ast.NamedExpr):
                    bind(n.target, t(n.value))
                elif isinstance(n, ast.Return):
                    if t(n.value):
                        self.ret.add(key)
                        viol.setdefault(("ret", n.lineno), None)
                elif isinstance(n, (ast.Yield, ast.YieldFrom)):
                    if t(n.value):
                        self.ret.add(key)
                        viol.setdefault(("ret", n.lineno), None)
                elif isinstance(n, ast.Call):
                    args = [(i, a) for i, a in enumerate(n.args)]
                    kws = [(k.arg, k.value) for k in n.keywords]
                    tainted_pos = [i for i, a in args if t(a.value if isinstance(a, ast.Starred) else a)]
                    tainted_kw = [k for k, v in kws if t(v)]
                    if not tainted_pos and not tainted_kw:
                        continue
                    if is_logger(n):
                        continue
                    d = dotted(n.func)
                    head, _, rest = d.partition(".") if d else ("", "", "")
                    canon = (m.imports.get(head) + ("." + rest if rest else "")) if d and m.imports.get(head) else d
                    if canon in NAME_CONSUMERS or d in NAME_CONSUMERS:
                        continue
                    res = self.resolve(m, q, n)
                    if not res and isinstance(n.func, ast.Attribute) and root_name(n.func.value) not in m.imports:
                        # any package method of that name: followed into the callee, which decides (a store into `self` is a sink there)
                        res = [c for c in self.index.get(n.func.attr, ()) if "." in c[1] and "<locals>" not in c[1]]
                    if res:
                        for (r2, q2, f2) in res:
                            ps = params_of(f2)
                            if ps and ps[0] in ("self", "cls") and isinstance(n.func, ast.Attribute):
                                ps = ps[1:]
                            T2 = self.tainted.setdefault((r2, q2), set())
                            before = len(T2)
                            for i in tainted_pos:
                                if isinstance(n.args[i], ast.Starred):
                                    T2.update(ps)
                                elif i < len(ps):
                                    T2.add(ps[i])
                                elif f2.args.vararg:
                                    T2.add(f2.args.vararg.arg)
                            for k in tainted_kw:
                                if k is None:
                                    T2.update(ps)
                                elif k in ps:
                                    T2.add(k)
                                elif f2.args.kwarg:
                                    T2.add(f2.args.kwarg.arg)
                            if len(T2) != before:
                                changed_callees.add((r2, q2))
                        continue
                    if isinstance(n.func, ast.Name):
                        nm = n.func.id
                        if nm in locs and nm not in {x.name for x in own_nodes(fnode) if isinstance(x, (ast.FunctionDef, ast.ClassDef))}:
                            viol[(n.lineno, "dyn")] = f"passed to the dynamically selected callable {nm}(...)"
                        continue        # constructor / builtin / library function: the result carries the taint (see t())
                    if isinstance(n.func, ast.Attribute):
                        if n.func.attr in NAME_CONSUMER_METHODS:
                            continue
                        r = root_name(n.func.value)
                        pure_lib = r is not None and r not in locs and r in m.imports     # os.path.join(...), re.sub(...)
                        if pure_lib:
                            continue
                        if r is not None and not t(n.func.value):
                            # a method that receives the tainted value may keep it: x.append(t), obj.set(t)
                            if caller_visible(r):
                                viol[(n.lineno, "store")] = f"handed to {ast.unparse(n.func)[:50]}() of a caller-visible object"
                            if r not in T:
                                T.add(r)
                                grew = True
            if not grew:
                break
        # verdicts for this function
        is_entry = (not fnode.name.startswith("_") or fnode.name.startswith("__")) and "<locals>" not in q
        for k, text in viol.items():
            if k[0] == "ret":
                if is_entry:
                    self.violations.append((m.rel, q, k[1], f"returned / yielded by the public function {q}"))
            else:
                self.violations.append((m.rel, q, k[0], text))
        self.violations = sorted(set(self.violations))
        return changed_callees, (key in self.ret) and not ret_before


def function_index(mods):
    idx = {}
    for rel, m in mods.items():
        for q, f in m.functions.items():
            idx.setdefault(q.split(".")[-1], []).append((rel, q, f))
    return idx


def taint_verdict(mods, index, rel, q, fnode, call):
    """(ok, text) for one nondeterministic source call."""
    # names bound directly from the source: `x = src()`, `with src() as x`, `for x in src()`
    tn = Taint(mods, index)
    viol = tn.run(rel, q, call)
    reached = sorted({(r, qq) for (r, qq), names in tn.tainted.items() if names or (r, qq) == (rel, q)})
    if viol:
        r, qq, line, text = viol[0]
        return False, f"value {text} ({r}:{line})" + (f" [+{len(viol) - 1} more sinks]" if len(viol) > 1 else ""), viol
    return True, f"followed through {len(reached)} function(s): reaches no result (only names of files opened / log messages)", viol
