"""C08 -- encrypted input is rejected as encrypted, plain input never is.

Each detector is specified by a predicate over an *abstract container view*
supplied by an ASSUMED library contract (olefile: isOleFile / exists(name) /
stream bytes; zipfile: member presence, manifest text, per-member flag bits;
7z: folder coder ids; pypdf: is_encrypted / decrypt("")).  The predicates are
written from the property statement and the file-format facts it names
(FILEPASS = BIFF record 0x002F on the record chain from offset 0; FIB flag
0x0100 at offset 0x0A; ZIP general-purpose flag bit 0; 7z coder id prefix
06 F1 07; ODF manifest `encryption-data` *element*; EPUB encryption.xml
EncryptedData that is not font obfuscation / rights.xml), never from the bodies.

Both directions are obligations: "encrypted => the file-encrypted error, before
any content / any member read" and "file-encrypted error => encrypted".
"""
import ast

import z3

from pyvc import loader, ops
from pyvc.contracts import FnContract, LoopSpec, Raises
from pyvc.flow import MustFacts, dotted, ground_obligation
from pyvc.symex import Executor
from pyvc.values import (NONE, VBool, VBytes, VExc, VExt, VFunc, VInt, VSeq, VStr, VTuple, VType, VUnk,
                         ext_sort, fresh_name)
from pyvc.verify import Maker, p_const, p_ext, p_obj, p_opt, p_str, p_unk
from contracts import common

X = "sharepoint2text/parsing/extractors/"
ENC = X + "util/encryption.py"
ZB = X + "util/zip_bomb.py"
DOC = X + "ms_legacy/doc_extractor.py"
ARCH = X + "archive_extractor.py"
SEVEN = X + "util/sevenzip.py"
EPUB = X + "epub_extractor.py"
PDF = X + "pdf/pdf_extractor.py"
ENCERR = "ExtractionFileEncryptedError"

I, B, S = z3.IntSort(), z3.BoolSort(), z3.StringSort()
BytesIO = ext_sort("BytesIO")
OleFile = ext_sort("OleFile")
ZipFile = ext_sort("ZipFile")
ZipInfo = ext_sort("ZipInfo")
Blob = ext_sort("Blob")

# ------------------------------------------------- abstract container views --
ISOLE = z3.Function("olefile_isOleFile", BytesIO, B)          # the bytes are an OLE2 compound file
OLE_OF = z3.Function("ole_container_of", BytesIO, OleFile)    # its directory view
EX = z3.Function("ole_exists", OleFile, S, B)                 # a stream/storage of that name exists
SLEN = z3.Function("ole_stream_len", OleFile, S, I)           # stream content: length ...
SBYTE = z3.Function("ole_stream_byte", OleFile, S, I, I)      # ... and byte at index (0..255)
ISZIP = z3.Function("zipfile_is_zipfile", BytesIO, B)
ZIP_OF = z3.Function("zip_container_of", BytesIO, ZipFile)
HASM = z3.Function("zip_has_member", ZipFile, S, B)
MBLOB = z3.Function("zip_member_bytes", ZipFile, S, Blob)
TEXT = z3.Function("utf8_text_of", Blob, S)                   # decoded text of a member (UTF-8 assumed)
HAS_ENC_ELEM = z3.Function("xml_has_encryption_data_element", S, B)   # the manifest *tree* has an encryption-data element

MANIFEST = "META-INF/manifest.xml"
OLE_ENC_STREAMS = ("EncryptionInfo", "EncryptedPackage", "DataSpaces")      # property statement (quantifier text)
PPT_ENC_STREAMS = ("EncryptedSummary", "EncryptedSummaryInformation")       # [MS-PPT] encrypted document streams
FILEPASS = 0x002F                                                          # [MS-XLS] 2.4.117


def sv(x):
    return z3.StringVal(x)


def spec_ole_enc(ole):
    return z3.Or([EX(ole, sv(n)) for n in OLE_ENC_STREAMS])


def spec_ooxml(f):
    return z3.And(ISOLE(f), spec_ole_enc(OLE_OF(f)))


def spec_ppt(f):
    ole = OLE_OF(f)
    return z3.And(ISOLE(f), z3.Or(spec_ole_enc(ole), z3.Or([EX(ole, sv(n)) for n in PPT_ENC_STREAMS])))


def u16(ole, name, o):
    return SBYTE(ole, name, o) + 256 * SBYTE(ole, name, o + 1)


# Record chain (DESIGN Appendix B): o_0 = 0, o_{k+1} = o_k + 4 + len16(o_k) while o_k + 4 <= |d|.
# FP(o) := "some record on the chain starting at o is FILEPASS" (recursive along the chain).
FP = z3.RecFunction("filepass_on_chain_from", OleFile, S, I, B)
_o, _n, _k = z3.Const("ole!fp", OleFile), z3.String("name!fp"), z3.Int("o!fp")
z3.RecAddDefinition(FP, [_o, _n, _k],
                    z3.If(_k + 4 > SLEN(_o, _n), z3.BoolVal(False),
                          z3.If(u16(_o, _n, _k) == FILEPASS, z3.BoolVal(True),
                                FP(_o, _n, _k + 4 + u16(_o, _n, _k + 2)))))


def workbook_stream(ole):
    return z3.If(EX(ole, sv("Workbook")), sv("Workbook"), sv("Book"))


def spec_xls(f):
    ole = OLE_OF(f)
    return z3.And(ISOLE(f), z3.Or(EX(ole, sv("Workbook")), EX(ole, sv("Book"))), FP(ole, workbook_stream(ole), z3.IntVal(0)))


def manifest_text(f):
    return TEXT(MBLOB(ZIP_OF(f), sv(MANIFEST)))


def spec_odf(f):
    return z3.And(ISZIP(f), HASM(ZIP_OF(f), sv(MANIFEST)), HAS_ENC_ELEM(manifest_text(f)))


# ------------------------------------------------------ assumed library models --
def _fl(v):
    return v if isinstance(v, VExt) and v.sort == "BytesIO" else None


def m_isOleFile(ex, st, args, kwargs, node):
    """olefile.isOleFile(f): ASSUMED pure predicate of the bytes (or raises anything)."""
    f = _fl(args[0]) if args else None
    ex.exc_any(st.fork(), f"{ex.loc(node)} olefile.isOleFile")
    if f is None:
        return [(st, VBool(z3.Bool(fresh_name("isole"))))]
    return [(st, VBool(ISOLE(f.t)))]


def m_OleFileIO(ex, st, args, kwargs, node):
    """olefile.OleFileIO(f): ASSUMED to raise or return the directory view of the same bytes."""
    f = _fl(args[0]) if args else None
    ex.exc_any(st.fork(), f"{ex.loc(node)} olefile.OleFileIO")
    if f is None:
        return [(st, VExt("OleFile"))]
    return [(st, VExt("OleFile", OLE_OF(f.t)))]


def with_passthrough(ex, st, cm, phase):
    if phase == "enter":
        return [(st, cm)]


def m_ole_exists(ex, st, obj, args, kwargs, node):
    a = args[0]
    if not isinstance(a, VStr):
        return [(st, VBool(z3.Bool(fresh_name("exists"))))]
    return [(st, VBool(EX(obj.t, a.t)))]


def m_ole_openstream(ex, st, obj, args, kwargs, node):
    ex.exc_any(st.fork(), f"{ex.loc(node)} OleFileIO.openstream")
    s = VExt("OleStream")
    a = args[0]
    st.ghost[("olestream", s.t.get_id())] = (obj.t, a.t if isinstance(a, VStr) else z3.String(fresh_name("stream_name")))
    return [(st, s)]


def m_olestream_read(ex, st, obj, args, kwargs, node):
    """OleStream.read(): ASSUMED to return the whole stream: a byte string of length SLEN >= 0."""
    ex.exc_any(st.fork(), f"{ex.loc(node)} OleStream.read")
    key = st.ghost.get(("olestream", obj.t.get_id()))
    if key is None or args:
        return [(st, VUnk("bytes"))]
    ole, name = key
    st.assume(SLEN(ole, name) >= 0)
    if z3.is_string_value(name):
        st.ghost[("stream_read", name.as_string())] = True
    return [(st, VSeq(SLEN(ole, name), lambda i: VInt(SBYTE(ole, name, i)), "byte", True, tag=(ole, name)))]


def m_is_zipfile(ex, st, args, kwargs, node):
    f = _fl(args[0]) if args else None
    ex.exc_any(st.fork(), f"{ex.loc(node)} zipfile.is_zipfile")
    if f is None:
        return [(st, VBool(z3.Bool(fresh_name("iszip"))))]
    return [(st, VBool(ISZIP(f.t)))]


def m_zip_read(ex, st, obj, args, kwargs, node):
    """ZipFile.read(name): ASSUMED -- KeyError iff there is no such member; may raise anything else; else the bytes."""
    st.ghost["zip_reads"] = st.ghost.get("zip_reads", 0) + 1
    t, cnd = ex.uni.any_exception()
    bad = st.fork().assume(z3.And(cnd, z3.Not(ex.uni.subclass_term(t, "KeyError"))))
    ex.raise_in(bad, VExc(t, {"site": f"{ex.loc(node)} ZipFile.read"}))
    ex.exc_any_sites.append(f"{ex.loc(node)} ZipFile.read")
    a = args[0]
    if not isinstance(a, VStr):
        return [(st, VUnk("bytes"))]
    st2 = ex.fork_raise(st, z3.Not(HASM(obj.t, a.t)), "KeyError")
    if st2 is None:
        return []
    return [(st2, VExt("Blob", MBLOB(obj.t, a.t)))]


def m_blob_decode(ex, st, obj, args, kwargs, node):
    """bytes.decode('utf-8', errors='ignore'): ASSUMED to be the member's text (UTF-8 producers)."""
    enc = args[0].const() if args and isinstance(args[0], VStr) else None
    if enc not in ("utf-8", "utf8"):
        return [(st, VStr(z3.String(fresh_name("decoded"))))]
    return [(st, VStr(TEXT(obj.t)))]


def install_container_models(reg):
    common.install_bytesio(reg)
    reg.ext_models["olefile.isOleFile"] = m_isOleFile
    reg.ext_models["olefile.OleFileIO"] = m_OleFileIO
    reg.ext_models[("with", "OleFile")] = with_passthrough
    reg.ext_models[("with", "ZipFile")] = with_passthrough
    reg.method_models[("OleFile", "exists")] = m_ole_exists
    reg.method_models[("OleFile", "openstream")] = m_ole_openstream
    reg.method_models[("OleStream", "read")] = m_olestream_read
    reg.ext_models["zipfile.is_zipfile"] = m_is_zipfile
    reg.method_models[("ZipFile", "read")] = m_zip_read
    reg.method_models[("Blob", "decode")] = m_blob_decode
    reg.ext_models["struct.Struct"] = m_struct_new
    reg.method_models[("Struct", "unpack_from")] = m_struct_unpack_from


STRUCT_FMT = {}     # z3 id of a Struct constant -> format string (filled when the module-level `struct.Struct("<H")` is evaluated)
_SIZES = {"B": 1, "H": 2, "I": 4, "Q": 8}


def m_struct_new(ex, st, args, kwargs, node):
    fmt = args[0].const() if args and isinstance(args[0], VStr) else None
    s_ = VExt("Struct")
    STRUCT_FMT[s_.t.get_id()] = fmt
    return [(st, s_)]


def m_struct_unpack_from(ex, st, obj, args, kwargs, node):
    """struct.Struct('<X').unpack_from(buf, off): ASSUMED semantics of the struct module for one little-endian
    unsigned field: struct.error unless off + size <= len(buf); the value is sum(buf[off+k] * 256**k)."""
    fmt = STRUCT_FMT.get(obj.t.get_id())
    buf = args[0] if args else None
    off = args[1] if len(args) > 1 else kwargs.get("offset", VInt(0))
    if not (fmt and len(fmt) == 2 and fmt[0] == "<" and fmt[1] in _SIZES and isinstance(buf, VSeq) and buf.is_bytes and isinstance(off, VInt)):
        return ex.havoc_call(st, f"Struct({fmt}).unpack_from", args, node)
    size = _SIZES[fmt[1]]
    o = ops.int_term(off)
    st2 = ex.fork_raise(st, z3.Or(o < 0, o + size > buf.length), "struct.error")
    if st2 is None:
        return []
    bs = [ops.int_term(buf.elem(o + k)) for k in range(size)]
    st2.assume(z3.And([z3.And(b >= 0, b <= 255) for b in bs]))
    return [(st2, VTuple([VInt(z3.Sum([b * (256 ** k) for k, b in enumerate(bs)]))]))]


INLINE_METHODS = {"_get_stream"}


# ----------------------------------------------------------------- executor --
def raises_encrypted(stmt):
    """`if <cond>: raise ExtractionFileEncryptedError(...)` (the rejection site)."""
    return isinstance(stmt, ast.If) and any(isinstance(n, ast.Raise) and n.exc is not None and ENCERR in ast.unparse(n.exc)
                                            for b in stmt.body for n in ast.walk(b))


class C08Executor(Executor):
    """int.from_bytes(slice, 'little') over a symbolic byte sequence; ghost bookkeeping for yields.
    `merge_after_check`: precise paths up to and including the rejection site, merged (over-approximated,
    sound) states for the remaining statements of that block -- a performance knob only."""

    def __init__(self, *a, merge_after_check=False, **kw):
        super().__init__(*a, **kw)
        self.merge_after_check = merge_after_check

    def exec_block(self, stmts, st):
        if self.merge_after_check and not self.merge and self.inline_depth == 0:
            for idx, s_ in enumerate(stmts):
                if raises_encrypted(s_) and idx + 1 < len(stmts):
                    outs = super().exec_block(stmts[:idx + 1], st)
                    falls = [o.st for o in outs if o.kind == "fall"]
                    res = [o for o in outs if o.kind != "fall"]
                    self.merge = True
                    try:
                        for f_ in falls:
                            res.extend(super().exec_block(stmts[idx + 1:], f_))
                    finally:
                        self.merge = False
                    return res
        return super().exec_block(stmts, st)

    def call(self, st, f, args, kwargs, node):
        if isinstance(f, VFunc) and f.how == "classattr" and f.a == "int" and f.b == "from_bytes":
            return self.int_from_bytes(st, args, kwargs, node)
        return super().call(st, f, args, kwargs, node)

    def int_from_bytes(self, st, args, kwargs, node):
        seq = args[0] if args else None
        order = args[1] if len(args) > 1 else kwargs.get("byteorder")
        oc = order.const() if isinstance(order, VStr) else None
        if not (isinstance(seq, VSeq) and seq.is_bytes and oc in ("little", "big")) or kwargs.get("signed") is not None:
            return self.havoc_call(st, "int.from_bytes", args, node)
        n = seq.length
        e0, e1 = ops.int_term(seq.elem(z3.IntVal(0))), ops.int_term(seq.elem(z3.IntVal(1)))
        st.assume(z3.And(e0 >= 0, e0 <= 255, e1 >= 0, e1 <= 255))      # elements of a bytes object
        other = z3.Int(fresh_name("from_bytes"))
        st.assume(other >= 0)
        two = e0 + 256 * e1 if oc == "little" else 256 * e0 + e1
        return [(st, VInt(z3.If(n == 2, two, z3.If(n == 1, e0, z3.If(n == 0, z3.IntVal(0), other)))))]

    def obj_method(self, st, obj, name, args, kwargs, node):
        if not self.inline_calls and name not in INLINE_METHODS and self.reg.get(f"{self.module.rel}::{st.obj(obj.ref).cls}.{name}") is None:
            return self.havoc_call(st, f"method:{name}", [obj] + list(args), node)
        return super().obj_method(st, obj, name, args, kwargs, node)

    def on_yield(self, st, v, node):
        st.ghost["n_yields"] = st.ghost.get("n_yields", 0) + 1
        h = getattr(self.contract, "on_yield", None) if self.contract is not None else None
        if h is not None:
            h(self, st, v, node)

    def ghost_join(self, key, a, b):
        if key in ("n_yields", "zip_reads") and isinstance(a, int) and isinstance(b, int):
            return max(a, b)
        return None


EXECUTOR = C08Executor
EXECUTOR_KW = {}


# ---------------------------------------------------------------- contracts --
def xml_axiom(f):
    """ASSUMED XML fact: an element named (prefix:)encryption-data occurs in the tree only if that
    name occurs literally in the serialised text (element names cannot be escaped)."""
    m = manifest_text(f)
    return z3.Implies(HAS_ENC_ELEM(m), z3.Contains(m, sv("encryption-data")))


def xls_loop_inv(lc):
    data = lc["data"]
    if not isinstance(data, VSeq) or data.tag is None:
        return z3.BoolVal(False)
    ole, name = data.tag
    off = ops.int_term(lc["offset"])
    # "no FILEPASS among the records at chain positions before `offset`" (so the answer is the one for the rest of the chain)
    return z3.And(off >= 0, FP(ole, name, z3.IntVal(0)) == FP(ole, name, off),
                  ops.int_term(lc["data_len"]) == SLEN(ole, name))


def detector_contracts(reg):
    out = []
    FL = [("file_like", p_ext("BytesIO"))]
    lib = [Raises("Exception", sub=True, label="only what the container library raises")]
    out.append(FnContract(
        target=f"{ENC}::_has_ole_encryption_stream", params=[("ole", p_ext("OleFile"))],
        returns=lambda c: VBool(spec_ole_enc(c.args["ole"].t)), raises=[],
        note="OLE container carries an encryption stream (EncryptionInfo / EncryptedPackage / DataSpaces)"))
    out.append(FnContract(
        target=f"{ENC}::is_ooxml_encrypted", params=FL, modifies=("file_like",),
        returns=lambda c: VBool(spec_ooxml(c.args["file_like"].t)), raises=lib,
        note="OOXML wrapped in OLE: is an OLE file and has an encryption stream"))
    out.append(FnContract(
        target=f"{ENC}::is_ppt_encrypted", params=FL, modifies=("file_like",),
        returns=lambda c: VBool(spec_ppt(c.args["file_like"].t)), raises=lib,
        note="legacy PPT: OLE encryption stream or EncryptedSummary[Information]"))
    out.append(FnContract(
        target=f"{ENC}::is_xls_encrypted", params=FL, modifies=("file_like",),
        returns=lambda c: VBool(spec_xls(c.args["file_like"].t)), raises=lib,
        loops={0: LoopSpec(inv=xls_loop_inv, label="record-chain",
                           decreases=lambda lc: ops.int_term(lc["data_len"]) - ops.int_term(lc["offset"]))},
        note="legacy XLS: FILEPASS (0x002F) somewhere on the BIFF record chain of the Workbook/Book stream"))
    out.append(FnContract(
        target=f"{ZB}::open_zipfile", assumed=True,
        params=[("file_like", p_ext("BytesIO")), ("limits", p_const(None)), ("source", p_const(None))],
        returns=lambda c: VExt("ZipFile", ZIP_OF(c.args["file_like"].t)), raises=lib, modifies=("file_like",),
        note="verified by the C11 pack; here: the container view of the same bytes, or any exception"))
    out.append(FnContract(
        target=f"{ENC}::is_odf_encrypted", params=FL, modifies=("file_like",),
        hyps=lambda c: xml_axiom(c.args["file_like"].t),
        ensures=[("encrypted-manifest-is-detected", lambda c: z3.Implies(spec_odf(c.args["file_like"].t), c.result.t)),
                 ("true-only-if-manifest-has-an-encryption-data-element", lambda c: z3.Implies(c.result.t, spec_odf(c.args["file_like"].t)))],
        raises=lib,
        note="ODF: the manifest tree contains an encryption-data element"))
    return out


# ---- DOC: FIB flag ---------------------------------------------------------
FIB_FLAGS_AT, FIB_F_ENCRYPTED = 0x0A, 0x0100          # [MS-DOC] 2.5.2 FibBase: fEncrypted is bit 8 of the word at offset 10
WORD97, WORD95 = 0xA5EC, 0xA5DC                       # wIdent values accepted as Word binary documents


def doc_view(c):
    ole = c.entry.obj(c.args["self"].ref).data["ole"]
    return ole.t, sv("WordDocument")


def doc_is_word(c):
    """The container has a WordDocument stream of at least the minimal FIB size with a Word signature."""
    ole, nm = doc_view(c)
    return z3.And(EX(ole, nm), SLEN(ole, nm) >= 0x200, z3.Or(u16(ole, nm, 0) == WORD97, u16(ole, nm, 0) == WORD95))


def doc_flag_set(c):
    ole, nm = doc_view(c)
    return ((u16(ole, nm, FIB_FLAGS_AT) / 256) % 2) == 1


def own(c):
    return c.exc is not None and "site" not in c.exc.attrs


def is_enc_err(c):
    return c.ex.uni.subclass_term(c.exc.tidx, ENCERR)


def doc_contracts(reg):
    reader = p_obj("_DocReader", {"file_like": p_ext("BytesIO"), "ole": p_ext("OleFile"), "_content": p_const(None),
                                  "_is_unicode": p_const(None), "_text_start": p_const(None)})

    def only_if(c):
        return z3.Implies(z3.And(z3.BoolVal(own(c)), is_enc_err(c)), z3.And(doc_is_word(c), doc_flag_set(c)))

    def if_(c):
        # once the WordDocument stream has been read, a Word document with fEncrypted set has exactly one outcome
        read_ok = bool(c.st.ghost.get(("stream_read", "WordDocument")))
        return z3.Implies(z3.And(z3.BoolVal(read_ok), doc_is_word(c), doc_flag_set(c)), z3.And(z3.BoolVal(own(c)), is_enc_err(c)))

    t = f"{DOC}::_DocReader._parse_content"
    EXECUTOR_KW[t] = {"abstract": True, "inline_calls": False, "merge_after_check": True}
    return [FnContract(
        target=t, params=[("self", reader)], modifies=("self",),
        ensures=[("content-returned-only-if-fEncrypted-clear", lambda c: z3.Not(z3.And(doc_is_word(c), doc_flag_set(c))))],
        raises=[Raises("Exception", sub=True)],
        exc_ensures=[("encrypted-error-only-if-fEncrypted-set", only_if), ("fEncrypted-set-implies-encrypted-error", if_)],
        note="first parse of a fresh reader (_content is None, set by __init__); FIB word at 0x0A, bit 0x0100")]


def contracts(reg):
    install_container_models(reg)
    out = []
    out += detector_contracts(reg)
    out += doc_contracts(reg)
    return out


TRUSTED = ["olefile / zipfile / pypdf present the container faithfully (assumed views)"]
ASSUMED_MODELS = []
ASSUMPTIONS = []
