"""C08 -- encrypted input is rejected as encrypted, plain input never is.

Each detector is specified by a predicate over an *abstract container view*
supplied by an ASSUMED library contract (olefile: isOleFile / exists(name) /
stream bytes; zipfile: member presence, manifest text, per-member flag bits;
7z: folder coder ids; pypdf: is_encrypted / decrypt("")).  The predicates are
written from the property statement and the file-format facts it names
(FILEPASS = BIFF record 0x002F on the record chain from offset 0; FIB flag
0x0100 at offset 0x0A; ZIP general-purpose flag bit 0; 7z coder id prefix
06 F1 07; ODF manifest `encryption-data` *element*; EPUB encryption.xml
EncryptedData that is not font obfuscation / rights.xml), never from the bodies.

Both directions are obligations: "encrypted => the file-encrypted error, before
any content / any member read" and "file-encrypted error => encrypted".
"""
import ast
import os
import sys

import z3

from pyvc import loader, ops
from pyvc.contracts import FnContract, LoopSpec, Raises
from pyvc.flow import MustFacts, dotted, ground_obligation
from pyvc.symex import Executor
from pyvc.values import (NONE, VBool, VBytes, VExc, VExt, VFunc, VInt, VSeq, VStr, VTuple, VType, VUnk,
                         ext_sort, fresh_name)
from pyvc.verify import Maker, p_const, p_ext, p_obj, p_opt, p_str, p_unk
from contracts import common, readfile

X = "sharepoint2text/parsing/extractors/"
ENC = X + "util/encryption.py"
ZB = X + "util/zip_bomb.py"
DOC = X + "ms_legacy/doc_extractor.py"
ARCH = X + "archive_extractor.py"
SEVEN = X + "util/sevenzip.py"
EPUB = X + "epub_extractor.py"
PDF = X + "pdf/pdf_extractor.py"
ENCERR = "ExtractionFileEncryptedError"

I, B, S = z3.IntSort(), z3.BoolSort(), z3.StringSort()
BytesIO = ext_sort("BytesIO")
OleFile = ext_sort("OleFile")
ZipFile = ext_sort("ZipFile")
ZipInfo = ext_sort("ZipInfo")
Blob = ext_sort("Blob")

# ------------------------------------------------- abstract container views --
ISOLE = z3.Function("olefile_isOleFile", BytesIO, B)          # the bytes are an OLE2 compound file
OLE_OF = z3.Function("ole_container_of", BytesIO, OleFile)    # its directory view
EX = z3.Function("ole_exists", OleFile, S, B)                 # a stream/storage of that name exists
SLEN = z3.Function("ole_stream_len", OleFile, S, I)           # stream content: length ...
SBYTE = z3.Function("ole_stream_byte", OleFile, S, I, I)      # ... and byte at index (0..255)
READABLE = z3.Function("ole_stream_readable", OleFile, S, B)   # openstream(name).read() succeeds (deterministic per container)
ISZIP = z3.Function("zipfile_is_zipfile", BytesIO, B)
ZIP_OF = z3.Function("zip_container_of", BytesIO, ZipFile)
HASM = z3.Function("zip_has_member", ZipFile, S, B)
MBLOB = z3.Function("zip_member_bytes", ZipFile, S, Blob)
TEXT = z3.Function("utf8_text_of", Blob, S)                   # decoded text of a member (UTF-8 assumed)
XmlT = ext_sort("XmlElem")
XMLOK = z3.Function("xml_well_formed", Blob, B)               # ElementTree view of a member: parses, ...
XROOT = z3.Function("xml_root", Blob, XmlT)
NEL = z3.Function("xml_iter_len", XmlT, I)                    # ... root.iter() = all elements in document order
EL = z3.Function("xml_iter_elem", XmlT, I, XmlT)
TAG = z3.Function("xml_tag", XmlT, S)                         # Clark notation {namespace}local
RAWHAS = z3.Function("raw_bytes_contain", Blob, S, B)          # the member's RAW bytes contain the byte string (rendered latin-1)
ASCII_COMPAT = z3.Function("xml_encoding_is_ascii_compatible", Blob, B)   # the document is serialised in UTF-8 / ISO-8859-x / ... (not UTF-16/32)
BLEN = z3.Function("raw_bytes_len", Blob, I)                   # number of raw bytes of the member (a well-formed XML document is not empty)
AFTER_LAST = z3.Function("text_after_last", S, S, S)          # the part of s after the last occurrence of sep (all of s if none)


def LOCAL(tag):
    """Local name of a Clark-notation tag {namespace}local -- however the code cuts it off: tag.rsplit('}', 1)[-1],
    tag.rpartition('}')[2], tag.split('}')[-1] are all `the text after the last "}"`."""
    return AFTER_LAST(tag, sv("}"))


def HAS_ENC_ELEM(blob):
    """The manifest *tree* has an element whose local name is encryption-data."""
    k = z3.Int("k!encel")
    r = XROOT(blob)
    return z3.And(XMLOK(blob), z3.Exists([k], z3.And(k >= 0, k < NEL(r), LOCAL(TAG(EL(r, k))) == sv("encryption-data"))))

NZ = z3.Function("zip_n", ZipFile, I)                         # infolist(): finite entry sequence
INFO = z3.Function("zip_info", ZipFile, I, ZipInfo)
ISDIR = z3.Function("is_dir", ZipInfo, B)
FLAG = z3.Function("zip_flag_bits", ZipInfo, z3.BitVecSort(16))   # general purpose bit flag of the entry
FNAME = z3.Function("zip_filename", ZipInfo, S)
SevenZ = ext_sort("SevenZipFile")
Folder = ext_sort("Folder")
CoderId = ext_sort("CoderId")
RView = ext_sort("SevenZipReaderView")
SZ_OF = z3.Function("sevenzip_of", BytesIO, SevenZ)
HDRAES = z3.Function("sevenzip_encoded_header_has_aes_coder", BytesIO, B)   # header itself is AES-encoded (7z -mhe)
RV_OF = z3.Function("sevenzip_reader_view", SevenZ, RView)
NFOLD = z3.Function("sevenzip_num_folders", RView, I)
FOLDER = z3.Function("sevenzip_folder", RView, I, Folder)
NCOD = z3.Function("folder_num_coders", Folder, I)
CID = z3.Function("folder_coder_id", Folder, I, CoderId)
BSTR = z3.Function("bytes_as_latin1", CoderId, S)             # the id bytes, rendered one char per byte
BSIZE = z3.Function("bytesio_size", BytesIO, I)
AES_PREFIX = "\x06\xf1\x07"                                   # 7z method id 06 F1 07 xx = AES-256 + SHA-256

ZipNames = ext_sort("ZipNames")
NAMES = z3.Function("zip_namelist", ZipFile, ZipNames)          # ZipFile.namelist() (and any set / list built from it)
INNAMES = z3.Function("zip_name_listed", ZipNames, S, B)


def names_has(names_t, name_t):
    """ASSUMED zipfile view: a name is listed by namelist() exactly when the archive has a member of that name."""
    if z3.is_app(names_t) and names_t.decl().eq(NAMES):
        return HASM(names_t.arg(0), name_t)
    return INNAMES(names_t, name_t)


MANIFEST = "META-INF/manifest.xml"
OLE_ENC_STREAMS = ("EncryptionInfo", "EncryptedPackage", "DataSpaces")      # property statement (quantifier text)
PPT_ENC_STREAMS = ("EncryptedSummary", "EncryptedSummaryInformation")       # [MS-PPT] encrypted document streams
FILEPASS = 0x002F                                                          # [MS-XLS] 2.4.117


def sv(x):
    return z3.StringVal(x)


class Term:
    """z3 term kept in ghost state (compared structurally, so that state merging can compare ghosts)."""
    __slots__ = ("t",)

    def __init__(self, t):
        self.t = t

    def __eq__(self, o):
        return isinstance(o, Term) and self.t.eq(o.t)

    def __ne__(self, o):
        return not self.__eq__(o)

    def __hash__(self):
        return self.t.hash()


def spec_ole_enc(ole):
    return z3.Or([EX(ole, sv(n)) for n in OLE_ENC_STREAMS])


def spec_ooxml(f):
    return z3.And(ISOLE(f), spec_ole_enc(OLE_OF(f)))


def spec_ppt(f):
    ole = OLE_OF(f)
    return z3.And(ISOLE(f), z3.Or(spec_ole_enc(ole), z3.Or([EX(ole, sv(n)) for n in PPT_ENC_STREAMS])))


def u16(ole, name, o):
    return SBYTE(ole, name, o) + 256 * SBYTE(ole, name, o + 1)


# Record chain (DESIGN Appendix B): o_0 = 0, o_{k+1} = o_k + 4 + len16(o_k) while o_k + 4 <= |d|.
# FP(o) := "some record on the chain starting at o is FILEPASS" (recursive along the chain).
FP = z3.RecFunction("filepass_on_chain_from", OleFile, S, I, B)
_o, _n, _k = z3.Const("ole!fp", OleFile), z3.String("name!fp"), z3.Int("o!fp")
z3.RecAddDefinition(FP, [_o, _n, _k],
                    z3.If(_k + 4 > SLEN(_o, _n), z3.BoolVal(False),
                          z3.If(u16(_o, _n, _k) == FILEPASS, z3.BoolVal(True),
                                FP(_o, _n, _k + 4 + u16(_o, _n, _k + 2)))))


def workbook_stream(ole):
    return z3.If(EX(ole, sv("Workbook")), sv("Workbook"), sv("Book"))


def spec_xls(f):
    ole = OLE_OF(f)
    return z3.And(ISOLE(f), z3.Or(EX(ole, sv("Workbook")), EX(ole, sv("Book"))), FP(ole, workbook_stream(ole), z3.IntVal(0)))


def spec_zip_enc(zf):
    """Some non-directory member has general-purpose flag bit 0 (encrypted) set."""
    j = z3.Int("j!zenc")
    return z3.Exists([j], z3.And(j >= 0, j < NZ(zf), z3.Not(ISDIR(INFO(zf, j))), z3.Extract(0, 0, FLAG(INFO(zf, j))) == 1))


def is_aes(cid):
    return z3.PrefixOf(sv(AES_PREFIX), BSTR(cid))


def spec_7z_folders_enc(rv):
    i, j = z3.Int("i!7z"), z3.Int("j!7z")
    return z3.Exists([i, j], z3.And(i >= 0, i < NFOLD(rv), j >= 0, j < NCOD(FOLDER(rv, i)), is_aes(CID(FOLDER(rv, i), j))))


def manifest_blob(f):
    return MBLOB(ZIP_OF(f), sv(MANIFEST))


def manifest_text(f):
    return TEXT(manifest_blob(f))


def spec_odf(f):
    return z3.And(ISZIP(f), HASM(ZIP_OF(f), sv(MANIFEST)), HAS_ENC_ELEM(manifest_blob(f)))


# ------------------------------------------------------ assumed library models --
def _fl(v):
    return v if isinstance(v, VExt) and v.sort == "BytesIO" else None


def m_isOleFile(ex, st, args, kwargs, node):
    """olefile.isOleFile(f): ASSUMED pure predicate of the bytes (or raises anything)."""
    f = _fl(args[0]) if args else None
    ex.exc_any(st.fork(), f"{ex.loc(node)} olefile.isOleFile")
    if f is None:
        return [(st, VBool(z3.Bool(fresh_name("isole"))))]
    return [(st, VBool(ISOLE(f.t)))]


def m_OleFileIO(ex, st, args, kwargs, node):
    """olefile.OleFileIO(f): ASSUMED to raise or return the directory view of the same bytes."""
    f = _fl(args[0]) if args else None
    ex.exc_any(st.fork(), f"{ex.loc(node)} olefile.OleFileIO")
    if f is None:
        return [(st, VExt("OleFile"))]
    return [(st, VExt("OleFile", OLE_OF(f.t)))]


def with_passthrough(ex, st, cm, phase):
    if phase == "enter":
        return [(st, cm)]


def m_ole_exists(ex, st, obj, args, kwargs, node):
    a = args[0]
    if not isinstance(a, VStr):
        return [(st, VBool(z3.Bool(fresh_name("exists"))))]
    return [(st, VBool(EX(obj.t, a.t)))]


def m_ole_openstream(ex, st, obj, args, kwargs, node):
    a = args[0]
    bad = st.fork()
    if isinstance(a, VStr):
        bad.assume(z3.Not(READABLE(obj.t, a.t)))
    ex.exc_any(bad, f"{ex.loc(node)} OleFileIO.openstream")
    s = VExt("OleStream")
    st.ghost[("olestream", s.t.get_id())] = (Term(obj.t), Term(a.t if isinstance(a, VStr) else z3.String(fresh_name("stream_name"))))
    return [(st, s)]


def m_olestream_read(ex, st, obj, args, kwargs, node):
    """OleStream.read(): ASSUMED to fail (stream not READABLE) or return the whole stream: a byte string of length SLEN >= 0."""
    key = st.ghost.get(("olestream", obj.t.get_id()))
    lim = args[0] if len(args) == 1 and isinstance(args[0], VInt) else None
    if key is None or (args and lim is None) or st.ghost.get(("olestream_read", obj.t.get_id())):
        ex.exc_any(st.fork(), f"{ex.loc(node)} OleStream.read")
        return [(st, VUnk("bytes"))]
    ole, name = key[0].t, key[1].t
    ex.exc_any(st.fork().assume(z3.Not(READABLE(ole, name))), f"{ex.loc(node)} OleStream.read")
    st.assume(z3.And(SLEN(ole, name) >= 0, READABLE(ole, name)))
    st.ghost[("olestream_read", obj.t.get_id())] = True         # (a second read on the same handle continues: not modelled)
    n = SLEN(ole, name)
    if lim is not None:                                          # read(k): the first min(k, len) bytes (k < 0: everything)
        k_ = ops.int_term(lim)
        n = z3.simplify(z3.If(z3.Or(k_ < 0, k_ > n), n, k_))
    return [(st, VSeq(n, lambda i: VInt(SBYTE(ole, name, i)), "byte", True, tag=(ole, name)))]


def m_is_zipfile(ex, st, args, kwargs, node):
    f = _fl(args[0]) if args else None
    ex.exc_any(st.fork(), f"{ex.loc(node)} zipfile.is_zipfile")
    if f is None:
        return [(st, VBool(z3.Bool(fresh_name("iszip"))))]
    return [(st, VBool(ISZIP(f.t)))]


def m_zip_read(ex, st, obj, args, kwargs, node):
    """ZipFile.read(name): ASSUMED -- KeyError iff there is no such member; may raise anything else; else the bytes."""
    h = getattr(ex.contract, "on_zip_read", None)
    if h is not None:
        h(ex, st, obj, node)
    st.ghost["zip_reads"] = st.ghost.get("zip_reads", 0) + 1
    t, cnd = ex.uni.any_exception()
    # zipfile raises RuntimeError itself only for an encrypted member ("password required" / "Bad password"); its subclass
    # NotImplementedError for unsupported methods / features
    bad = st.fork().assume(z3.And(cnd, z3.Not(ex.uni.subclass_term(t, "KeyError")),
                                  z3.Implies(z3.And(ex.uni.subclass_term(t, "RuntimeError"), z3.Not(ex.uni.subclass_term(t, "NotImplementedError"))),
                                             spec_zip_enc(obj.t))))     # (RecursionError: PY-MEM, not modelled)
    ex.raise_in(bad, VExc(t, {"site": f"{ex.loc(node)} ZipFile.read"}))
    ex.exc_any_sites.append(f"{ex.loc(node)} ZipFile.read")
    a = args[0]
    if not isinstance(a, VStr):
        return [(st, VUnk("bytes"))]
    st2 = ex.fork_raise(st, z3.Not(HASM(obj.t, a.t)), "KeyError")
    if st2 is None:
        return []
    return [(st2, VExt("Blob", MBLOB(obj.t, a.t)))]


def m_blob_decode(ex, st, obj, args, kwargs, node):
    """bytes.decode('utf-8', errors='ignore'): ASSUMED to be the member's text (UTF-8 producers)."""
    enc = args[0].const() if args and isinstance(args[0], VStr) else None
    if enc not in ("utf-8", "utf8"):
        return [(st, VStr(z3.String(fresh_name("decoded"))))]
    return [(st, VStr(TEXT(obj.t)))]


def m_et_fromstring(ex, st, args, kwargs, node):
    """(defusedxml) ElementTree.fromstring(bytes): ASSUMED -- ParseError iff not well formed; may raise other errors
    (forbidden DTD / entities); else the root of the tree."""
    a = args[0] if args else None
    t, cnd = ex.uni.any_exception()
    pe = [ex.uni.index[n] for n in ("ParseError", "ET.ParseError") if ex.uni.known(n)]      # two names of the one class
    is_pe = z3.Or([ex.uni.subclass_term(t, ex.uni.names[i]) for i in pe])
    other = st.fork().assume(z3.And(cnd, z3.Not(is_pe)))
    ex.raise_in(other, VExc(t, {"site": f"{ex.loc(node)} ElementTree.fromstring"}))
    tp = z3.Int(fresh_name("exc"))
    bad = st.fork().assume(z3.Or([tp == i for i in pe]))
    if not (isinstance(a, VExt) and a.sort == "Blob"):
        ex.raise_in(bad, VExc(tp, {"site": "ElementTree.fromstring"}))
        return [(st, VExt("XmlElem"))]
    ex.raise_in(bad.assume(z3.Not(XMLOK(a.t))), VExc(tp, {"site": "ElementTree.fromstring (not well formed)"}))
    return [(st.assume(XMLOK(a.t)), VExt("XmlElem", XROOT(a.t)))]


def m_xml_iter(ex, st, obj, args, kwargs, node):
    if args:
        return ex.havoc_call(st, "Element.iter(tag)", args, node)
    st.assume(NEL(obj.t) >= 0)
    return [(st, VSeq(NEL(obj.t), lambda k: VExt("XmlElem", EL(obj.t, k)), "XmlElem"))]


ENC_ELEM_NAME = "encryption-data"


def raw_has(ex, st, blob_t, needle):
    """`needle in blob` / blob.find(needle) on the RAW bytes of a ZIP member (ASSUMED view): an uninterpreted predicate of
    (member, needle).  What links it to the XML tree is encoding-dependent: an element name occurs literally in the raw bytes
    only when the document is serialised in an ASCII-compatible encoding (XML 1.0 4.3.3: UTF-16 documents are ordinary XML
    and the parser reads them) -- so a byte-level test is no necessary condition for `the tree has the element`."""
    if not isinstance(needle, (bytes, bytearray)):
        ex._imprecise("raw byte search with a needle that is not a constant")
        return z3.Bool(fresh_name("rawhas"))
    txt = bytes(needle).decode("latin-1")
    t = RAWHAS(blob_t, sv(txt))
    if not txt:
        st.assume(t)
    elif txt in ENC_ELEM_NAME:
        st.assume(z3.Implies(z3.And(HAS_ENC_ELEM(blob_t), ASCII_COMPAT(blob_t)), t))
    if not (len(txt) >= 2 and all(0x21 <= c <= 0x7E for c in needle)):
        # (one byte / NUL-padded / non-ASCII needles: whether a counter-model is a real document is not decided here)
        ex._imprecise("raw byte search in an XML member with a needle that is not plain ASCII text")
    return t


def _needle(ex, v):
    if isinstance(v, VBytes):
        c = ex.py_const(v)
        return c if isinstance(c, (bytes, bytearray)) else None
    return None


def m_blob_find(ex, st, obj, args, kwargs, node):
    """bytes.find(needle) / .index / .count on a member's raw bytes: >= 0 (> 0 for count) iff the bytes contain the needle."""
    name = getattr(getattr(node, "func", None), "attr", "find")
    if len(args) != 1 or kwargs:
        return ex.havoc_call(st, f"bytes.{name}", args, node)
    t = raw_has(ex, st, obj.t, _needle(ex, args[0]))
    r = z3.Int(fresh_name(name))
    if name == "index":
        st = ex.fork_raise(st, z3.Not(t), "ValueError")
        if st is None:
            return []
    if name == "count":
        st.assume(z3.And(r >= 0, (r > 0) == t))
    else:
        st.assume(z3.And(r >= -1, (r >= 0) == t))
    return [(st, VInt(r))]


def _const_sep(args, i=1):
    return args[i].const() if len(args) > i and isinstance(args[i], VStr) and args[i].const() else None


class VModDict(VUnk):
    """The namespace dict of a module (vars(m) / m.__dict__): stores are bindings of that module."""
    __slots__ = ("mod",)

    def __init__(self, mod):
        super().__init__("module-dict")
        self.mod = mod


class VClassOf(VUnk):
    """type(x) of an instance: some class object; only its __name__ / __qualname__ (some str) is ever asked."""
    def __init__(self):
        super().__init__("type(x)")


class VSuperOf(VUnk):
    """`super()` inside a method of class `cls` (zero-argument form)."""
    def __init__(self, cls):
        super().__init__("super()")
        self.cls = cls


class VPieces(VUnk):
    """Result of s.split(sep) / s.rsplit(sep, 1): a list of unknown length >= 1 of which only the LAST piece is known."""
    __slots__ = ("last",)

    def __init__(self, last):
        super().__init__("pieces")
        self.last = last


def m_str_rsplit(ex, st, args, kwargs, node):
    """s.rsplit(sep, 1): [head, tail] or [s]; in both cases the LAST piece is the text after the last sep."""
    s_, sep = args[0], _const_sep(args)
    mx = args[2] if len(args) > 2 else kwargs.get("maxsplit")
    if sep is not None and isinstance(mx, VInt) and mx.const() == 1:
        return [(st, VPieces(VStr(AFTER_LAST(s_.t, sv(sep)))))]
    return [(st, VUnk("str.rsplit"))]


def m_str_split(ex, st, args, kwargs, node):
    """s.split(sep): >= 1 pieces, the last one is the text after the last sep."""
    s_, sep = args[0], _const_sep(args)
    if sep is not None and len(args) == 2 and not kwargs:
        return [(st, VPieces(VStr(AFTER_LAST(s_.t, sv(sep)))))]
    return [(st, VUnk("str.split"))]


def m_str_rpartition(ex, st, args, kwargs, node):
    """s.rpartition(sep) = (head, sep or '', tail): tail is the text after the last sep (s itself if sep does not occur)."""
    s_, sep = args[0], _const_sep(args)
    if sep is not None:
        return [(st, VTuple([VStr(z3.String(fresh_name("head"))), VStr(z3.String(fresh_name("sep"))), VStr(AFTER_LAST(s_.t, sv(sep)))]))]
    return [(st, VUnk("str.rpartition"))]


def m_seq_endswith(ex, st, obj, args, kwargs, node, start=False):
    sa, sb = ex._as_byteseq(st, obj), (ex._as_byteseq(st, args[0]) if args else None)
    if sa is None or sb is None or len(args) != 1:
        return ex.havoc_call(st, "bytes.endswith", args, node)
    (n, e), (m, f) = sa, sb
    j = z3.Int(fresh_name("j"))
    off = z3.IntVal(0) if start else n - m
    return [(st, VBool(z3.And(m <= n, z3.ForAll([j], z3.Implies(z3.And(j >= 0, j < m), e(off + j) == f(j))))))]


def install_container_models(reg):
    common.install_bytesio(reg)
    reg.method_models[("seq", "endswith")] = m_seq_endswith
    reg.method_models[("seq", "startswith")] = lambda ex, st, o, a, k, n: m_seq_endswith(ex, st, o, a, k, n, start=True)
    reg.method_models[("XmlElem", "iter")] = m_xml_iter
    reg.attr_models[("XmlElem", "tag")] = lambda ex, st, o: VStr(TAG(o.t))
    reg.ext_models["str.rsplit"] = m_str_rsplit
    reg.ext_models["str.split"] = m_str_split
    reg.ext_models["str.rpartition"] = m_str_rpartition
    reg.ext_models["olefile.isOleFile"] = m_isOleFile
    reg.ext_models["olefile.OleFileIO"] = m_OleFileIO
    reg.ext_models[("with", "OleFile")] = with_passthrough
    reg.ext_models[("with", "ZipFile")] = with_passthrough
    reg.method_models[("OleFile", "exists")] = m_ole_exists
    reg.method_models[("OleFile", "openstream")] = m_ole_openstream
    reg.method_models[("OleStream", "read")] = m_olestream_read
    reg.ext_models["zipfile.is_zipfile"] = m_is_zipfile
    for nm in ("defusedxml.ElementTree.fromstring", "xml.etree.ElementTree.fromstring"):      # (dotted form: a helper inlined from another module)
        reg.ext_models[nm] = m_et_fromstring
    reg.method_models[("ZipFile", "read")] = m_zip_read
    reg.method_models[("Blob", "decode")] = m_blob_decode
    for nm in ("find", "rfind", "index", "count"):
        reg.method_models[("Blob", nm)] = m_blob_find
    reg.ext_models["struct.Struct"] = m_struct_new
    reg.method_models[("Struct", "unpack_from")] = m_struct_unpack_from
    reg.ext_models["struct.unpack_from"] = m_struct_unpack_from_fn
    reg.ext_models["struct.unpack"] = m_struct_unpack_fn


STRUCT_FMT = {}     # z3 id of a Struct constant -> format string (filled when the module-level `struct.Struct("<H")` is evaluated)
_SIZES = {"B": 1, "H": 2, "I": 4, "Q": 8}


def m_struct_new(ex, st, args, kwargs, node):
    fmt = args[0].const() if args and isinstance(args[0], VStr) else None
    s_ = VExt("Struct")
    STRUCT_FMT[s_.t.get_id()] = fmt
    return [(st, s_)]


def _unpack_le(ex, st, fmt, buf, off, node, exact=False):
    """ASSUMED semantics of the struct module for little-endian unsigned fields ('<' + B/H/I/Q...): struct.error unless
    off + size <= len(buf) (exact: == len(buf)); field value = sum(buf[pos+k] * 256**k)."""
    if not (isinstance(fmt, str) and len(fmt) >= 2 and fmt[0] == "<" and all(ch in _SIZES for ch in fmt[1:])
            and isinstance(buf, VSeq) and buf.is_bytes and isinstance(off, VInt)):
        return ex.havoc_call(st, f"struct unpack {fmt!r}", [], node)
    total = sum(_SIZES[ch] for ch in fmt[1:])
    o = ops.int_term(off)
    bad = z3.Or(o < 0, o + total != buf.length) if exact else z3.Or(o < 0, o + total > buf.length)
    st2 = ex.fork_raise(st, bad, "struct.error")
    if st2 is None:
        return []
    vals, pos = [], 0
    for ch in fmt[1:]:
        bs = [ops.int_term(buf.elem(o + pos + k)) for k in range(_SIZES[ch])]
        st2.assume(z3.And([z3.And(b >= 0, b <= 255) for b in bs]))
        vals.append(VInt(z3.Sum([b * (256 ** k) for k, b in enumerate(bs)]) if len(bs) > 1 else bs[0]))
        pos += _SIZES[ch]
    return [(st2, VTuple(vals))]


def m_struct_unpack_from(ex, st, obj, args, kwargs, node):
    fmt = STRUCT_FMT.get(obj.t.get_id())
    buf = args[0] if args else None
    off = args[1] if len(args) > 1 else kwargs.get("offset", VInt(0))
    return _unpack_le(ex, st, fmt, buf, off, node)


def m_struct_unpack_from_fn(ex, st, args, kwargs, node):
    fmt = args[0].const() if args and isinstance(args[0], VStr) else None
    buf = args[1] if len(args) > 1 else kwargs.get("buffer")
    off = args[2] if len(args) > 2 else kwargs.get("offset", VInt(0))
    return _unpack_le(ex, st, fmt, buf, off, node)


def m_struct_unpack_fn(ex, st, args, kwargs, node):
    fmt = args[0].const() if args and isinstance(args[0], VStr) else None
    buf = args[1] if len(args) > 1 else None
    return _unpack_le(ex, st, fmt, buf, VInt(0), node, exact=True)


INLINE_METHODS = {"_get_stream"}


# ----------------------------------------------------------------- executor --
LOOP_RULES = {}      # (element kind, origin tag) -> LoopSpec; filled next to the specs they belong to


class VGen(VUnk):
    """Lazy generator expression over symbolic sequences (consumed by any()/all())."""
    __slots__ = ("vars", "cond", "elt")

    def __init__(self, vars_, cond, elt):
        super().__init__("generator")
        self.vars, self.cond, self.elt = vars_, cond, elt


def raises_encrypted(stmt):
    """`if <cond>: raise ExtractionFileEncryptedError(...)` (the rejection site)."""
    return isinstance(stmt, ast.If) and any(isinstance(n, ast.Raise) and n.exc is not None and ENCERR in ast.unparse(n.exc)
                                            for b in stmt.body for n in ast.walk(b))


class C08Executor(readfile.ReadFileExecutor):
    """int.from_bytes(slice, 'little') over a symbolic byte sequence; ghost bookkeeping for yields.
    `merge_after_check`: precise paths up to and including the rejection site, merged (over-approximated,
    sound) states for the remaining statements of that block -- a performance knob only."""

    def __init__(self, *a, merge_after_check=False, **kw):
        super().__init__(*a, **kw)
        self.merge_after_check = merge_after_check

    def _rejection_site(self, stmt):
        """The statement that rejects encrypted input: the `if ...: raise <encrypted error>` itself, or a statement calling a
        same-module helper that contains one (only used to decide where state merging may start: precision/cost, not soundness)."""
        if raises_encrypted(stmt):
            return True
        if isinstance(stmt, (ast.Expr, ast.Assign, ast.AnnAssign, ast.If)):
            probe = stmt.test if isinstance(stmt, ast.If) else stmt
            for n in ast.walk(probe):
                if isinstance(n, ast.Call) and isinstance(n.func, (ast.Name, ast.Attribute)):
                    nm = n.func.id if isinstance(n.func, ast.Name) else n.func.attr
                    h = self.module.functions.get(nm) or next((f_ for q_, f_ in self.module.functions.items() if q_.endswith("." + nm) and "<locals>" not in q_), None)
                    if h is not None and any(isinstance(r, ast.Raise) and r.exc is not None and ENCERR in ast.unparse(r.exc) for r in ast.walk(h)):
                        return True
        return False

    def exec_block(self, stmts, st):
        if self.merge_after_check and not self.merge and self.inline_depth == 0:
            for idx, s_ in enumerate(stmts):
                if self._rejection_site(s_) and idx + 1 < len(stmts):
                    outs = super().exec_block(stmts[:idx + 1], st)
                    falls = [o.st for o in outs if o.kind == "fall"]
                    res = [o for o in outs if o.kind != "fall"]
                    self.merge = True
                    try:
                        for f_ in falls:
                            res.extend(super().exec_block(stmts[idx + 1:], f_))
                    finally:
                        self.merge = False
                    return res
        return super().exec_block(stmts, st)

    def _call(self, st, f, args, kwargs, node):
        if os.environ.get("C08_DBG_CALL"):
            print("CALL", type(f).__name__, getattr(f, "how", None), repr(getattr(f, "a", None))[:60], getattr(f, "b", None), file=sys.stderr)
        if isinstance(f, VFunc) and f.how == "classattr" and f.a == "int" and f.b == "from_bytes":
            return self.int_from_bytes(st, args, kwargs, node)
        if isinstance(f, VFunc) and f.how == "builtin" and f.a == "super" and not args and not kwargs and self.cur_fn_stack:
            q = next((q_ for q_, n_ in self.module.functions.items() if n_ is self.cur_fn_stack[-1]), "")
            if "." in q:
                return [(st, VSuperOf(q.rsplit(".", 1)[0]))]
        if isinstance(f, VType) and f.name == "type" and len(args) == 1 and not kwargs:
            return [(st, VClassOf())]        # type(x): pure and total -- the (dynamic, possibly sub-)class of x; x is left as it is
        if isinstance(f, VFunc) and f.how == "classattr" and str(f.a).endswith("ElementTree") and f.b == "fromstring":
            return m_et_fromstring(self, st, args, kwargs, node)
        return super().call(st, f, args, kwargs, node)

    def int_from_bytes(self, st, args, kwargs, node):
        seq = args[0] if args else None
        order = args[1] if len(args) > 1 else kwargs.get("byteorder")
        oc = order.const() if isinstance(order, VStr) else None
        if not (isinstance(seq, VSeq) and seq.is_bytes and oc in ("little", "big")) or kwargs.get("signed") is not None:
            return self.havoc_call(st, "int.from_bytes", args, node)
        n = seq.length
        K = 8                                                            # exact up to 8 bytes, an unknown non-negative int beyond
        es = [ops.int_term(seq.elem(z3.IntVal(k_))) for k_ in range(K)]
        other = z3.Int(fresh_name("from_bytes"))
        st.assume(other >= 0)
        acc = other
        for m_ in range(K, -1, -1):
            if m_ > 0:
                st.assume(z3.Implies(n >= m_, z3.And(es[m_ - 1] >= 0, es[m_ - 1] <= 255)))      # elements of a bytes object
            val = z3.Sum([es[k_] * (256 ** (k_ if oc == "little" else m_ - 1 - k_)) for k_ in range(m_)]) if m_ > 1 else (es[0] if m_ == 1 else z3.IntVal(0))
            acc = z3.If(n == m_, val, acc)
        return [(st, VInt(acc))]

    def obj_method(self, st, obj, name, args, kwargs, node):
        q = f"{st.obj(obj.ref).cls}.{name}"
        if not self.inline_calls and name not in INLINE_METHODS and self.reg.get(f"{self.module.rel}::{q}") is None:
            fnode = self.module.functions.get(q)
            small = fnode is not None and sum(1 for _ in ast.walk(fnode)) <= 700 and not any(fnode is x for x in self.cur_fn_stack)
            if not (self.inline_local and not self.merge and small and self.inline_depth < 3 and self._relevant_helper(q)):
                return self.havoc_call(st, f"method:{name}", [obj] + list(args), node)
        return super().obj_method(st, obj, name, args, kwargs, node)

    def havoc_call(self, st, what, args, node):
        self._imprecise(f"un-modelled call {str(what)[:40]}")
        return super().havoc_call(st, what, args, node)

    def resolve_dotted(self, dotted_):
        # `from package import module [as m]` / `import package.module as m`: a module of the library, not an unknown
        if dotted_.startswith("sharepoint2text.") and os.path.exists(os.path.join(self.module.repo, dotted_.replace(".", "/") + ".py")) \
                and ("const", dotted_) not in self.reg.ext_models:
            from pyvc.values import VMod
            return VMod(dotted_)
        return super().resolve_dotted(dotted_)

    RELEVANT = ("ExtractionFileEncryptedError", "Encrypted7zFile", "_encrypted", "needs_password", "decrypt", "patch_pypdf_fallback_aes",
                "flag_bits", "is_encrypted", "CODER_AES_PREFIX", "FIB_ENCRYPTED_FLAG", ".ole", "_get_stream", "openstream")
    TRACKED_SORTS = ("DocReader", "PdfReader", "SevenZipFile", "EpubContext", "OleFile", "ZipFile", "OleStream", "Folder", "CoderId")

    def _relevant_helper(self, name, depth=0):
        """Does this same-module helper (or one it calls, two levels) take part in encryption detection?  Only such helpers are
        executed in place under inline_local; all others stay EXC-ANY calls (sound either way: this is a cost/precision choice)."""
        cache = self.module.__dict__.setdefault("_c08_relevant", {})
        if name in cache:
            return cache[name]
        fnode = self.module.functions.get(name)
        if fnode is None:
            return False
        cache[name] = False
        src = ast.unparse(fnode)
        ok = any(tok in src for tok in self.RELEVANT)
        if not ok and depth < 2:
            called = {n.func.id for n in ast.walk(fnode) if isinstance(n, ast.Call) and isinstance(n.func, ast.Name)}
            ok = any(c in self.module.functions and c != name and self._relevant_helper(c, depth + 1) for c in called)
        cache[name] = ok
        return ok

    def call(self, st, f, args, kwargs, node):
        self._cur_call_args = list(args) + list(kwargs.values())
        return self._call(st, f, args, kwargs, node)

    def local_helper(self, f):
        # relevant by what it does (tokens), or by what it is given: a helper that receives the opened container / reader /
        # context takes part in the detection protocol (`_read_document(reader, path)`)
        handed = not self.merge and any(isinstance(a, VExt) and a.sort in self.TRACKED_SORTS for a in getattr(self, "_cur_call_args", ()))
        # (once the rejection site is passed -- merged mode -- helpers that merely use the open container are not followed)
        r = not self.merge and super().local_helper(f) and (self._relevant_helper(f.b) or handed)
        if r and os.environ.get("C08_TRACE_INLINE"):
            print(f"[inline_local] {self.contract.target.split('::')[-1] if self.contract else '?'} <- {f.b}", file=sys.stderr, flush=True)
        return r

    def symbolic_for(self, s, st, it):
        self._loop_subject = ("for", it, st)
        if isinstance(it, VSeq) and self.contract is not None and self._loop_spec(s) is None:
            spec = self.infer_search_invariant(s, st, it)
            if spec is not None:
                self.__dict__.setdefault("_inferred_specs", {})[id(s)] = (s, spec)
            self._loop_subject = ("for", it, st)
        return super().symbolic_for(s, st, it)

    def infer_search_invariant(self, node, st, it):
        """A `for` over a symbolic sequence whose body only LOOKS at the element and leaves (return / break / raise) when it
        finds something -- the loop form of any() / all() / next().  Every iteration that falls through established FALL(k)
        (the path condition of falling through, a function of the position only) and changed nothing, so
        `forall j < i. FALL(j)` is an invariant by construction; the engine still checks inv-init / inv-preserve.
        Found by running the body once on a scratch copy at a symbolic position; None when the body does more than look."""
        from pyvc.ops import Unsupported
        from pyvc import values as _values
        if node.orelse:
            return None
        saved = (self.obls, self.paths, list(self.exc_any_sites), getattr(self, "_loop_subject", None),
                 list(getattr(self.contract, "_imprecise", [])), list(self.abstracted))
        self.obls = {}
        self.sinks.append([])
        try:
            k = z3.Int(fresh_name("k"))
            tick = next(_values._fresh)
            s2 = st.fork()
            s2.assume(z3.And(k >= 0, k < it.length))
            base = len(s2.pc)
            ref = s2.fork()
            outs = []
            for s3 in self.assign(node.target, it.elem(k), s2):
                outs.extend(self.exec_block(node.body, s3))
            after = next(_values._fresh)
        except (Unsupported, Exception):  # noqa  (any trouble: no inference, the loop is cut without invariant as before)
            return None
        finally:
            self.sinks.pop()
            self.obls, self.paths = saved[0], saved[1]
            self.exc_any_sites[:] = saved[2]
            self._loop_subject = saved[3]
            self.contract.__dict__["_imprecise"] = saved[4]
            self.abstracted[:] = saved[5]
        falls = [o.st for o in outs if o.kind in ("fall", "continue")]
        if not falls:
            return None
        targets = {n.id for n in ast.walk(node.target) if isinstance(n, ast.Name)}
        assigned = self.assigned_names(node.body)
        # temporaries only: every other name the body assigns is written before it is read, in source order
        first = {}
        for n in (x for b in node.body for x in ast.walk(b)):
            if isinstance(n, ast.Name) and n.id in assigned and n.id not in first:
                first[n.id] = isinstance(n.ctx, ast.Store)
        if not all(first.get(a, True) for a in assigned - targets):
            return None
        for f in falls:
            if len(f.frames) != len(ref.frames) or len(f.yielded) != len(ref.yielded):
                return None
            for fa, fb in zip(f.frames, ref.frames):
                for name, v in fa.env.items():
                    if name not in assigned and name not in targets and fb.env.get(name) is not v:
                        return None
            if any(f.heap.get(r) is not o for r, o in ref.heap.items()) or set(f.heap) - set(ref.heap):
                return None
            try:
                if f.ghost != ref.ghost:
                    return None
            except Exception:  # noqa
                return None
        fall_k = z3.Or([z3.And([z3.BoolVal(True)] + list(f.pc[base:])) for f in falls])
        seen, stack = set(), [fall_k]
        while stack:
            x = stack.pop()
            if x.get_id() in seen:
                continue
            seen.add(x.get_id())
            if z3.is_const(x) and x.decl().kind() == z3.Z3_OP_UNINTERPRETED and "!" in x.decl().name() and not x.eq(k):
                try:
                    idx = int(x.decl().name().rsplit("!", 1)[1])
                except ValueError:
                    idx = -1
                if tick < idx < after:
                    return None          # the fall-through condition mentions a value created during the iteration
            stack.extend(x.children())

        def inv(lc, fall_k=fall_k, k=k):
            j = z3.Int("j!search")
            return z3.ForAll([j], z3.Implies(z3.And(j >= 0, j < lc.i), z3.substitute(fall_k, (k, j))))
        return LoopSpec(inv=inv, label=f"search-{it.ekind}")

    def s_While(self, s, st):
        self._loop_subject = ("while", None, st)
        return super().s_While(s, st)

    def _imprecise(self, why):
        if self.contract is not None:
            self.contract.__dict__.setdefault("_imprecise", []).append(why)

    def loop_spec(self, node):
        r = self._loop_spec(node)
        if isinstance(node, (ast.For, ast.While)):
            self._imprecise(f"loop at line {node.lineno} cut " + ("by an invariant (a failing VC may only mean the invariant is too weak for this shape)"
                                                                   if r is not None else "without an invariant"))
        return r

    def _loop_spec(self, node):
        """Invariants follow the data, not the position of the loop: a `for` gets the rule of the sequence it iterates
        (LOOP_RULES, by element kind and origin tag), a `while` walking the one symbolic byte string of its frame gets the
        record-chain rule -- in the function under contract or in a helper executed in place."""
        if self.contract is None:
            return None
        kind, it, st = getattr(self, "_loop_subject", (None, None, None))
        inferred = getattr(self, "_inferred_specs", {}).get(id(node))
        if inferred is not None and inferred[0] is node:
            return inferred[1]
        if isinstance(node, ast.For) and kind == "for" and isinstance(it, VSeq) and isinstance(it.tag, tuple) and it.tag:
            return LOOP_RULES.get((it.ekind, it.tag[0]))
        if isinstance(node, ast.While) and kind == "while" and st is not None and self.module.rel == ENC:
            env = st.frames[-1].env
            if len([v for v in env.values() if isinstance(v, VSeq) and v.is_bytes and isinstance(v.tag, tuple)]) == 1:
                return LOOP_RULES.get(("while", "record-chain"))
        return super().loop_spec(node)

    @staticmethod
    def _exit_assigned_only(body):
        """Names whose every assignment in the loop body sits in a block that ends in break / return / raise (not inside a
        nested loop): an iteration that assigned them has left the loop, so at every loop head and at normal exhaustion they
        still have their entry value (`found = True; break`)."""
        exits, others = set(), set()

        def stores(node):
            return {n.id for n in ast.walk(node) if isinstance(n, ast.Name) and isinstance(n.ctx, ast.Store)}

        def walk(block, leaving):
            leaves = leaving or (bool(block) and isinstance(block[-1], (ast.Break, ast.Return, ast.Raise)))
            for stt in block:
                if isinstance(stt, (ast.For, ast.While, ast.FunctionDef, ast.Try, ast.With)):
                    others.update(stores(stt))
                elif isinstance(stt, ast.If):
                    others.update(stores(stt.test))
                    walk(stt.body, False)
                    walk(stt.orelse, False)
                else:
                    (exits if leaves else others).update(stores(stt))
        walk(list(body), False)
        return exits - others

    def havoc_loop_state(self, st, body, spec, extra_names=()):
        keep = {k: st.lookup(k) for k in self._exit_assigned_only(body)}
        r = self._havoc_loop_state(st, body, spec, extra_names)
        for k, v in keep.items():
            if v is not None:
                st.bind(k, v)
        return r

    def _havoc_loop_state(self, st, body, spec, extra_names=()):
        # lists the body grows/shrinks (append/extend/insert/pop/remove/clear) do not keep their length
        for n in body:
            for sub in ast.walk(n):
                if isinstance(sub, ast.Call) and isinstance(sub.func, ast.Attribute) and isinstance(sub.func.value, ast.Name) \
                        and sub.func.attr in ("append", "extend", "insert", "pop", "remove", "clear"):
                    v = st.lookup(sub.func.value.id)
                    if hasattr(v, "ref"):
                        st.ghost[("growing", v.ref)] = True
        return super().havoc_loop_state(st, body, spec, extra_names)

    _LIST_GROW = ("append", "extend", "insert")

    def _grown_list(self, st, v):
        return hasattr(v, "ref") and st.obj(v.ref).kind == "unk" and st.ghost.get(("growing", v.ref))

    def b_len(self, st, args, kwargs, node):
        if len(args) == 1 and isinstance(args[0], VExt) and args[0].sort == "Blob":
            t = BLEN(args[0].t)
            st.assume(z3.And(t >= 0, z3.Implies(XMLOK(args[0].t), t > 0)))
            return [(st, VInt(t))]
        return super().b_len(st, args, kwargs, node)

    def b_int(self, st, args, kwargs, node):
        if len(args) == 1 and isinstance(args[0], VExt) and args[0].sort == "PdfObj":
            self.exc_any(st.fork(), f"{self.loc(node)} int(PdfObject)")
            return [(st, VInt(PINT(args[0].t)))]
        return super().b_int(st, args, kwargs, node)

    def to_str(self, st, v, formatted=False):
        if isinstance(v, VExt) and v.sort == "PdfObj" and not formatted:
            return VStr(PNAME(v.t))
        return super().to_str(st, v, formatted)

    def get_index(self, st, base, idx, node):
        if isinstance(base, VExt) and base.sort == "PdfObj":
            return m_pdfobj_index(self, st, base, idx, node)
        if isinstance(base, VPieces) and isinstance(idx, VInt) and idx.const() == -1:
            return [(st, base.last)]          # a split result is never empty: [-1] exists and is the text after the last separator
        return super().get_index(st, base, idx, node)

    def get_attr(self, st, base, attr, node):
        from pyvc.values import VMod
        if self._contracted_method(st, base, attr) is not None:
            return [(st, VFunc("bound", base, attr))]      # an instance whose fields were havocked is still an instance of its class
        if attr in ("__name__", "__qualname__") and isinstance(base, VFunc):
            if base.how == "repo":
                return [(st, VStr(base.b if attr == "__qualname__" else base.b.split(".")[-1]))]
            if base.how == "closure" and hasattr(base.a, "name"):
                return [(st, VStr(base.a.name))]
        if isinstance(base, VSuperOf) and attr == "__init__" and self._builtin_exception_init(base.cls):
            return [(st, VFunc("bound", base, attr))]
        if isinstance(base, VClassOf) and attr in ("__name__", "__qualname__"):
            return [(st, VStr(z3.String(fresh_name("class_name"))))]
        if isinstance(base, VMod) and attr == "__dict__":
            return [(st, VModDict(base.name))]
        if isinstance(base, VModDict) and attr == "update":
            return [(st, VFunc("bound", base, attr))]
        if isinstance(base, VMod) and ("bind", base.name, attr) in st.ghost:
            return [(st, st.ghost[("bind", base.name, attr)])]       # a name this activation has (re)bound in that module
        if attr in self._LIST_GROW and self._grown_list(st, base):
            return [(st, VFunc("bound", base, attr))]        # a list of unknown content: append & co. are total
        if attr == "close" and (isinstance(base, VUnk) or isinstance(base, VExt) and self.reg.method_models.get((base.sort, "close")) is None
                                and self.reg.attr_models.get((base.sort, "close")) is None):
            return [(st, VFunc("bound", base, attr))]        # see call_method: close() assumed total
        cc = self._class_constant(st, base, attr)
        if cc is not None:
            return self.ev(cc, st)
        return super().get_attr(st, base, attr, node)

    def _class_constant(self, st, base, attr):
        """`obj.NAME` on an instance of a class of this module where NAME is no instance field but a constant of the class body
        (`NAME = <literal>` exactly once, directly in the body of the class or of a single-inheritance base in the module): the
        literal, as for a module-level constant.  None (engine default: an unknown bound attribute) when NAME is a method, is
        bound more than once, is stored through any attribute target / named in a string anywhere in the module (setattr), or
        is not a plain literal."""
        if not (hasattr(base, "ref") and base.ref in st.heap):
            return None
        o = st.obj(base.ref)
        if o.kind != "obj" or attr in o.data or not o.cls or attr.startswith("__"):
            return None
        cls = o.cls
        for _hop in range(8):
            cnode = self.module.classes.get(cls)
            if cnode is None or f"{cls}.{attr}" in self.module.functions:
                return None
            binds = [n for n in ast.walk(cnode) if isinstance(n, ast.Name) and n.id == attr and isinstance(n.ctx, (ast.Store, ast.Del))]
            if binds:
                direct = [s for s in cnode.body if isinstance(s, (ast.Assign, ast.AnnAssign)) and s.value is not None
                          and [t for t in (s.targets if isinstance(s, ast.Assign) else [s.target]) if isinstance(t, ast.Name) and t.id == attr]]
                if len(binds) != 1 or len(direct) != 1 or (isinstance(direct[0], ast.Assign) and len(direct[0].targets) != 1):
                    return None
                val = direct[0].value
                lit = val.operand if isinstance(val, ast.UnaryOp) and isinstance(val.op, ast.USub) else val
                if not (isinstance(lit, ast.Constant) and isinstance(lit.value, (int, str, bytes, bool))):
                    return None
                for n in ast.walk(self.module.tree):
                    if isinstance(n, ast.Attribute) and n.attr == attr and isinstance(n.ctx, (ast.Store, ast.Del)):
                        return None
                    if isinstance(n, ast.Constant) and n.value == attr and isinstance(n.value, str):
                        return None
                return val
            if len(cnode.bases) != 1 or cnode.keywords:
                return None
            cls = ast.unparse(cnode.bases[0])
        return None

    def _contracted_method(self, st, obj, name):
        if hasattr(obj, "ref") and obj.ref in st.heap:
            o = st.obj(obj.ref)
            if o.kind == "unk" and o.cls:
                return self.reg.get(f"{self.module.rel}::{o.cls}.{name}")
        return None

    def _builtin_exception_init(self, cls):
        """The next __init__ after `cls` in the MRO is BaseException.__init__ (accepts any positional arguments, total): every
        base up to a builtin exception class is a single-inheritance class of this module without an __init__ of its own."""
        seen = 0
        while seen < 10:
            seen += 1
            node = self.module.classes.get(cls)
            if node is None or len(node.bases) != 1 or node.keywords:
                return False
            base = ast.unparse(node.bases[0])
            if base in ("Exception", "BaseException", "RuntimeError", "ValueError"):
                return True
            if base not in self.module.classes or f"{base}.__init__" in self.module.functions or f"{base}.__new__" in self.module.functions:
                return False
            cls = base
        return False

    def call_method(self, st, obj, name, args, kwargs, node):
        if isinstance(obj, VSuperOf) and name == "__init__" and not kwargs and self._builtin_exception_init(obj.cls):
            return [(st, NONE)]           # BaseException.__init__(*args): stores args, total
        cm = self._contracted_method(st, obj, name)
        if cm is not None and not cm.inline:
            return self.apply_contract(st, cm, [obj] + list(args), kwargs, node)
        if isinstance(obj, VModDict) and name == "update" and len(args) == 1 and not kwargs:
            a = args[0]
            items = st.obj(a.ref).data if hasattr(a, "ref") and st.obj(a.ref).kind == "dict" else (a.items if hasattr(a, "items") and isinstance(getattr(a, "items"), dict) else None)
            if isinstance(items, dict) and all(isinstance(k_, str) for k_ in items):
                for k_, v_ in items.items():
                    st.ghost[("bind", obj.mod, k_)] = v_
                return [(st, NONE)]
        if name in self._LIST_GROW and self._grown_list(st, obj):
            return [(st, NONE)]
        if name == "close" and not args and isinstance(obj, (VUnk, VExt)) and self.reg.method_models.get((getattr(obj, "sort", None), name)) is None:
            return [(st, NONE)]       # ASSUMED: close() of a container / context handle is total (runs in `finally` blocks)
        return super().call_method(st, obj, name, args, kwargs, node)

    def compare(self, st, op, a, b, node):
        if op in ("Eq", "NotEq") and (isinstance(a, VSeq) and a.is_bytes or isinstance(b, VSeq) and b.is_bytes):
            sa, sb = self._as_byteseq(st, a), self._as_byteseq(st, b)
            if sa is not None and sb is not None:
                t = self._bytes_eq(sa, sb)
                return [(st, VBool(t if op == "Eq" else z3.Not(t)))]
        if op not in ("Is", "IsNot", "In", "NotIn"):           # pypdf numbers / names compare like the int / str they extend
            pa, pb = (isinstance(v, VExt) and v.sort == "PdfObj" for v in (a, b))
            if pa and isinstance(b, VInt) or pb and isinstance(a, VInt):
                return super().compare(st, op, VInt(PINT(a.t)) if pa else a, VInt(PINT(b.t)) if pb else b, node)
            if op in ("Eq", "NotEq") and (pa and isinstance(b, VStr) or pb and isinstance(a, VStr)):
                return super().compare(st, op, VStr(PNAME(a.t)) if pa else a, VStr(PNAME(b.t)) if pb else b, node)
        if op in ("Eq", "NotEq"):
            for x, y in ((a, b), (b, a)):
                if isinstance(x, VExt) and x.sort == "CoderId" and isinstance(y, VBytes):
                    cb = self.py_const(y)
                    if isinstance(cb, bytes):
                        t = BSTR(x.t) == sv(cb.decode("latin-1"))
                        return [(st, VBool(t if op == "Eq" else z3.Not(t)))]
        return super().compare(st, op, a, b, node)

    def b_collection(self, st, name, args, node):
        if name in ("set", "frozenset", "list", "tuple") and len(args) == 1 and isinstance(args[0], VExt) and args[0].sort == "ZipNames":
            return [(st, args[0])]           # a collection of the same member names: membership is all this pack asks of it
        return super().b_collection(st, name, args, node)

    def contains(self, st, container, item, node):
        if isinstance(container, VExt) and container.sort == "ZipNames":                                   # name in zf.namelist()
            if isinstance(item, VStr):
                return [(st, VBool(names_has(container.t, item.t)))]
            return [(st, VBool(z3.Bool(fresh_name("in_namelist"))))]
        if isinstance(container, VExt) and container.sort == "PdfObj" and isinstance(item, VStr):       # "/CF" in encrypt
            return [(st, VBool(PHAS(container.t, item.t)))]
        if isinstance(container, VExt) and container.sort == "Blob":            # needle in <raw bytes of a ZIP member>
            return [(st, VBool(raw_has(self, st, container.t, _needle(self, item))))]
        return super().contains(st, container, item, node)

    def e_GeneratorExp(self, n, st):
        from pyvc.ops import Unsupported
        mark = len(self.sinks[-1])
        try:
            return super().e_GeneratorExp(n, st.fork())   # on a copy: a failed attempt must leave no effects behind
        except Unsupported:
            del self.sinks[-1][mark:]
            return self.lazy_generator(n, st)

    def e_ListComp(self, n, st):
        from pyvc.ops import Unsupported
        mark = len(self.sinks[-1])
        try:
            return super().e_ListComp(n, st.fork())       # on a copy: a failed attempt must leave no effects behind
        except Unsupported:
            del self.sinks[-1][mark:]
            return self.filtered_view(n, st)

    def filtered_view(self, n, st):
        """[elt for x in seq if cond(x)] over a symbolic sequence: the filtered subsequence, as a symbolic sequence of unknown
        length m <= n whose i-th element is elt(seq[IDX(i)]) with IDX strictly increasing into the kept positions and ONTO them
        (INV: every kept position occurs).  Conditions and element must be pure, non-forking, non-raising and must not create
        fresh symbols (their value has to be a function of the position)."""
        from pyvc.ops import Unsupported
        from pyvc import values as _values
        if len(n.generators) != 1:
            raise Unsupported(f"{self.loc(n)} nested comprehension over a symbolic sequence")
        g = n.generators[0]
        r = self.ev(g.iter, st)                 # evaluated once, eagerly: its exceptional paths are real ones
        if len(r) != 1 or not isinstance(r[0][1], VSeq):
            raise Unsupported(f"{self.loc(n)} comprehension over non-sequence")
        st, src = r[0]
        s = st.fork()
        mark = len(self.sinks[-1])
        tick = next(_values._fresh)

        def at(k):
            """(keep condition, element value) at source position k -- evaluated on a scratch state"""
            s2 = s.fork()
            ss = self.assign(g.target, src.elem(k), s2)
            if len(ss) != 1:
                raise Unsupported(f"{self.loc(n)} forking target in comprehension")
            s2, conds = ss[0], []
            for cnd in g.ifs:
                rr = self.ev(cnd, s2)
                if len(rr) != 1:
                    raise Unsupported(f"{self.loc(n)} forking condition in comprehension")
                s2 = rr[0][0]
                conds.append(self.truth(s2, rr[0][1]).t)
            rr = self.ev(n.elt, s2)
            if len(rr) != 1 or len(self.sinks[-1]) != mark:
                del self.sinks[-1][mark:]
                raise Unsupported(f"{self.loc(n)} forking / raising element in comprehension")
            return z3.And(conds + [z3.BoolVal(True)]), rr[0][1]
        k = z3.Int(fresh_name("k"))
        keep_k, _probe = at(k)
        after = next(_values._fresh)
        # purity check: no symbol created while evaluating at position k may occur in the condition (except k itself)
        seen, stack = set(), [keep_k]
        while stack:
            x = stack.pop()
            if x.get_id() in seen:
                continue
            seen.add(x.get_id())
            if z3.is_const(x) and x.decl().kind() == z3.Z3_OP_UNINTERPRETED and "!" in x.decl().name():
                try:
                    idx = int(x.decl().name().rsplit("!", 1)[1])
                except ValueError:
                    idx = -1
                if tick < idx < after and not x.eq(k):
                    raise Unsupported(f"{self.loc(n)} comprehension condition creates fresh symbols")
            stack.extend(x.children())
        if not g.ifs:        # nothing filtered: position i of the result is position i of the source
            return [(st, VSeq(src.length, lambda t: at(t)[1], "?", False))]
        m = z3.Int(fresh_name("m"))
        IDX = z3.Function(fresh_name("kept_pos"), I, I)
        INV = z3.Function(fresh_name("kept_rank"), I, I)
        i_, j_ = z3.Int(fresh_name("i")), z3.Int(fresh_name("j"))
        keep_at = lambda t: z3.substitute(keep_k, (k, t))
        st.assume(z3.And(
            m >= 0, m <= src.length,
            z3.ForAll([i_], z3.Implies(z3.And(i_ >= 0, i_ < m), z3.And(IDX(i_) >= 0, IDX(i_) < src.length, keep_at(IDX(i_)))), patterns=[IDX(i_)]),
            z3.ForAll([j_], z3.Implies(z3.And(j_ >= 0, j_ < src.length, keep_at(j_)), z3.And(INV(j_) >= 0, INV(j_) < m, IDX(INV(j_)) == j_)),
                      patterns=[INV(j_)])))
        tag = src.tag if isinstance(n.elt, ast.Name) and isinstance(g.target, ast.Name) and n.elt.id == g.target.id else None

        def elem(t):
            return at(IDX(t))[1] if tag is None else src.elem(IDX(t))
        out = VSeq(m, elem, src.ekind if tag is not None else "?", False, tag=("filtered", src.tag, IDX, INV, keep_k, k) if tag is not None else None)
        return [(st, out)]

    def lazy_generator(self, n, st):
        """Generator expression over symbolic sequences -> (bound variables, range condition, element) for any()/all().
        Requires the conditions to be non-forking and the element to be pure and non-raising (it may fork)."""
        from pyvc.ops import Unsupported
        vars_, conds = [], []
        s, mark = None, None
        for gi, g in enumerate(n.generators):
            r = self.ev(g.iter, st if gi == 0 else s)      # the first iterable is evaluated eagerly: its exceptional paths are real
            if len(r) != 1 or not isinstance(r[0][1], VSeq):
                raise Unsupported(f"{self.loc(n)} generator over non-sequence")
            if gi == 0:
                st = r[0][0]
                s = st.fork()
                mark = len(self.sinks[-1])
                it = r[0][1]
            else:
                s, it = r[0]
            k = z3.Int(fresh_name("k"))
            vars_.append(k)
            conds.append(z3.And(k >= 0, k < it.length))
            ss = self.assign(g.target, it.elem(k), s)
            if len(ss) != 1:
                raise Unsupported(f"{self.loc(n)} forking target in generator")
            s = ss[0]
            for cnd in g.ifs:
                r = self.ev(cnd, s)
                if len(r) != 1:
                    raise Unsupported(f"{self.loc(n)} forking condition in generator")
                s = r[0][0]
                conds.append(self.truth(s, r[0][1]).t)
        base = len(s.pc)
        r = self.ev(n.elt, s)
        if not r or len(self.sinks[-1]) != mark:
            del self.sinks[-1][mark:]
            raise Unsupported(f"{self.loc(n)} raising element in generator")
        # an element that forks (a helper with an early return, a conditional expression): the case split stays inside
        # the quantifier -- the cases are exhaustive and exclusive path conditions added after `base`
        cases = [z3.And([z3.BoolVal(True)] + list(s_.pc[base:]) + [self.truth(s_, v_).t]) for (s_, v_) in r]
        return [(st, VGen(vars_, z3.And(conds), z3.Or(cases)))]

    @staticmethod
    def _byte_int(v):
        """Int term of a byte value (undoing the Int2BV an intermediate bytes([x]) wrapped around an Int)."""
        t = v.t
        if z3.is_bv(t) and z3.is_app(t) and t.decl().kind() == z3.Z3_OP_INT2BV:
            return t.arg(0)
        return ops.int_term(v)

    def _as_byteseq(self, st, v):
        """(length term, elem(i) -> Int term) of a bytes-like value, or None."""
        if isinstance(v, VSeq) and v.is_bytes:
            return v.length, (lambda i, v=v: self._byte_int(v.elem(i)))
        if isinstance(v, VBytes):
            items = [self._byte_int(x) for x in v.items]

            def el(i, items=items):
                acc = items[-1] if items else z3.IntVal(0)
                for k_ in range(len(items) - 2, -1, -1):
                    acc = z3.If(i == k_, items[k_], acc)
                return acc
            return z3.IntVal(len(items)), el
        return None

    def _byteseq(self, n, el, tag=None):
        return VSeq(z3.simplify(n), lambda i: VInt(el(i)), "byte", True, tag=tag)

    def _bytes_eq(self, a, b):
        (na, ea), (nb, eb) = a, b
        j = z3.Int(fresh_name("j"))
        return z3.And(na == nb, z3.ForAll([j], z3.Implies(z3.And(j >= 0, j < na), ea(j) == eb(j))))

    def binop(self, st, op, a, b, node, inplace=False):
        if op == "Mult":
            for x, cnt in ((a, b), (b, a)):
                sx = self._as_byteseq(st, x) if isinstance(x, (VBytes, VSeq)) else None
                if sx is not None and isinstance(cnt, VInt) and cnt.const() is None and isinstance(x, VBytes) and len(x.items) == 1:
                    c_ = ops.int_term(cnt)
                    return [(st, self._byteseq(z3.If(c_ < 0, z3.IntVal(0), c_), lambda i, e=sx[1]: e(z3.IntVal(0)), tag=("repeat",)))]
        if op == "Add":
            sa, sb = self._as_byteseq(st, a), self._as_byteseq(st, b)
            if sa is not None and sb is not None and (isinstance(a, VSeq) or isinstance(b, VSeq)):
                (na, ea), (nb, eb) = sa, sb
                return [(st, self._byteseq(na + nb, lambda i: z3.If(i < na, ea(i), eb(i - na)), tag=("concat",)))]
        return super().binop(st, op, a, b, node, inplace)

    def b_setattr(self, st, args, kwargs, node):
        """setattr(obj, "<literal or loop-unrolled name>", value) is the attribute store obj.<name> = value."""
        nm = args[1].const() if len(args) == 3 and isinstance(args[1], VStr) else None
        if nm is None:
            return self.havoc_call(st, "setattr", args, node)
        return [(s_, NONE) for s_ in self.store_attr(st, args[0], nm, args[2], node)]

    @staticmethod
    def _reversed_seq(q):
        return VSeq(q.length, lambda i, q=q: q.elem(q.length - 1 - i), q.ekind, q.is_bytes, tag=("reversed", q.tag))

    def b_reversed(self, st, args, kwargs, node):
        if args and isinstance(args[0], VSeq):
            return [(st, self._reversed_seq(args[0]))]
        return super().b_reversed(st, args, kwargs, node)

    def get_slice(self, st, base, sl, node):
        # seq[::-1] is reversed(seq)
        if isinstance(base, VSeq) and sl.lower is None and sl.upper is None and sl.step is not None:
            r = self.ev(sl.step, st)
            if len(r) == 1 and isinstance(r[0][1], VInt) and r[0][1].const() == -1:
                return [(r[0][0], self._reversed_seq(base))]
        return super().get_slice(st, base, sl, node)

    def b_next(self, st, args, kwargs, node):
        # next((True for x in seq if cond(x)), False)  ==  any(cond(x) for x in seq)
        if len(args) == 2 and isinstance(args[0], VGen) and node.args and isinstance(node.args[0], ast.GeneratorExp) \
                and isinstance(node.args[0].elt, ast.Constant) and node.args[0].elt.value is True \
                and isinstance(args[1], VBool) and args[1].const() is False:
            g = args[0]
            return [(st, VBool(z3.Exists(g.vars, z3.And(g.cond, g.elt))))]
        return super().b_next(st, args, kwargs, node)

    def e_SetComp(self, n, st):
        from pyvc.ops import Unsupported
        mark = len(self.sinks[-1])
        try:
            return super().e_SetComp(n, st.fork())
        except Unsupported:
            del self.sinks[-1][mark:]
            return self.filtered_view(n, st)      # only membership / emptiness of the result is ever looked at: same as the list

    def b_vars(self, st, args, kwargs, node):
        from pyvc.values import VMod
        if len(args) == 1 and isinstance(args[0], VMod):
            return [(st, VModDict(args[0].name))]
        return self.havoc_call(st, "vars", args, node)

    def store_index(self, st, base, idx, v, node):
        if isinstance(base, VModDict):          # vars(module)[name] = value / module.__dict__[name] = value
            nm = idx.const() if isinstance(idx, VStr) else None
            if nm is None:
                self._imprecise("module namespace store with a computed name")
                return [st]
            st.ghost[("bind", base.mod, nm)] = v
            return [st]
        return super().store_index(st, base, idx, v, node)

    def b_any(self, st, args, kwargs, node):
        if args and isinstance(args[0], VGen):
            g = args[0]
            return [(st, VBool(z3.Exists(g.vars, z3.And(g.cond, g.elt))))]
        return super().b_any(st, args, kwargs, node)

    def b_all(self, st, args, kwargs, node):
        if args and isinstance(args[0], VGen):
            g = args[0]
            return [(st, VBool(z3.ForAll(g.vars, z3.Implies(g.cond, g.elt))))]
        return super().b_all(st, args, kwargs, node)

    def on_yield(self, st, v, node):
        st.ghost["n_yields"] = st.ghost.get("n_yields", 0) + 1
        h = getattr(self.contract, "on_yield", None) if self.contract is not None else None
        if h is not None:
            h(self, st, v, node)

    def exc_any(self, st, site, also=()):
        # ASSUMED: reading an attribute of / comparing plain data objects (ZipInfo fields, config numbers) raises at most
        # AttributeError / TypeError -- not an arbitrary exception
        import re as _re
        if _re.search(r" \.\w+ on unknown$", site) or site.endswith(" compare unknown"):
            t, c = self.uni.any_exception()
            s2 = st.fork().assume(z3.And(c, z3.Or(self.uni.subclass_term(t, "AttributeError"), self.uni.subclass_term(t, "TypeError"))))
            self.raise_in(s2, VExc(t, {"site": site}))
            self.exc_any_sites.append(site)
            return
        name, dedicated = aes_signal(self.module.repo)
        if dedicated and self.uni.known(name) and "SevenZipFile" not in site:
            # ASSUMED: a dedicated encryption-signal class of sevenzip.py is raised by the 7z reader only
            t, c = self.uni.any_exception()
            self.raise_in(st.fork().assume(z3.And(c, z3.Not(self.uni.subclass_term(t, name)))), VExc(t, {"site": site}))
            self.exc_any_sites.append(site)
            return
        return super().exc_any(st, site, also)

    def havoc_everything(self, st):
        # An abstracted expression cannot rebind local names; handles of library objects (the input BytesIO, the opened
        # container / reader) stay bound to the same object.  ASSUMED: it does not write into the input bytes (C06).
        from pyvc.state import HeapObj
        from pyvc.values import VMod
        for fr in st.frames:
            for k, v in list(fr.env.items()):
                if not isinstance(v, (VFunc, VType, VMod, VUnk, VExt)):
                    fr.env[k] = VUnk(f"havoc:{k}")
        for r in list(st.heap):
            o = st.heap[r]
            st.heap[r] = HeapObj("unk", None, o.cls, o.fresh)

    def merge_states(self, states):
        self._imprecise("state merge")
        for s_ in states:          # stream positions (raw z3 terms, irrelevant here) are forgotten at joins
            for k in [k for k in s_.ghost if isinstance(k, tuple) and k and k[0] == "pos"]:
                del s_.ghost[k]
        return super().merge_states(states)

    def ghost_join(self, key, a, b):
        if key in ("n_yields", "zip_reads") and isinstance(a, int) and isinstance(b, int):
            return max(a, b)
        return None


EXECUTOR = C08Executor
LOCK_OPTIONAL_KINDS = ("inv-init", "inv-preserve", "decreases")     # loop obligations exist only while the code has the loop
LOCK_OPTIONAL_FUNCTIONS = ("/encryption.py::_has_ole_encryption_stream/",)   # complementary helper contract: follows the helper by role (ole_marker_helper)
EXECUTOR_KW = {}


# ---------------------------------------------------------------- contracts --
def xml_axiom(f):
    """ASSUMED XML fact: an element named (prefix:)encryption-data occurs in the tree only if that
    name occurs literally in the serialised text (element names cannot be escaped) -- for documents in an ASCII-compatible
    encoding only: the UTF-8 decoding of a UTF-16 manifest does not contain the name (round 6: the unconditional form was wrong)."""
    b = manifest_blob(f)
    return z3.Implies(z3.And(HAS_ENC_ELEM(b), ASCII_COMPAT(b)), z3.Contains(manifest_text(f), sv(ENC_ELEM_NAME)))


def xls_loop_view(lc):
    """(stream view, cursor term) of the record loop, found structurally (no local names fixed here): the stream is the
    one symbolic byte string among the locals, the cursor the one integer local that the loop both tests and assigns."""
    env = lc.st.frames[-1].env
    seqs = [v for v in env.values() if isinstance(v, VSeq) and v.is_bytes and v.tag is not None]
    fnode = lc.ex.cur_fn_stack[-1] if lc.ex.cur_fn_stack else None
    loops = [n for n in ast.walk(fnode) if isinstance(n, ast.While)] if fnode is not None else []
    if len(seqs) != 1 or len(loops) != 1:
        return None
    tested = {n.id for n in ast.walk(loops[0].test) if isinstance(n, ast.Name)}
    assigned = {n.id for b in loops[0].body for n in ast.walk(b) if isinstance(n, ast.Name) and isinstance(n.ctx, ast.Store)}
    cur = [k for k in tested & assigned if isinstance(env.get(k), VInt)]
    if len(cur) != 1:
        return None
    return seqs[0].tag, ops.int_term(env[cur[0]])


def xls_loop_inv(lc):
    v = xls_loop_view(lc)
    if v is None:
        return z3.BoolVal(False)
    (ole, name), off = v
    # "no FILEPASS among the records at chain positions before the cursor" (so the answer is the one for the rest of the chain)
    return z3.And(off >= 0, FP(ole, name, z3.IntVal(0)) == FP(ole, name, off))


def xls_loop_decreases(lc):
    v = xls_loop_view(lc)
    if v is None:
        return z3.IntVal(-1)
    (ole, name), off = v
    return SLEN(ole, name) - off


def _ft(c, name="file_like"):
    v = c.args.get(name)
    return v.t if isinstance(v, VExt) else None


def _spec_or_unknown(spec, name="file_like"):
    def r(c):
        t = _ft(c, name)
        return VBool(spec(t)) if t is not None else VBool(z3.Bool(fresh_name("detector_on_unknown")))
    return r


LOOP_RULES[("while", "record-chain")] = LoopSpec(inv=xls_loop_inv, label="record-chain", decreases=xls_loop_decreases)


def ole_marker_helper(repo=None):
    """(name, parameter) of the private helper of util/encryption.py that answers "does this OLE container carry an encryption
    stream" for BOTH OLE detectors -- found by its role, not by its name (a private helper may be renamed): the one module-level
    function with a single parameter that is_ooxml_encrypted and is_ppt_encrypted both call by name with one plain-name argument.
    None when there is no such helper (test inlined, or split differently): the helper contract is COMPLEMENTARY, both detectors
    keep their own locked `returns` obligations and execute an un-contracted helper in place."""
    try:
        m = loader.module(ENC, repo)
    except Exception:
        return None

    def called(fn):
        node = m.functions.get(fn)
        return set() if node is None else {n.func.id for n in ast.walk(node) if isinstance(n, ast.Call) and isinstance(n.func, ast.Name)
                                           and len(n.args) == 1 and isinstance(n.args[0], ast.Name) and not n.keywords}
    cands = []
    for name in sorted(called("is_ooxml_encrypted") & called("is_ppt_encrypted")):
        node = m.functions.get(name)
        if node is None or not isinstance(node, ast.FunctionDef) or node.decorator_list:
            continue
        a = node.args
        if len(a.args) == 1 and not (a.posonlyargs or a.kwonlyargs or a.vararg or a.kwarg or a.defaults):
            cands.append((name, a.args[0].arg))
    return cands[0] if len(cands) == 1 else None


def detector_contracts(reg):
    out = []
    FL = [("file_like", p_ext("BytesIO"))]
    lib = [Raises("Exception", sub=True, label="only what the container library raises")]
    helper = ole_marker_helper()
    if helper is not None:
        hname, hparam = helper
        out.append(FnContract(
            target=f"{ENC}::{hname}", params=[(hparam, p_ext("OleFile"))],
            returns=lambda c: VBool(spec_ole_enc(c.args[hparam].t)), raises=[],
            note="OLE container carries an encryption stream (EncryptionInfo / EncryptedPackage / DataSpaces)"))
    out.append(FnContract(
        target=f"{ENC}::is_ooxml_encrypted", params=FL, modifies=("file_like",),
        returns=_spec_or_unknown(spec_ooxml), raises=lib,
        note="OOXML wrapped in OLE: is an OLE file and has an encryption stream"))
    out.append(FnContract(
        target=f"{ENC}::is_ppt_encrypted", params=FL, modifies=("file_like",),
        returns=_spec_or_unknown(spec_ppt), raises=lib,
        note="legacy PPT: OLE encryption stream or EncryptedSummary[Information]"))
    out.append(FnContract(
        target=f"{ENC}::is_xls_encrypted", params=FL, modifies=("file_like",),
        returns=_spec_or_unknown(spec_xls), raises=lib,
        loops={},
        note="legacy XLS: FILEPASS (0x002F) somewhere on the BIFF record chain of the Workbook/Book stream"))
    out.append(FnContract(
        target=f"{ZB}::open_zipfile", assumed=True,
        params=[("file_like", p_ext("BytesIO")), ("limits", p_const(None)), ("source", p_const(None))],
        returns=lambda c: VExt("ZipFile", ZIP_OF(_ft(c))) if _ft(c) is not None else VExt("ZipFile"), raises=lib, modifies=("file_like",),
        note="verified by the C11 pack; here: the container view of the same bytes, or any exception"))
    out.append(FnContract(
        target=f"{ENC}::is_odf_encrypted", params=FL, modifies=("file_like",),
        result_maker=lambda ex, st, ctx: VBool(z3.Bool(fresh_name("odf_encrypted"))),
        hyps=lambda c: xml_axiom(_ft(c)) if _ft(c) is not None else z3.BoolVal(True),
        ensures=[("encrypted-manifest-is-detected", lambda c: z3.Implies(spec_odf(_ft(c)), c.result.t) if _ft(c) is not None else z3.BoolVal(True)),
                 ("true-only-if-manifest-has-an-encryption-data-element",
                  lambda c: z3.Implies(c.result.t, spec_odf(_ft(c))) if _ft(c) is not None else z3.BoolVal(True))],
        raises=lib,
        note="ODF: the manifest tree contains an encryption-data element"))
    return out


# ---- DOC: FIB flag ---------------------------------------------------------
FIB_FLAGS_AT, FIB_F_ENCRYPTED = 0x0A, 0x0100          # [MS-DOC] 2.5.2 FibBase: fEncrypted is bit 8 of the word at offset 10
WORD97, WORD95 = 0xA5EC, 0xA5DC                       # wIdent values accepted as Word binary documents


def doc_view(c):
    ole = c.entry.obj(c.args["self"].ref).data["ole"]
    return ole.t, sv("WordDocument")


def doc_is_word(c):
    """The container has a WordDocument stream of at least the minimal FIB size with a Word signature."""
    ole, nm = doc_view(c)
    return z3.And(EX(ole, nm), SLEN(ole, nm) >= 0x200, z3.Or(u16(ole, nm, 0) == WORD97, u16(ole, nm, 0) == WORD95))


def doc_flag_set(c):
    ole, nm = doc_view(c)
    return ((u16(ole, nm, FIB_FLAGS_AT) / 256) % 2) == 1


def own(c):
    """The exception was raised by a `raise` statement of the function under contract itself
    (not by a library model: `site`, nor by a contracted callee: `from_callee`)."""
    return c.exc is not None and "site" not in c.exc.attrs and "from_callee" not in c.exc.attrs


def is_enc_err(c):
    return c.ex.uni.subclass_term(c.exc.tidx, ENCERR)


def doc_contracts(reg):
    reader = p_obj("_DocReader", {"file_like": p_ext("BytesIO"), "ole": p_ext("OleFile"), "_content": p_const(None),
                                  "_is_unicode": p_const(None), "_text_start": p_const(None)})

    def mine(c):
        """Raised by a `raise` statement of the reader class itself (possibly propagated from _parse_content through read)."""
        a = c.exc.attrs if c.exc is not None else {"site": "-"}
        return "site" not in a and a.get("from_callee", DOC).startswith(DOC)

    def only_if(c):
        return z3.Implies(z3.And(z3.BoolVal(mine(c)), is_enc_err(c)), z3.And(doc_is_word(c), doc_flag_set(c)))

    def if_(c):
        # a readable Word document with fEncrypted set has exactly one outcome
        ole, nm = doc_view(c)
        return z3.Implies(z3.And(READABLE(ole, nm), doc_is_word(c), doc_flag_set(c)), z3.And(z3.BoolVal(mine(c)), is_enc_err(c)))

    out = []
    for q in ("_DocReader._parse_content", "_DocReader.read"):
        t = f"{DOC}::{q}"
        EXECUTOR_KW[t] = {"abstract": True, "inline_calls": False, "inline_local": True, "merge_after_check": True}
        out.append(FnContract(
            target=t, params=[("self", reader)], modifies=("self",),
            result_maker=lambda ex, st, ctx: VUnk("DocContent"),
            ensures=[("content-returned-only-if-fEncrypted-clear", lambda c: z3.Not(z3.And(doc_is_word(c), doc_flag_set(c))))],
            raises=[Raises("Exception", sub=True)],
            exc_ensures=[("encrypted-error-only-if-fEncrypted-set", only_if), ("readable-and-fEncrypted-set-implies-encrypted-error", if_)],
            note="first parse of a fresh reader (_content is None, set by __init__); FIB word at 0x0A, bit 0x0100"
                 + ("" if q.endswith("_parse_content") else "; read() = _parse_content() (verified against its contract)")))

    # read_doc: `with _DocReader(file_like) as doc: document = doc.read() ... yield document`
    DocR = ext_sort("DocReader")
    DR_OF = z3.Function("doc_reader_of", BytesIO, DocR)
    DR_OLE = z3.Function("doc_reader_ole", DocR, OleFile)

    def enc_doc(dr):
        ole, nm = DR_OLE(dr), sv("WordDocument")
        return z3.And(EX(ole, nm), SLEN(ole, nm) >= 0x200, z3.Or(u16(ole, nm, 0) == WORD97, u16(ole, nm, 0) == WORD95),
                      ((u16(ole, nm, FIB_FLAGS_AT) / 256) % 2) == 1)

    def new_docreader(ex, st, args, kwargs, node):
        f = _fl(args[0]) if args else None
        if f is not None:
            st.ghost["doc_bytes"] = Term(f.t)
        return [(st, VExt("DocReader", DR_OF(f.t)) if f is not None else VExt("DocReader"))]

    def with_docreader(ex, st, cm, phase):
        if phase == "enter":
            ex.exc_any(st.fork(), "_DocReader.__enter__ (olefile.OleFileIO)")
            st.ghost["doc_opened"] = True
            # by the VERIFIED contracts of _DocReader.__init__ / __enter__ (handle_contracts): the reader keeps the very bytes it
            # was given and `doc.ole` is the olefile directory view of those bytes; `as doc` is the reader itself
            f = st.ghost.get("doc_bytes")
            if f is not None:
                st.assume(DR_OLE(cm.t) == OLE_OF(f.t))
            return [(st, cm)]
        # "exit": verified `_DocReader.__exit__/ensures#returns-a-false-value...` -- the outcome of the body is left as it is

    def m_doc_read(ex, st, obj, args, kwargs, node):
        """doc.read() on a fresh reader: by the verified contract of _DocReader.read -- an encrypted Word document raises the
        file-encrypted error (or a library error while the stream is being read), any other input never raises it."""
        e = enc_doc(obj.t)
        rd = READABLE(DR_OLE(obj.t), sv("WordDocument"))
        t, cnd = ex.uni.any_exception()
        lib = st.fork().assume(z3.And(cnd, z3.Not(ex.uni.subclass_term(t, ENCERR)), z3.Not(z3.And(rd, e))))
        ex.raise_in(lib, VExc(t, {"site": f"{ex.loc(node)} _DocReader.read (library / format error)"}))
        enc = st.fork().assume(e)
        ex.raise_in(enc, VExc(z3.IntVal(ex.uni.index[ENCERR]), {"detector": True}))
        st.assume(z3.Not(e))
        st.ghost["fib_checked"] = True
        return [(st, VUnk("DocContent"))]

    reg.ext_models[("new", "_DocReader")] = new_docreader
    reg.ext_models[("with", "DocReader")] = with_docreader
    reg.method_models[("DocReader", "read")] = m_doc_read
    reg.method_models[("DocReader", "get_metadata")] = lambda ex, st, o, a, k, n: (ex.exc_any(st.fork(), "get_metadata"), [(st, VUnk("DocMetadata"))])[1]

    def dsp(c):
        return enc_doc(DR_OF(c.args["file_like"].t))

    def chk(c):
        return z3.BoolVal(bool(c.st.ghost.get("fib_checked")))

    def from_detector(c):
        return z3.BoolVal(c.exc is not None and bool(c.exc.attrs.get("detector")))

    def doc_on_yield(ex, st, v, node):
        f = input_of(st)
        ex.add_vc("typestate", "no-result-before-the-FIB-check-passed", st.pc,
                  z3.And(z3.BoolVal(bool(st.ghost.get("fib_checked"))), z3.Not(enc_doc(DR_OF(f)))) if f is not None else z3.BoolVal(False),
                  loc=ex.loc(node))
    t = f"{DOC}::read_doc"
    cd = FnContract(
        target=t, params=[("file_like", p_ext("BytesIO")), ("path", p_opt(p_str()))], generator=True, modifies=("file_like",),
        requires=stash_input,
        ensures=[("completes-only-if-not-encrypted", lambda c: z3.And(chk(c), z3.Not(dsp(c))))],
        raises=[Raises("Exception", sub=True)],
        exc_ensures=[("fEncrypted-implies-encrypted-error-before-any-result",
                      lambda c: z3.Implies(z3.And(z3.BoolVal(bool(c.st.ghost.get("doc_opened"))), READABLE(DR_OLE(DR_OF(c.args["file_like"].t)), sv("WordDocument")), dsp(c)),
                                           z3.And(from_detector(c), is_enc_err(c), z3.BoolVal(n_yields(c) == 0)))),
                     ("encrypted-error-only-if-fEncrypted",
                      lambda c: z3.Implies(z3.And(z3.Or(from_detector(c), z3.BoolVal(own(c))), is_enc_err(c)), dsp(c)))],
        note="DOC: the parse (FIB check) precedes the first yield; its file-encrypted error is passed through unchanged")
    cd.on_yield = doc_on_yield
    EXECUTOR_KW[t] = {"abstract": True, "inline_calls": False, "inline_local": True}
    out.append(cd)
    return out


# ---- round 7: the library's own handle classes (construction / __enter__ / __exit__) -------------
# The call-site models of `with _DocReader(f) as doc` and `with SevenZipFile(f, "r") as szf` used to ASSUME that the handle
# (a) keeps the bytes it was given, (b) opens the container view of THOSE bytes, (c) starts as the *fresh* reader the verified
# read()/needs_password() contracts require, and (d) never swallows an exception leaving the `with` body (the engine's `with`
# protocol re-raises: true only if __exit__ returns a false value).  Each of these is now an obligation on the real body.
def _fields(c, name="self", at_exit=True):
    return (c.st if at_exit else c.entry).obj(c.args[name].ref).data


def _is_none(v):
    return v is NONE


def _same_ext(v, w):
    """v is the very same abstract object as w (no copy, no wrapper)."""
    return isinstance(v, VExt) and isinstance(w, VExt) and v.sort == w.sort and v.t.eq(w.t)


def _returns_self(c):
    from pyvc.values import VRef
    return isinstance(c.result, VRef) and c.result.ref == c.args["self"].ref


def _falsy(v):
    """The value `__exit__` hands back is false: the exception leaving the body propagates."""
    if v is NONE:
        return z3.BoolVal(True)
    if isinstance(v, VBool):
        return z3.Not(v.t)
    if isinstance(v, VInt):
        return ops.int_term(v) == 0
    return z3.BoolVal(False)


def handle_contracts(reg):
    out = []
    DOC_FRESH = {"_content": p_const(None), "_is_unicode": p_const(None), "_text_start": p_const(None)}

    def doc_init_post(c):
        d = _fields(c)
        return z3.BoolVal(_same_ext(d.get("file_like"), c.args["file_like"]) and _is_none(d.get("ole"))
                          and all(_is_none(d.get(k, False)) for k in DOC_FRESH))

    out.append(FnContract(
        target=f"{DOC}::_DocReader.__init__", params=[("self", p_obj("_DocReader", {})), ("file_like", p_ext("BytesIO"))],
        modifies=("self",), raises=[], total=True,
        ensures=[("fresh-reader-over-the-given-bytes", doc_init_post)],
        note="construction: keeps the very bytes it was given, container not yet opened, nothing parsed (the `fresh reader` the "
             "contracts of _parse_content / read start from); raises nothing"))

    def doc_enter_post(c):
        d, d0 = _fields(c), _fields(c, at_exit=False)
        ole = d.get("ole")
        ok = (_returns_self(c) and _same_ext(d.get("file_like"), d0["file_like"]) and isinstance(ole, VExt) and ole.sort == "OleFile"
              and all(_is_none(d.get(k, False)) for k in DOC_FRESH))
        return z3.And(z3.BoolVal(ok), ole.t == OLE_OF(d0["file_like"].t)) if ok else z3.BoolVal(False)

    out.append(FnContract(
        target=f"{DOC}::_DocReader.__enter__",
        params=[("self", p_obj("_DocReader", dict({"file_like": p_ext("BytesIO"), "ole": p_const(None)}, **DOC_FRESH)))],
        modifies=("self",), raises=[Raises("Exception", sub=True)],
        ensures=[("returns-self-with-the-directory-view-of-its-own-bytes-and-still-unparsed", doc_enter_post)],
        exc_ensures=[("opening-never-rejects-as-encrypted", lambda c: z3.Implies(z3.BoolVal(own(c)), z3.Not(is_enc_err(c))))],
        note="`as doc` is the reader itself; doc.ole = OleFileIO(doc.file_like) (assumed olefile view of the SAME bytes); a failure to "
             "open is a library failure, never the file-encrypted error"))

    def doc_exit_post(c):
        return _falsy(c.result)

    out.append(FnContract(
        target=f"{DOC}::_DocReader.__exit__",
        params=[("self", p_obj("_DocReader", dict({"file_like": p_ext("BytesIO"), "ole": p_opt(p_ext("OleFile"))},
                                                    _content=p_unk(), _is_unicode=p_unk(), _text_start=p_unk()))),
                ("args", Maker(lambda ex, st, name: [(None, VTuple([NONE, NONE, NONE])),          # the body completed / raised
                                                     (None, VTuple([VExt("ExcInfo"), VExt("ExcInfo"), VUnk("traceback")]))],
                               desc="(exc_type, exc_val, exc_tb): all None or an exception in flight"))],
        modifies=("self",), raises=[], total=True,
        ensures=[("returns-a-false-value-so-the-error-of-the-body-propagates", doc_exit_post)],
        note="__exit__ closes the container (close() assumed total) and returns a false value: the file-encrypted error raised by "
             "read() inside `with _DocReader(f) as doc` is never swallowed (the engine's `with` protocol relies on this)"))

    # SevenZipFile(f, "r"): __init__ stores the arguments, __exit__ drops the reader and never swallows
    def szf_init_post(c):
        d = _fields(c)
        return z3.BoolVal(_same_ext(d.get("_file"), c.args["file"]) and _is_none(d.get("_reader", False)))

    out.append(FnContract(
        target=f"{SEVEN}::SevenZipFile.__init__",
        params=[("self", p_obj("SevenZipFile", {})), ("file", p_ext("BytesIO")), ("mode", p_str()), ("password", p_opt(p_str()))],
        modifies=("self",),
        raises=[Raises("Bad7zFile", when=lambda c: c.args["mode"].t != sv("r"), label="only mode 'r'")],
        ensures=[("mode-r-and-keeps-the-given-bytes-with-no-reader-yet",
                  lambda c: z3.And(c.args["mode"].t == sv("r"), szf_init_post(c)))],
        exc_ensures=[("construction-never-raises-the-encryption-signal",
                      lambda c: z3.Not(c.ex.uni.subclass_term(c.exc.tidx, aes_signal(c.ex.module.repo)[0]))
                      if aes_signal(c.ex.module.repo)[1] and c.ex.uni.known(aes_signal(c.ex.module.repo)[0]) else z3.BoolVal(True))],
        note="SevenZipFile(f, 'r'): stores the very bytes it was given, reader not yet built (precondition of __enter__ / "
             "needs_password contracts); Bad7zFile iff mode != 'r'"))

    out.append(FnContract(
        target=f"{SEVEN}::SevenZipFile.__exit__",
        params=[("self", p_obj("SevenZipFile", {"_file": p_unk(), "_password": p_unk(), "_reader": p_unk()})),
                ("exc_type", p_opt(p_ext("ExcInfo"))), ("exc_val", p_opt(p_ext("ExcInfo"))), ("exc_tb", p_unk())],    # None = the body completed
        modifies=("self",), raises=[], total=True,
        ensures=[("returns-a-false-value-so-the-error-of-the-body-propagates", lambda c: _falsy(c.result))],
        note="__exit__ never swallows: the file-encrypted error raised after needs_password() inside `with SevenZipFile(...)` and the "
             "decoder's encryption signal escaping __enter__ both reach the extractor's handlers"))
    for c_ in out:
        EXECUTOR_KW[c_.target] = {"inline_calls": False, "inline_local": False}

    # exceptions.py (anchor file): constructing the file-encrypted error never fails -- `raise ExtractionFileEncryptedError(msg)` and
    # `raise ExtractionFileEncryptedError(msg, cause=e)` at the rejection sites really raise THAT class (the engine's `raise C(...)`
    # takes the construction for granted)
    EXC = "sharepoint2text/parsing/exceptions.py"

    def cause_kept(c):
        d = _fields(c)
        cz = c.args["cause"]
        return z3.BoolVal(cz is NONE or d.get("__cause__") is cz)

    out.append(FnContract(
        target=f"{EXC}::{ENCERR}.__init__",
        params=[("self", p_obj(ENCERR, {})), ("message", p_str()), ("cause", p_opt(p_ext("ExcInfo")))],
        modifies=("self",), raises=[], total=True,
        ensures=[("given-cause-is-kept-as-__cause__", cause_kept)],
        note="construction of the file-encrypted error is total for a str message and an optional cause (kept as __cause__)"))
    EXECUTOR_KW[f"{EXC}::{ENCERR}.__init__"] = {"inline_calls": False, "inline_local": False}

    # ZipContext (base class of _EpubContext): the EPUB detector asks it `exists(name)` and `read_xml_root(name)`
    ZC = X + "util/zip_context.py"

    def zc_self(zipless=False):
        def mk(ex, st, name):
            zf = VExt("ZipFile")
            d = {"file_like": VExt("BytesIO"), "_zip": zf, "_namelist": VExt("ZipNames", NAMES(zf.t))}
            from pyvc.state import HeapObj
            from pyvc.values import VRef
            return [(None, VRef(st.alloc(HeapObj("obj", d, "ZipContext", fresh=False), ex.refs)))]
        return Maker(mk, desc="ZipContext in its class invariant: _namelist = the names of _zip (established by __init__)")

    def zc_init_post(c):
        d = _fields(c)
        f = c.args["file_like"]
        z, nl = d.get("_zip"), d.get("_namelist")
        ok = (_same_ext(d.get("file_like"), f) and isinstance(z, VExt) and z.sort == "ZipFile" and isinstance(nl, VExt) and nl.sort == "ZipNames")
        if not ok:
            return z3.BoolVal(False)
        p_ = z3.String("p!zc")
        return z3.And(z.t == ZIP_OF(f.t), z3.ForAll([p_], names_has(nl.t, p_) == HASM(ZIP_OF(f.t), p_)))

    out.append(FnContract(
        target=f"{ZC}::ZipContext.__init__", params=[("self", p_obj("ZipContext", {})), ("file_like", p_ext("BytesIO"))],
        modifies=("self", "file_like"), raises=[Raises("Exception", sub=True)],
        ensures=[("opens-the-given-bytes-and-lists-exactly-their-member-names", zc_init_post)],
        exc_ensures=[("opening-never-rejects-as-encrypted", lambda c: z3.Implies(z3.BoolVal(own(c)), z3.Not(is_enc_err(c))))],
        note="class invariant of ZipContext: _zip = open_zipfile(the given bytes) (assumed C11 contract: the zipfile view of the same "
             "bytes), _namelist = exactly the member names of _zip"))

    def zc_zip(c):
        return _fields(c, at_exit=False)["_zip"].t

    out.append(FnContract(
        target=f"{ZC}::ZipContext.exists", params=[("self", zc_self()), ("path", p_str())], raises=[], total=True,
        returns=lambda c: VBool(HASM(zc_zip(c), c.args["path"].t)),
        note="exists(name) <=> the opened archive has a member of exactly that name (no normalisation, no prefix match); total"))

    def root_post(zf_of_c):
        def post(c):
            r = c.result
            blob = MBLOB(zf_of_c(c), c.args["path"].t)
            if not (isinstance(r, VExt) and r.sort == "XmlElem"):
                return z3.BoolVal(False)
            return z3.And(HASM(zf_of_c(c), c.args["path"].t), XMLOK(blob), r.t == XROOT(blob))
        return post
    zc_root_post = root_post(zc_zip)
    not_enc = ("never-rejects-as-encrypted", lambda c: z3.Implies(z3.BoolVal(own(c)), z3.Not(is_enc_err(c))))

    out.append(FnContract(
        target=f"{X}util/zip_utils.py::read_zip_xml_root", params=[("zf", p_ext("ZipFile")), ("path", p_str())],
        raises=[Raises("Exception", sub=True)],
        returns=lambda c: VExt("XmlElem", XROOT(MBLOB(c.args["zf"].t, c.args["path"].t))),
        ensures=[("root-of-exactly-that-member-which-exists-and-is-well-formed", root_post(lambda c: c.args["zf"].t))],
        exc_ensures=[not_enc],
        note="ElementTree root of zf.read(path) (assumed zipfile / defusedxml views: KeyError iff no such member, ParseError iff not "
             "well formed); failures are library failures"))

    out.append(FnContract(
        target=f"{ZC}::ZipContext.read_xml_root", params=[("self", zc_self()), ("path", p_str())],
        raises=[Raises("Exception", sub=True)],
        ensures=[("root-of-exactly-that-member-of-the-opened-archive", zc_root_post)],
        exc_ensures=[("reading-never-rejects-as-encrypted", lambda c: z3.Implies(z3.BoolVal(own(c)), z3.Not(is_enc_err(c))))],
        note="read_xml_root(name) = ElementTree root of the member `name` of the archive opened by __init__ (assumed zipfile / "
             "ElementTree views); failures are library failures"))

    out.append(FnContract(
        target=f"{ZC}::ZipContext.close", params=[("self", zc_self())], modifies=("self",), raises=[], total=True,
        ensures=[("returns-None", lambda c: z3.BoolVal(c.result is NONE))],
        note="close() only closes the archive handle (ZipFile.close() assumed total): the `finally: ctx.close()` of read_epub cannot "
             "replace the file-encrypted error by another exception"))
    return out


# ---- archives: ZIP flag bit 0, 7z AES coder ---------------------------------
def new_zipfile(ex, st, args, kwargs, node):
    """zipfile.ZipFile(f, 'r'): ASSUMED to raise anything or return the central-directory view of the same bytes."""
    ex.exc_any(st.fork(), f"{ex.loc(node)} zipfile.ZipFile()")
    f = _fl(args[0]) if args else None
    zf = VExt("ZipFile", ZIP_OF(f.t)) if f is not None else VExt("ZipFile")
    st.assume(NZ(zf.t) >= 0)
    return [(st, zf)]


def m_infolist(ex, st, obj, args, kwargs, node):
    ex.exc_any(st.fork(), f"{ex.loc(node)} ZipFile.infolist")
    zf = obj.t
    st.ghost["infolist_ok"] = True
    return [(st, VSeq(NZ(zf), lambda i: VExt("ZipInfo", INFO(zf, i)), "ZipInfo", tag=("infolist", zf)))]


def m_seek2(ex, st, obj, args, kwargs, node):
    if len(args) == 2:
        st.assume(BSIZE(obj.t) >= 0)
        st.ghost[common.pos_key(obj)] = BSIZE(obj.t)
        return [(st, VInt(BSIZE(obj.t)))]
    return common.m_seek(ex, st, obj, args, kwargs, node)


_AES_SIGNAL_CACHE = {}
SHAPE_NOTES = []          # why a model had to fall back to its weakest form in this process (-> refutations are not definite)


def aes_signal(repo=None):
    """(class that _apply_decoder raises for an AES coder, dedicated?).  Found by EXECUTING the real _apply_decoder (helpers in
    place) on a coder id with the AES prefix and collecting what its own `raise` statements raise -- not by matching the text
    of its branches.  `dedicated`: a strict subclass of Bad7zFile with a single raise site in sevenzip.py, so that it
    identifies encryption.  Unrecognised -> ("Bad7zFile", False), the weakest model, and a SHAPE_NOTES entry."""
    key = repo or loader.REPO
    if key in _AES_SIGNAL_CACHE:
        return _AES_SIGNAL_CACHE[key]
    _AES_SIGNAL_CACHE[key] = ("Bad7zFile", False)          # (re-entrancy: the executor below consults aes_signal in exc_any)
    try:
        from pyvc.contracts import Registry
        from pyvc.exctypes import Universe
        from pyvc.state import Frame, State
        m = loader.module(SEVEN, repo)
        f = m.functions.get("SevenZipReader._apply_decoder")
        reg = Registry()
        install_container_models(reg)
        install_archive_models(reg)
        uni = Universe(key)
        ex = C08Executor(m, reg, uni, abstract=True, inline_calls=False, inline_local=True)
        st = State()
        cid = VExt("CoderId")
        env = {a.arg: VUnk(a.arg) for a in f.args.args}
        names = [a.arg for a in f.args.args]
        env[names[1] if len(names) > 1 else "coder_id"] = cid
        st.frames = [Frame(env, None, f)]
        st.assume(is_aes(cid.t))
        ex.cur_fn_stack.append(f)
        ex.sinks.append([])
        try:
            outs = ex.exec_block(f.body, st)
        finally:
            sink = ex.sinks.pop()
            ex.cur_fn_stack.pop()
        raised = [(o.st, o.val) for o in outs if o.kind == "raise"] + list(sink)
        own_cls = set()
        for (_s, e) in raised:
            if "site" in e.attrs or "from_callee" in e.attrs:
                continue
            own_cls.add(uni.names[e.tidx.as_long()] if z3.is_int_value(e.tidx) else None)
        returns = [o for o in outs if o.kind in ("return", "fall") and ex.feasible(o.st.pc)]
        if len(own_cls) != 1 or None in own_cls or returns:
            SHAPE_NOTES.append(f"aes_signal: _apply_decoder on an AES coder: own raises {sorted(map(str, own_cls))}, {len(returns)} normal path(s)")
            return _AES_SIGNAL_CACHE[key]
        name = own_cls.pop()
        uses = [n for n in ast.walk(m.tree) if isinstance(n, ast.Raise) and n.exc is not None and dotted(n.exc.func if isinstance(n.exc, ast.Call) else n.exc) == name]
        cls = m.classes.get(name)
        strict = cls is not None and any(ast.unparse(b) == "Bad7zFile" for b in cls.bases)
        _AES_SIGNAL_CACHE[key] = (name, bool(strict and len(uses) == 1))
    except Exception as e:  # noqa  (a pack bug or an unexpected shape must not become an alarm)
        SHAPE_NOTES.append(f"aes_signal: {type(e).__name__}: {e}")
    return _AES_SIGNAL_CACHE[key]


def _exc_any_unless_signal(ex, st, site, aes_cond):
    """EXC-ANY, except that the dedicated AES signal class (if the code has one) is raised only when an AES coder exists."""
    name, dedicated = aes_signal(ex.module.repo)
    if not dedicated or not ex.uni.known(name):
        return ex.exc_any(st, site)
    t, c = ex.uni.any_exception()
    s2 = st.fork().assume(z3.And(c, z3.Implies(ex.uni.subclass_term(t, name), aes_cond)))
    ex.raise_in(s2, VExc(t, {"site": site}))
    ex.exc_any_sites.append(site)


def new_7z(ex, st, args, kwargs, node):
    """SevenZipFile(f, 'r'): stores its arguments (the archive is parsed by __enter__)."""
    f = _fl(args[0]) if args else None
    return [(st, VExt("SevenZipFile", SZ_OF(f.t)) if f is not None else VExt("SevenZipFile"))]


def with_7z(ex, st, cm, phase):
    """SevenZipFile.__enter__ builds SevenZipReader(file): ASSUMED to raise anything; when the *encoded header* is AES-coded
    it cannot succeed -- it raises what _apply_decoder raises for an AES coder (Bad7zFile; chain _parse_end_header ->
    _parse_encoded_header -> _decompress_folder -> _apply_decoder, see the policy obligation)."""
    if phase != "enter":
        return None
    st.ghost["szf_enter_attempted"] = True
    f = st.ghost.get("the_7z_bytes")
    f = f.t if f is not None else None
    bad = st.fork()
    if f is not None:
        b2 = st.fork().assume(HDRAES(f))
        sig = aes_signal(ex.module.repo)[0]
        ex.raise_in(b2, VExc(z3.IntVal(ex.uni.index[sig if ex.uni.known(sig) else "Bad7zFile"]), {"site": "SevenZipFile.__enter__ (AES-coded header)"}))
        st.assume(z3.Not(HDRAES(f)))
        bad.assume(z3.Not(HDRAES(f)))       # HDRAES = "the parse reaches an AES coder of the encoded header": that case is the fork above
        _exc_any_unless_signal(ex, bad, "SevenZipFile.__enter__", z3.BoolVal(False))
    else:
        ex.exc_any(bad, "SevenZipFile.__enter__")
    st.ghost["szf_entered"] = True
    return [(st, cm)]


def m_7z_needs_password(ex, st, obj, args, kwargs, node):
    """SevenZipFile.needs_password(): by its verified contract, the folder-coder predicate of the opened reader."""
    st.ghost["needs_password_called"] = True
    return [(st, VBool(spec_7z_folders_enc(RV_OF(obj.t))))]


def m_7z_extractall(ex, st, obj, args, kwargs, node):
    h = getattr(ex.contract, "on_extractall", None)
    if h is not None:
        h(ex, st, obj, node)
    st.ghost["extractall_calls"] = st.ghost.get("extractall_calls", 0) + 1
    _exc_any_unless_signal(ex, st.fork(), f"{ex.loc(node)} SevenZipFile.extractall", spec_7z_folders_enc(RV_OF(obj.t)))
    return [(st, NONE)]


def install_archive_models(reg):
    reg.ext_models[("new", "zipfile.ZipFile")] = new_zipfile
    reg.method_models[("ZipFile", "namelist")] = lambda ex, st, o, a, k, n: [(st, VExt("ZipNames", NAMES(o.t)))]
    reg.method_models[("ZipFile", "infolist")] = m_infolist
    reg.method_models[("ZipInfo", "is_dir")] = lambda ex, st, o, a, k, n: [(st, VBool(ISDIR(o.t)))]
    reg.attr_models[("ZipInfo", "flag_bits")] = lambda ex, st, o: VInt(FLAG(o.t))
    reg.attr_models[("ZipInfo", "filename")] = lambda ex, st, o: VStr(FNAME(o.t))
    reg.attr_models[("ZipInfo", "file_size")] = lambda ex, st, o: VInt(z3.Int(fresh_name("file_size")))
    reg.method_models[("BytesIO", "seek")] = m_seek2
    reg.ext_models[("const", "os.SEEK_END")] = VInt(2)
    reg.ext_models[("new", "SevenZipFile")] = new_7z
    reg.ext_models[("with", "SevenZipFile")] = with_7z
    reg.method_models[("SevenZipFile", "needs_password")] = m_7z_needs_password
    reg.method_models[("SevenZipFile", "extractall")] = m_7z_extractall
    reg.method_models[("SevenZipFile", "list")] = lambda ex, st, o, a, k, n: (_exc_any_unless_signal(ex, st.fork(), "SevenZipFile.list", z3.BoolVal(False)), [(st, VUnk("file_list"))])[1]
    reg.attr_models[("Folder", "coders")] = lambda ex, st, o: VSeq(NCOD(o.t), lambda j: VTuple([VExt("CoderId", CID(o.t, j)), VUnk("props")]), "tuple",
                                                                   tag=("coders", o.t))
    reg.method_models[("CoderId", "startswith")] = m_cid_startswith
    reg.attr_models[("Folder", "unpack_sizes")] = lambda ex, st, o: VUnk("unpack_sizes")
    # os.path.basename on a str: ASSUMED total and pure
    reg.ext_models["os.path.basename"] = lambda ex, st, args, kwargs, node: [(st, VStr(z3.String(fresh_name("basename"))))]


def m_cid_startswith(ex, st, obj, args, kwargs, node):
    cb = ex.py_const(args[0]) if args and isinstance(args[0], VBytes) else None
    if not isinstance(cb, bytes):
        return [(st, VBool(z3.Bool(fresh_name("startswith"))))]
    return [(st, VBool(z3.PrefixOf(sv(cb.decode("latin-1")), BSTR(obj.t))))]


def stash_input(c):
    """requires-hook: remember the input bytes (entry value of `file_like`) in ghost state for the typestate VCs."""
    c.st.ghost["input_bytes"] = Term(c.args["file_like"].t)
    return z3.BoolVal(True)


def input_of(st):
    t = st.ghost.get("input_bytes")
    return t.t if t is not None else None


def n_yields(c):
    return c.st.ghost.get("n_yields", 0) + (1 if c.st.ghost.get("yield_count_unknown") else 0)


# ---- the encryption signal of the 7z reader travels up the call chain unchanged --------------------------------------------
def _signal(ex):
    name, dedicated = aes_signal(ex.module.repo)
    return name if dedicated and ex.uni.known(name) else None


def _verifying(c):
    """True while the clause is evaluated on the body of the function under contract (False: assumed at a call site)."""
    ec = getattr(c.ex, "entry_ctx", None)
    return ec is not None and c.args is ec.args


def signal_raises(extra_when=None):
    """Two raise clauses for a function of the chain, as seen by its callers: (1) the dedicated encryption signal,
    (2) anything else.  Which of the two produced an exception is recorded in ghost state (`signal_from_callee`)."""
    def w_signal(c):
        if _verifying(c):
            return z3.BoolVal(True)            # (on the body: which class may escape is the business of exc_ensures)
        if _signal(c.ex) is None:
            return z3.BoolVal(False)
        c.st.ghost["signal_from_callee"] = True
        c.st.ghost["last_raise_is_signal"] = True
        return extra_when(c) if extra_when is not None else z3.BoolVal(True)

    def w_other(c):
        if not _verifying(c):
            c.st.ghost["last_raise_is_signal"] = False
        return z3.BoolVal(True)
    sig = aes_signal()[0]
    return [Raises(sig, sub=True, when=w_signal, label="the encryption signal of the decoder"), Raises("Exception", sub=True, when=w_other)]


def signal_exc_ensures():
    def preserved(c):
        sg = _signal(c.ex)
        if sg is None:
            return z3.BoolVal(True)
        is_sig = c.ex.uni.subclass_term(c.exc.tidx, sg)
        if not _verifying(c):       # at a call site: the exception is the signal exactly when raise clause (1) produced it
            return is_sig == z3.BoolVal(bool(c.st.ghost.get("last_raise_is_signal")))
        c.note = "an encryption signal raised further down (AES coder) leaves this function as a different exception class"
        return z3.Implies(z3.BoolVal(bool(c.st.ghost.get("signal_from_callee"))), is_sig)

    def only_from_decoder(c):
        sg = _signal(c.ex)
        if sg is None or not _verifying(c) or "site" in c.exc.attrs:
            return z3.BoolVal(True)
        return z3.Implies(c.ex.uni.subclass_term(c.exc.tidx, sg), z3.BoolVal(bool(c.st.ghost.get("signal_from_callee")) or bool(c.exc.attrs.get("aes_branch"))))
    return [("encryption-signal-of-the-decoder-is-passed-on-unchanged", preserved), ("encryption-signal-only-from-the-decoder", only_from_decoder)]


def extractor_raises(tag):
    """Raise clauses of a format extractor as seen by read_archive: (1) the file-encrypted error, (2) anything else.  Which of
    the two produced the exception is recorded in the CALLER's ghost state (on the extractor's own body both are just `may raise`)."""
    def w_enc(c):
        if not _verifying(c):
            c.st.ghost["extractor_raised"] = (tag, True)
        return z3.BoolVal(True)

    def w_other(c):
        if not _verifying(c):
            c.st.ghost["extractor_raised"] = (tag, False)
        return z3.BoolVal(True)
    return [Raises(ENCERR, sub=True, when=w_enc, label="the file-encrypted error"), Raises("Exception", sub=True, when=w_other)]


def ran(tag, post):
    """Normal-completion clause that also records (at call sites only) that this extractor ran to completion."""
    def e(c):
        if not _verifying(c):
            c.st.ghost["extractor_completed"] = tag
        return post(c)
    return e


def archive_contracts(reg):
    out = []
    AP = [("file_like", p_ext("BytesIO")), ("archive_path", p_opt(p_str()))]

    out.append(FnContract(
        target=f"{ARCH}::_is_supported_file_cached", assumed=True, params=[("filename", p_unk())],
        result_maker=lambda ex, st, ctx: VBool(z3.Bool(fresh_name("supported"))), raises=[],
        note="lru_cache wrapper of router.is_supported_file (verified by the C07 pack: total on str, returns a bool)"))
    out.append(FnContract(
        target=f"{ARCH}::_should_skip_file", params=[("filename", p_str()), ("basename", p_str())],
        result_maker=lambda ex, st, ctx: VBool(z3.Bool(fresh_name("skip"))), raises=[], total=True,
        ensures=[("returns-a-bool", lambda c: z3.BoolVal(isinstance(c.result, VBool))),
                 ("hidden-entries-are-skipped", lambda c: z3.Implies(z3.Or(z3.PrefixOf(sv("."), c.args["basename"].t),
                                                                          z3.PrefixOf(sv("__MACOSX/"), c.args["filename"].t)), c.result.t)
                  if isinstance(c.result, VBool) and all(isinstance(c.args[k], VStr) for k in ("filename", "basename"))
                  else z3.BoolVal(not _verifying(c)))],
        note="round 7: verified here (was assumed from C09): total on str names and returns a bool -- the flag scan of the ZIP extractor "
             "cannot be left through this call before every member's flag was looked at"))
    out.append(FnContract(
        target=f"{ARCH}::_process_archive_entry", assumed=True, generator=True,
        params=[("filename", p_unk()), ("file_data", p_unk()), ("archive_path", p_unk()), ("basename", p_unk())],
        raises=[], note="verified by the C01 pack: a member failure never escapes (so it cannot reach the RuntimeError handler)"))
    # ---------------- ZIP
    def zf_of(c):
        return ZIP_OF(c.args["file_like"].t)

    def zip_inv(lc):
        zf = lc.seq.tag[1]
        j = z3.Int("j!zinv")
        g = lc.st.ghost
        return z3.And(z3.ForAll([j], z3.Implies(z3.And(j >= 0, j < lc.i), z3.Or(ISDIR(INFO(zf, j)), z3.Extract(0, 0, FLAG(INFO(zf, j))) == 0)),
                                patterns=[INFO(zf, j)]),
                      z3.BoolVal(g.get("zip_reads", 0) == 0 and g.get("n_yields", 0) == 0 and not g.get("yield_count_unknown")))

    def zip_only_if(c):
        c.note = "the file-encrypted error is raised although no member has flag bit 0 (read-time RuntimeError mapping)" if own(c) else ""
        return z3.Implies(z3.And(z3.BoolVal(own(c)), is_enc_err(c)), spec_zip_enc(zf_of(c)))

    def zip_if(c):
        g = c.st.ghost
        return z3.Implies(z3.And(z3.BoolVal(bool(g.get("infolist_ok"))), spec_zip_enc(zf_of(c))),
                          z3.And(z3.BoolVal(own(c)), is_enc_err(c), z3.BoolVal(g.get("zip_reads", 0) == 0 and n_yields(c) == 0)))

    t = f"{ARCH}::_extract_from_zip_optimized"
    cz = FnContract(
        target=t, params=AP, generator=True, modifies=("file_like",), requires=stash_input,
        ensures=[("completes-only-if-no-member-is-flagged", ran("zip", lambda c: z3.Not(spec_zip_enc(zf_of(c)))))],
        raises=extractor_raises("zip"),
        exc_ensures=[("flagged-member-implies-encrypted-error-before-any-read-or-result", zip_if),
                     ("encrypted-error-only-if-some-member-has-flag-bit-0", zip_only_if)],
        loops={},
        note="ZIP: a non-directory member with general-purpose flag bit 0 <=> file-encrypted error, before any zf.read / yield")

    def zip_on_read(ex, st, obj, node):
        ex.add_vc("typestate", "no-member-read-before-every-flag-was-checked", st.pc, z3.Not(spec_zip_enc(obj.t)), loc=ex.loc(node),
                  note=f"{ex.loc(node)} zf.read reachable while a flagged member may exist")

    def zip_on_yield(ex, st, v, node):
        zf = ZIP_OF(input_of(st)) if input_of(st) is not None else None
        ex.add_vc("typestate", "no-result-before-every-flag-was-checked", st.pc,
                  z3.Not(spec_zip_enc(zf)) if zf is not None else z3.BoolVal(False), loc=ex.loc(node))
    cz.on_zip_read, cz.on_yield = zip_on_read, zip_on_yield
    EXECUTOR_KW[t] = {"abstract": True, "inline_calls": False, "inline_local": True}
    out.append(cz)

    # ---------------- 7z extractor
    def f_of(c):
        return c.args["file_like"].t

    def rv_of(c):
        return RV_OF(SZ_OF(f_of(c)))

    def z7_req(c):
        c.st.ghost["the_7z_bytes"] = Term(f_of(c))
        return stash_input(c)

    def z7_only_if(c):
        return z3.Implies(z3.And(z3.BoolVal(own(c)), is_enc_err(c)), z3.Or(spec_7z_folders_enc(rv_of(c)), HDRAES(f_of(c))))

    def z7_if_folders(c):
        g = c.st.ghost
        return z3.Implies(z3.And(z3.BoolVal(bool(g.get("szf_entered"))), spec_7z_folders_enc(rv_of(c))),
                          z3.And(z3.BoolVal(own(c)), is_enc_err(c), z3.BoolVal(g.get("extractall_calls", 0) == 0 and n_yields(c) == 0)))

    def z7_if_header(c):
        g = c.st.ghost
        c.note = "AES-coded (encrypted) header: the reader's Bad7zFile is reported as ExtractionFailedError, not as the file-encrypted error"
        return z3.Implies(z3.And(z3.BoolVal(bool(g.get("szf_enter_attempted"))), HDRAES(f_of(c))), z3.And(z3.BoolVal(own(c)), is_enc_err(c)))

    t = f"{ARCH}::_extract_from_7z_optimized"
    c7 = FnContract(
        target=t, params=AP, generator=True, modifies=("file_like",), requires=z7_req,
        ensures=[("completes-only-if-no-aes-coder", ran("7z", lambda c: z3.Not(z3.Or(spec_7z_folders_enc(rv_of(c)), HDRAES(f_of(c))))))],
        raises=extractor_raises("7z"),
        exc_ensures=[("aes-folder-coder-implies-encrypted-error-before-extractall-or-result", z7_if_folders),
                     ("aes-coded-header-implies-encrypted-error", z7_if_header),
                     ("encrypted-error-only-if-an-aes-coder-exists", z7_only_if)],
        note="7z: some coder id with prefix 06 F1 07 <=> file-encrypted error; needs_password() checked before extractall()")

    def z7_on_extractall(ex, st, obj, node):
        ex.add_vc("typestate", "extractall-only-after-needs_password-returned-false", st.pc,
                  z3.And(z3.BoolVal(bool(st.ghost.get("needs_password_called"))), z3.Not(spec_7z_folders_enc(RV_OF(obj.t)))), loc=ex.loc(node))

    def z7_on_yield(ex, st, v, node):
        f = st.ghost.get("the_7z_bytes").t
        ex.add_vc("typestate", "no-result-before-needs_password-returned-false", st.pc,
                  z3.And(z3.BoolVal(bool(st.ghost.get("needs_password_called"))), z3.Not(spec_7z_folders_enc(RV_OF(SZ_OF(f))))), loc=ex.loc(node))
    c7.on_extractall, c7.on_yield = z7_on_extractall, z7_on_yield
    EXECUTOR_KW[t] = {"abstract": True, "inline_calls": False, "inline_local": True}
    out.append(c7)

    # ---------------- read_archive: the archive ENTRY POINT (round 7: had no contract at all)
    never_enc = ("never-rejects-as-encrypted", lambda c: z3.Not(is_enc_err(c)) if (own(c) or not _verifying(c)) else z3.BoolVal(True))
    ctar = FnContract(
        target=f"{ARCH}::_extract_from_tar_optimized", generator=True, modifies=("file_like",),
        params=[("file_like", p_ext("BytesIO")), ("archive_path", p_opt(p_str())), ("mode", p_str())],
        ensures=[("tar-completed", ran("tar", lambda c: z3.BoolVal(True)))], raises=extractor_raises("tar"),
        exc_ensures=[never_enc],
        note="TAR has no encryption: the extractor has no rejection of its own (no `raise` of the file-encrypted error; member "
             "failures never escape _process_archive_entry, C01) -- so read_archive cannot reject a TAR as encrypted")
    EXECUTOR_KW[ctar.target] = {"abstract": True, "inline_calls": False, "inline_local": False}
    out.append(ctar)
    cdet = FnContract(
        target=f"{ARCH}::_detect_archive_type_optimized", params=[("file_like", p_ext("BytesIO"))], modifies=("file_like",),
        result_maker=lambda ex, st, ctx: [(None, NONE), (None, VStr(z3.String(fresh_name("archive_type"))))], raises=[Raises("Exception", sub=True)],
        ensures=[("None-or-a-format-name", lambda c: z3.BoolVal(c.result is NONE or isinstance(c.result, VStr)))],
        exc_ensures=[never_enc],
        note="magic-number sniffing: None or a format name, or a library failure -- never the file-encrypted error (which format a "
             "container is routed to is C09's business; every format extractor has its own two-sided contract here)")
    EXECUTOR_KW[cdet.target] = {"inline_calls": False, "inline_local": False}
    out.append(cdet)

    def enc_container(c):
        f = c.args["file_like"].t
        return z3.Or(spec_zip_enc(ZIP_OF(f)), spec_7z_folders_enc(RV_OF(SZ_OF(f))), HDRAES(f))

    def ra_only_if(c):
        c.note = "read_archive raises the file-encrypted error itself, or passes one on from something that is not a format extractor"
        a = c.exc.attrs if c.exc is not None else {}
        src = str(a.get("from_callee", ""))
        if "site" in a:        # EXC-ANY of a library call / an un-contracted helper: not a `raise` this contract can see (pack convention, cf. own())
            return z3.BoolVal(True)
        from_extractor = src.endswith(("::_extract_from_zip_optimized", "::_extract_from_7z_optimized"))
        return z3.Implies(is_enc_err(c), z3.And(z3.BoolVal(from_extractor), enc_container(c)))

    def ra_passed_on(c):
        c.note = "the format extractor left with the file-encrypted error but read_archive reports something else"
        tag, was_enc = c.st.ghost.get("extractor_raised", (None, False))
        return z3.Implies(z3.BoolVal(bool(was_enc)), is_enc_err(c))

    def ra_complete(c):
        tag = c.st.ghost.get("extractor_completed")
        if tag == "zip":
            return z3.Not(spec_zip_enc(ZIP_OF(c.args["file_like"].t)))
        if tag == "7z":
            f = c.args["file_like"].t
            return z3.Not(z3.Or(spec_7z_folders_enc(RV_OF(SZ_OF(f))), HDRAES(f)))
        return z3.BoolVal(tag == "tar")

    def ra_on_yield(ex, st, v, node):
        # read_archive has no result of its own: everything it yields is delegated (`yield from`) to a format extractor
        ex.add_vc("typestate", "no-result-of-its-own-before-a-format-extractor-ran", st.pc,
                  z3.BoolVal(isinstance(node, ast.YieldFrom)), loc=ex.loc(node))
    t = f"{ARCH}::read_archive"
    cra = FnContract(
        target=t, params=[("file_like", p_ext("BytesIO")), ("path", p_opt(p_str()))], generator=True, modifies=("file_like",),
        requires=stash_input,
        ensures=[("completes-only-after-a-format-extractor-completed-on-a-container-that-is-not-encrypted", ra_complete)],
        raises=[Raises("Exception", sub=True)],
        exc_ensures=[("file-encrypted-error-of-the-format-extractor-is-passed-on-unchanged", ra_passed_on),
                     ("encrypted-error-only-from-the-zip-or-7z-extractor-on-an-encrypted-container", ra_only_if)],
        note="archive entry point: dispatches to the ZIP / 7z / TAR extractor; `except ExtractionError: raise` lets the extractor's "
             "file-encrypted error escape as such (not wrapped into ExtractionFailedError), and nothing else raises it")
    cra.on_yield = ra_on_yield
    EXECUTOR_KW[t] = {"inline_calls": False, "inline_local": True}        # exact execution: every callee has a contract; a local
    out.append(cra)                                                         # dispatch helper (handed the bytes) is executed in place

    # ---------------- sevenzip.py: needs_password / _apply_decoder
    def folders_maker():
        def mk(ex, st, name):
            rv = z3.Const(name.replace(".", "_") + "_view", RView)
            return [(NFOLD(rv) >= 0, VSeq(NFOLD(rv), lambda i: VExt("Folder", FOLDER(rv, i)), "Folder", tag=("folders", rv)))]
        return Maker(mk, desc="list[Folder] of symbolic length, each with a coder list of symbolic length")

    READER = p_obj("SevenZipReader", {"_folders": folders_maker()})

    def view(c, name="self"):
        return c.entry.obj(c.args[name].ref).data["_folders"].tag[1]

    out.append(FnContract(
        target=f"{SEVEN}::SevenZipReader.needs_password", params=[("self", READER)],
        returns=lambda c: VBool(spec_7z_folders_enc(view(c))), raises=[],
        note="needs_password <=> some folder has a coder whose id starts with 06 F1 07"))

    def szf_reader(c):
        r = c.entry.obj(c.args["self"].ref).data["_reader"]
        return None if r is NONE else c.entry.obj(r.ref).data["_folders"].tag[1]

    out.append(FnContract(
        target=f"{SEVEN}::SevenZipFile.needs_password",
        params=[("self", p_obj("SevenZipFile", {"_file": p_unk(), "_password": p_unk(), "_reader": p_opt(READER)}))],
        returns=lambda c: VBool(spec_7z_folders_enc(szf_reader(c))) if szf_reader(c) is not None else VBool(False),
        raises=[Raises("Bad7zFile", when=lambda c: z3.BoolVal(szf_reader(c) is None), label="archive not opened")],
        note="delegates to the reader opened by __enter__"))

    out.append(FnContract(
        target=f"{SEVEN}::SevenZipReader._apply_decoder",
        params=[("self", p_unk()), ("coder_id", p_ext("CoderId")), ("properties", p_unk()), ("data", p_unk()), ("unpack_sizes", p_unk())],
        ensures=[("data-returned-only-for-non-aes-coders", lambda c: z3.Not(is_aes(c.args["coder_id"].t)) if isinstance(c.args["coder_id"], VExt) else z3.BoolVal(True))],
        raises=signal_raises(lambda c: is_aes(c.args["coder_id"].t) if isinstance(c.args["coder_id"], VExt) else z3.BoolVal(True)),
        exc_ensures=[("raised-class-as-announced-to-callers", lambda c: signal_exc_ensures()[0][1](c) if not _verifying(c) else z3.BoolVal(True)),
                     ("aes-coder-raises-Bad7zFile-itself", lambda c: z3.Implies(is_aes(c.args["coder_id"].t), z3.And(
            z3.BoolVal(own(c)), c.ex.uni.subclass_term(c.exc.tidx, "Bad7zFile"))) if _verifying(c) else z3.BoolVal(True)),
                     ("dedicated-encryption-signal-only-for-aes-coders", lambda c: z3.Implies(
                         z3.And(z3.BoolVal(own(c) and aes_signal(c.ex.module.repo)[1]), c.ex.uni.subclass_term(c.exc.tidx, aes_signal(c.ex.module.repo)[0])
                                if c.ex.uni.known(aes_signal(c.ex.module.repo)[0]) else z3.BoolVal(False)), is_aes(c.args["coder_id"].t)) if _verifying(c) else z3.BoolVal(True))],
        note="an AES coder is never decoded / passed through: Bad7zFile"))
    EXECUTOR_KW[f"{SEVEN}::SevenZipReader._apply_decoder"] = {"abstract": True, "inline_calls": False, "inline_local": True}

    # _decompress_folder: the coder chain of a folder (also of the encoded header's folder) is decoded through _apply_decoder,
    # coder by coder -- data comes back only if NO coder of the folder is AES
    def folder_has_aes(fo, upto=None):
        j = z3.Int("j!dec")
        return z3.Exists([j], z3.And(j >= 0, j < (NCOD(fo) if upto is None else upto), is_aes(CID(fo, j))))

    def dec_inv(lc):
        fo = lc.seq.tag[1][1]          # reversed(folder.coders)
        j = z3.Int("j!dinv")
        n = NCOD(fo)
        # the coders already applied (the last lc.i of the chain) are not AES
        return z3.ForAll([j], z3.Implies(z3.And(j >= n - lc.i, j < n), z3.Not(is_aes(CID(fo, j)))), patterns=[CID(fo, j)])

    def dec_fwd_inv(lc):
        fo = lc.seq.tag[1]             # folder.coders in forward order
        j = z3.Int("j!dinv")
        return z3.ForAll([j], z3.Implies(z3.And(j >= 0, j < lc.i), z3.Not(is_aes(CID(fo, j)))), patterns=[CID(fo, j)])

    def folders_inv(lc):
        rv = lc.seq.tag[1]
        i_, j = z3.Int("i!finv"), z3.Int("j!finv")
        return z3.ForAll([i_, j], z3.Implies(z3.And(i_ >= 0, i_ < lc.i, j >= 0, j < NCOD(FOLDER(rv, i_))), z3.Not(is_aes(CID(FOLDER(rv, i_), j)))),
                         patterns=[CID(FOLDER(rv, i_), j)])

    LOOP_RULES.update({
        ("tuple", "reversed"): LoopSpec(inv=dec_inv, label="coder-chain"),
        ("tuple", "coders"): LoopSpec(inv=dec_fwd_inv, label="coder-chain"),
        ("Folder", "folders"): LoopSpec(inv=folders_inv, label="folders"),
        ("ZipInfo", "infolist"): LoopSpec(inv=zip_inv, label="flag-scan"),
    })

    def dec_signal_only_aes(c):
        name, dedicated = aes_signal(c.ex.module.repo)
        if not (dedicated and c.ex.uni.known(name)) or "site" in c.exc.attrs:
            return z3.BoolVal(True)
        return z3.Implies(c.ex.uni.subclass_term(c.exc.tidx, name), folder_has_aes(c.args["folder"].t))

    t = f"{SEVEN}::SevenZipReader._decompress_folder"
    out.append(FnContract(
        target=t,
        params=[("self", p_obj("SevenZipReader", {"_archive_file": p_unk()})), ("folder", p_ext("Folder")), ("pack_pos", p_unk()),
                ("pack_sizes", p_unk()), ("source_file", p_unk())],
        requires=lambda c: NCOD(c.args["folder"].t) >= 0 if isinstance(c.args["folder"], VExt) else z3.BoolVal(True), modifies=("self",),
        ensures=[("decoded-data-only-if-no-coder-of-the-folder-is-aes",
                  lambda c: z3.Not(folder_has_aes(c.args["folder"].t)) if isinstance(c.args["folder"], VExt) else z3.BoolVal(True))],
        raises=signal_raises(lambda c: folder_has_aes(c.args["folder"].t) if isinstance(c.args["folder"], VExt) else z3.BoolVal(True)),
        exc_ensures=[("encryption-signal-only-if-some-coder-is-aes", lambda c: dec_signal_only_aes(c) if _verifying(c) else z3.BoolVal(True))] + signal_exc_ensures(),
        loops={},
        note="every coder of the chain goes through _apply_decoder (contract: an AES coder never returns data)"))
    EXECUTOR_KW[t] = {"abstract": True, "inline_calls": False, "inline_local": True}

    # the way up: _parse_encoded_header -> _parse_end_header -> _parse_header -> SevenZipReader.__init__ -> SevenZipFile.__enter__
    # (an AES-coded *header* is met while the reader is being constructed).  Each link passes the decoder's encryption signal
    # on unchanged -- this is what the extractor's `except <signal>` relies on (model `with_7z`).
    READER_SELF = p_obj("SevenZipReader", {"_archive_file": p_unk(), "_stream": p_unk(), "_header_offset": p_unk()})
    chain = [("SevenZipReader._parse_encoded_header", [("self", READER_SELF)]),
             ("SevenZipReader._parse_end_header", [("self", READER_SELF)]),
             ("SevenZipReader._parse_header", [("self", READER_SELF)]),
             ("SevenZipReader.__init__", [("self", p_obj("SevenZipReader", {})), ("file", p_unk())]),
             ("SevenZipFile.__enter__", [("self", p_obj("SevenZipFile", {"_file": p_ext("BytesIO"), "_password": p_unk(), "_reader": p_const(None)}))])]
    chain_contracts = {}
    for q, params in chain:
        t = f"{SEVEN}::{q}"
        cc = FnContract(target=t, params=params, modifies=("self",), raises=signal_raises(), exc_ensures=signal_exc_ensures(),
                        result_maker=lambda ex, st, ctx: VUnk("result"),
                        note="passes the decoder's encryption signal on unchanged (and raises it for no other reason)")
        EXECUTOR_KW[t] = {"abstract": True, "inline_calls": False, "inline_local": True}
        chain_contracts[q] = cc
        out.append(cc)

    def new_reader(ex, st, args, kwargs, node):
        """SevenZipReader(file): runs __init__ -- by its contract"""
        obj = ex.new_obj(st, "SevenZipReader", {})
        st.ghost[("reader_built_from", obj.ref)] = args[0] if args else None
        return [(s_, obj) for (s_, _v) in ex.apply_contract(st, chain_contracts["SevenZipReader.__init__"], [obj] + list(args), kwargs, node)]
    reg.ext_models[("new", "SevenZipReader")] = new_reader

    # round 7: what `with SevenZipFile(f, "r") as szf` binds -- the handle itself, holding a reader that was built from ITS OWN
    # bytes (the precondition of the verified needs_password contracts; the call-site model m_7z_needs_password speaks about
    # the reader view of the bytes handed to SevenZipFile)
    def szf_enter_post(c):
        from pyvc.values import VRef
        d, d0 = _fields(c), _fields(c, at_exit=False)
        r = d.get("_reader")
        ok = (_returns_self(c) and _same_ext(d.get("_file"), d0["_file"]) and isinstance(r, VRef) and c.st.obj(r.ref).cls == "SevenZipReader"
              and _same_ext(c.st.ghost.get(("reader_built_from", r.ref)), d0["_file"]))
        return z3.BoolVal(bool(ok)) if _verifying(c) else z3.BoolVal(True)
    chain_contracts["SevenZipFile.__enter__"].ensures = [("returns-self-holding-a-reader-built-from-its-own-bytes", szf_enter_post)]
    chain_contracts["SevenZipFile.__enter__"].result_maker = None
    EXECUTOR_KW[f"{SEVEN}::SevenZipFile.__enter__"] = {"inline_calls": False, "inline_local": False}     # exact: its one callee has a contract
    return out


# ---- EPUB: encryption.xml / rights.xml ---------------------------------------
EpubCtx = ext_sort("EpubContext")
Xml = ext_sort("XmlElem")
CTX_OF = z3.Function("epub_context_of", BytesIO, EpubCtx)
CEX = z3.Function("epub_member_exists", EpubCtx, S, B)
ROOT = z3.Function("epub_xml_root", EpubCtx, S, Xml)
NED = z3.Function("xml_num_EncryptedData", Xml, I)            # EncryptedData descendants (xmlenc namespace)
EDAT = z3.Function("xml_EncryptedData", Xml, I, Xml)
HASMETHOD = z3.Function("xmlenc_has_EncryptionMethod", Xml, B)
ALGO = z3.Function("xmlenc_EncryptionMethod_Algorithm", Xml, S)
XMLENC_ED_PATH = ".//{http://www.w3.org/2001/04/xmlenc#}EncryptedData"
FONT_OBFUSCATION = ("http://www.idpf.org/2008/embedding", "http://ns.adobe.com/pdf/enc#RC")   # EPUB OCF 3 §4.4 / Adobe font mangling
ENCXML, RIGHTS = "META-INF/encryption.xml", "META-INF/rights.xml"


def font_obfuscation(ed):
    return z3.And(HASMETHOD(ed), z3.Or([ALGO(ed) == sv(a) for a in FONT_OBFUSCATION]))


def spec_epub_drm(ctx):
    """DRM-protected: a rights.xml, or an encryption.xml entry that is real encryption (font obfuscation is not: the OCF
    spec defines it as a reversible mangling of font files only; all content documents stay readable)."""
    root = ROOT(ctx, sv(ENCXML))
    j = z3.Int("j!epub")
    real = z3.Exists([j], z3.And(j >= 0, j < NED(root), z3.Not(font_obfuscation(EDAT(root, j)))))
    return z3.Or(CEX(ctx, sv(RIGHTS)), z3.And(CEX(ctx, sv(ENCXML)), real))


def m_ctx_exists(ex, st, obj, args, kwargs, node):
    a = args[0]
    return [(st, VBool(CEX(obj.t, a.t) if isinstance(a, VStr) else z3.Bool(fresh_name("exists"))))]


def m_ctx_read_xml_root(ex, st, obj, args, kwargs, node):
    bad = st.fork()
    bad.ghost["xml_unreadable"] = True
    ex.exc_any(bad, f"{ex.loc(node)} read_xml_root")
    a = args[0]
    if not isinstance(a, VStr):
        return [(st, VUnk("xml"))]
    return [(st, VExt("XmlElem", ROOT(obj.t, a.t)))]


def m_xml_findall(ex, st, obj, args, kwargs, node):
    """Element.findall(path): ASSUMED ElementTree semantics for the one path used: all EncryptedData descendants."""
    a = args[0].const() if args and isinstance(args[0], VStr) else None
    if a != XMLENC_ED_PATH:
        return ex.havoc_call(st, "Element.findall", args, node)
    st.assume(NED(obj.t) >= 0)
    return [(st, VSeq(NED(obj.t), lambda j: VExt("XmlElem", EDAT(obj.t, j)), "XmlElem", tag=("EncryptedData", obj.t)))]


XMLENC_METHOD_PATH = "{http://www.w3.org/2001/04/xmlenc#}EncryptionMethod"


def m_xml_find(ex, st, obj, args, kwargs, node):
    """EncryptedData.find('{xmlenc}EncryptionMethod'): the child element or None."""
    a = args[0].const() if args and isinstance(args[0], VStr) else None
    if a != XMLENC_METHOD_PATH:
        return ex.havoc_call(st, "Element.find", args, node)
    out = []
    if ex.feasible(st.pc, HASMETHOD(obj.t)):
        m = VExt("XmlElem")
        s1 = st.fork().assume(HASMETHOD(obj.t))
        s1.ghost[("method_of", m.t.get_id())] = Term(obj.t)
        out.append((s1, m))
    if ex.feasible(st.pc, z3.Not(HASMETHOD(obj.t))):
        out.append((st.fork().assume(z3.Not(HASMETHOD(obj.t))), NONE))
    return out


def m_xml_get(ex, st, obj, args, kwargs, node):
    a = args[0].const() if args and isinstance(args[0], VStr) else None
    ed = st.ghost.get(("method_of", obj.t.get_id()))
    if a != "Algorithm" or ed is None:
        return ex.havoc_call(st, "Element.get", args, node)
    return [(st, VStr(ALGO(ed.t)))]       # (a missing attribute would be None: treated as some non-listed string)


def epub_loop_inv(lc):
    root = lc.seq.tag[1]
    j = z3.Int("j!einv")
    return z3.ForAll([j], z3.Implies(z3.And(j >= 0, j < lc.i), font_obfuscation(EDAT(root, j))), patterns=[EDAT(root, j)])


LOOP_RULES[("XmlElem", "EncryptedData")] = LoopSpec(inv=epub_loop_inv, label="entries")


def new_epub_ctx(ex, st, args, kwargs, node):
    """_EpubContext(f): may raise anything (open_zipfile, OPF parsing).  The context view CEX / ROOT is the zipfile view of the same
    bytes -- by the VERIFIED contracts of ZipContext.__init__ / exists / read_xml_root (handle_contracts) and the inheritance
    policy P7; stated here for the two members the detector asks about."""
    ex.exc_any(st.fork(), f"{ex.loc(node)} _EpubContext()")
    f = _fl(args[0]) if args else None
    if f is not None:
        ctx, zf = CTX_OF(f.t), ZIP_OF(f.t)
        st.assume(z3.And([CEX(ctx, sv(n)) == HASM(zf, sv(n)) for n in (ENCXML, RIGHTS)] + [ROOT(ctx, sv(ENCXML)) == XROOT(MBLOB(zf, sv(ENCXML)))]))
    return [(st, VExt("EpubContext", CTX_OF(f.t)) if f is not None else VExt("EpubContext"))]


def epub_contracts(reg):
    reg.method_models[("EpubContext", "exists")] = m_ctx_exists
    reg.method_models[("EpubContext", "read_xml_root")] = m_ctx_read_xml_root
    reg.method_models[("EpubContext", "close")] = lambda ex, st, o, a, k, n: [(st, NONE)]     # ASSUMED total
    reg.method_models[("XmlElem", "findall")] = m_xml_findall
    reg.method_models[("XmlElem", "find")] = m_xml_find
    reg.method_models[("XmlElem", "get")] = m_xml_get
    reg.ext_models[("new", "_EpubContext")] = new_epub_ctx

    def readable(c):
        return z3.BoolVal(not c.st.ghost.get("xml_unreadable"))
    return [FnContract(
        target=f"{EPUB}::_is_epub_encrypted", params=[("ctx", p_ext("EpubContext"))], raises=[],
        result_maker=lambda ex, st, ctx: VBool(z3.Bool(fresh_name("epub_encrypted"))),
        loops={},
        ensures=[("drm-protected-epub-is-detected",
                  lambda c: z3.Implies(z3.And(readable(c), spec_epub_drm(_ft(c, "ctx"))), c.result.t) if _ft(c, "ctx") is not None else z3.BoolVal(True)),
                 ("true-only-if-drm-protected",
                  lambda c: z3.Implies(c.result.t, spec_epub_drm(_ft(c, "ctx"))) if _ft(c, "ctx") is not None else z3.BoolVal(True))],
        note="EPUB: rights.xml, or encryption.xml with an EncryptedData entry that is not font obfuscation")]


# ---- PDF: decrypt("") ----------------------------------------------------------
PdfR = ext_sort("PdfReader")
READER_OF = z3.Function("pdf_reader_of", BytesIO, PdfR)
PENC = z3.Function("pdf_is_encrypted", PdfR, B)
DEC = z3.Function("pdf_decrypt_empty_password_result", PdfR, I)      # 0 = neither user nor owner password


def new_pdfreader(ex, st, args, kwargs, node):
    ex.exc_any(st.fork(), f"{ex.loc(node)} PdfReader()")
    f = _fl(args[0]) if args else None
    return [(st, VExt("PdfReader", READER_OF(f.t)) if f is not None else VExt("PdfReader"))]


def m_pdf_decrypt(ex, st, obj, args, kwargs, node):
    """PdfReader.decrypt(pw): ASSUMED to raise anything or return 0 (password rejected) / 1 / 2."""
    pw = args[0].const() if args and isinstance(args[0], VStr) else None
    h = getattr(ex.contract, "on_decrypt", None)
    if h is not None:
        h(ex, st, obj, node)
    bad = st.fork()
    bad.ghost["decrypt_raised"] = True
    bad.ghost["decrypt_called_on"] = Term(obj.t) if pw == "" else None
    ex.exc_any(bad, f"{ex.loc(node)} PdfReader.decrypt")
    st.ghost["decrypt_called_on"] = Term(obj.t) if pw == "" else None
    if pw != "":
        return [(st, VInt(z3.Int(fresh_name("decrypt"))))]
    return [(st, VInt(DEC(obj.t)))]


# ASSUMED view of the document's /Encrypt dictionary as pypdf presents it (validated natively on the stored PDFs): dictionaries
# with name keys (`d[k]` / `d.get(k, default)` / `k in d`; pypdf resolves indirect references on access, get_object() of a
# resolved object is the object), numbers (int(x), comparisons) and names (str(x), == "text").
PdfObj = ext_sort("PdfObj")
TRAILER = z3.Function("pdf_trailer", PdfR, PdfObj)
PHAS = z3.Function("pdf_dict_has", PdfObj, S, B)
PGET = z3.Function("pdf_dict_get", PdfObj, S, PdfObj)
PRES = z3.Function("pdf_get_object", PdfObj, PdfObj)
PINT = z3.Function("pdf_number_value", PdfObj, I)
PNAME = z3.Function("pdf_name_text", PdfObj, S)
AES_CFMS = ("/AESV2", "/AESV3")                       # PDF 32000-1 Table 25 / PDF 2.0: crypt filter methods that decrypt with AES


def pdf_uses_aes(r):
    """The standard security handler of the document decrypts with AES (PDF 32000-1 7.6.5, as pypdf's Encryption.read
    resolves it): /V >= 4 and the crypt filter NAMED by /StmF, /StrF or /EFF (default /Identity; /EFF defaults to /StmF) --
    whatever it is called -- has /CFM /AESV2 or /AESV3 in the /CF dictionary."""
    e = PGET(TRAILER(r), sv("/Encrypt"))
    v = z3.If(PHAS(e, sv("/V")), PINT(PGET(e, sv("/V"))), z3.IntVal(0))
    cf = PGET(e, sv("/CF"))

    def named(key, default):
        return z3.If(PHAS(e, sv(key)), PNAME(PGET(e, sv(key))), default)

    def aes(n):
        f = PGET(cf, n)
        return z3.And(n != sv("/Identity"), PHAS(e, sv("/CF")), PHAS(cf, n), PHAS(f, sv("/CFM")),
                      z3.Or([PNAME(PGET(f, sv("/CFM"))) == sv(m) for m in AES_CFMS]))
    stm = named("/StmF", sv("/Identity"))
    return z3.And(v >= 4, z3.Or(aes(stm), aes(named("/StrF", sv("/Identity"))), aes(named("/EFF", stm))))


def _pobj(st, t):
    st.assume(PRES(t) == t)
    return VExt("PdfObj", t)


def _pkey(v):
    return v.t if isinstance(v, VStr) else None


def m_pdfobj_index(ex, st, obj, idx, node):
    k = _pkey(idx)
    if k is None:
        ex.exc_any(st.fork(), f"{ex.loc(node)} PdfObject[...]")
        return [(st, VExt("PdfObj"))]
    ex.exc_any(st.fork(), f"{ex.loc(node)} PdfObject[key] (resolving an indirect reference)")
    st2 = ex.fork_raise(st, z3.Not(PHAS(obj.t, k)), "KeyError")
    return [] if st2 is None else [(st2, _pobj(st2, PGET(obj.t, k)))]


def m_pdfobj_get(ex, st, obj, args, kwargs, node):
    k = _pkey(args[0]) if args else None
    if k is None or len(args) > 2 or kwargs:
        return ex.havoc_call(st, "PdfObject.get", args, node)
    ex.exc_any(st.fork(), f"{ex.loc(node)} PdfObject.get (resolving an indirect reference)")
    out = []
    a, b_ = st.fork(), st
    if ex.feasible(a.pc, PHAS(obj.t, k)):
        a.assume(PHAS(obj.t, k))
        out.append((a, _pobj(a, PGET(obj.t, k))))
    if ex.feasible(b_.pc, z3.Not(PHAS(obj.t, k))):
        b_.assume(z3.Not(PHAS(obj.t, k)))
        out.append((b_, args[1] if len(args) == 2 else NONE))
    return out


def m_pdf_pages(ex, st, obj):
    h = getattr(ex.contract, "on_pages", None)
    if h is not None:
        h(ex, st, obj)
    return VUnk("pages")


# ---- PDF: installing the built-in AES into pypdf (patch_pypdf_fallback_aes) --------------------------------
AESFB = X + "pdf/_pypdf_aes_fallback.py"
AES_PRIMS = ("aes_ecb_encrypt", "aes_ecb_decrypt", "aes_cbc_encrypt", "aes_cbc_decrypt")
# ASSUMED view of the installed pypdf (validated natively on every run, see `validate_views`): the modules that hold their
# OWN binding of the AES primitives (`from ... import aes_cbc_decrypt, ...` executed at import time) and of the one CryptAES class.
PYPDF_AES_IMPORTERS = ("pypdf._crypt_providers._fallback", "pypdf._crypt_providers", "pypdf._encryption")
FALLBACK_PROVIDER = "local_crypt_fallback"
PROVIDER = z3.String("pypdf_crypt_provider_name")
PyClass = ext_sort("PyClass")
CRYPTAES_CLASS = z3.Const("pypdf_CryptAES_class", PyClass)      # one class object, bound under the same name in every importer


def _setattr_module(ex, st, base, attr, v, node):
    st.ghost[("bind", base.name, attr)] = v
    return [st]


def _setattr_class(ex, st, base, attr, v, node):
    st.ghost[("classattr", base.t.get_id(), attr)] = v
    return [st]


PBYTE = z3.Function("message_byte", I, I)        # the bytes of the symbolic message (0..255)
PLEN = z3.Int("message_len")


def p_message():
    def mk(ex, st, name):
        j = z3.Int("j!msg")
        rng = z3.ForAll([j], z3.And(PBYTE(j) >= 0, PBYTE(j) <= 255), patterns=[PBYTE(j)])
        return [(z3.And(PLEN >= 0, rng), VSeq(PLEN, lambda i: VInt(PBYTE(i)), "byte", True, tag=("message",)))]
    return Maker(mk, desc="bytes of any length")


def pkcs7_contracts(reg):
    """PKCS#7 as used by the CryptAES wrapper (RFC 5652 6.3): pad appends p = bs - len % bs bytes of value p (1..bs, a FULL block
    when the length is a multiple of bs); unpad of a well-formed padding removes exactly those p bytes.  What unpad does with
    bytes that do NOT end in a well-formed padding (raise, or hand them back) is not prescribed here."""
    out = []
    BS = 16

    def res_view(c):
        r = c.result
        return c.ex._as_byteseq(c.st, r) if isinstance(r, (VSeq, VBytes)) else None

    def pad_post(c):
        rv = res_view(c)
        if rv is None:
            return z3.BoolVal(False)
        n, e = rv
        p = BS - PLEN % BS
        j = z3.Int("j!pad")
        return z3.And(n == PLEN + p, z3.ForAll([j], z3.Implies(z3.And(j >= 0, j < n), e(j) == z3.If(j < PLEN, PBYTE(j), p))))
    t = f"{AESFB}::_pkcs7_pad"
    out.append(FnContract(target=t, params=[("data", p_message()), ("block_size", p_const(BS))], raises=[],
                          ensures=[("data-followed-by-p-bytes-of-value-p-with-p-in-1..16", pad_post)],
                          note="p = 16 - len(data) % 16: a whole block of padding for block-aligned data"))

    def well_padded():
        p = PBYTE(PLEN - 1)
        j = z3.Int("j!wp")
        return z3.And(PLEN > 0, p >= 1, p <= BS, p <= PLEN, z3.ForAll([j], z3.Implies(z3.And(j >= PLEN - p, j < PLEN), PBYTE(j) == p), patterns=[PBYTE(j)]))

    def unpad_post(c):
        rv = res_view(c)
        if rv is None:
            return z3.BoolVal(False)
        n, e = rv
        j = z3.Int("j!unpad")
        return z3.Implies(well_padded(), z3.And(n == PLEN - PBYTE(PLEN - 1), z3.ForAll([j], z3.Implies(z3.And(j >= 0, j < n), e(j) == PBYTE(j)))))

    def unpad_prefix(c):
        rv = res_view(c)
        if rv is None:
            return z3.BoolVal(False)
        n, e = rv
        j = z3.Int("j!pre")
        return z3.And(n <= PLEN, z3.ForAll([j], z3.Implies(z3.And(j >= 0, j < n), e(j) == PBYTE(j))))
    t = f"{AESFB}::_pkcs7_unpad"
    out.append(FnContract(target=t, params=[("data", p_message()), ("block_size", p_const(BS))],
                          ensures=[("well-formed-padding-of-1..16-bytes-is-removed-exactly", unpad_post),
                                   ("result-is-a-prefix-of-the-input", unpad_prefix)],
                          raises=[Raises("ValueError", when=lambda c: z3.Not(well_padded()), label="only for bytes that do not end in a well-formed padding")],
                          note="a full padding block (16 x 0x10) is a well-formed padding"))
    return out


def aes_patch_contract(reg):
    reg.ext_models[("setattr", "mod")] = _setattr_module
    reg.ext_models[("setattr", "PyClass")] = _setattr_class
    reg.ext_models[("const", "pypdf._crypt_providers.crypt_provider")] = VTuple([VStr(PROVIDER), VUnk("provider_version")])
    for m in PYPDF_AES_IMPORTERS:
        reg.ext_models[("const", f"{m}.CryptAES")] = VExt("PyClass", CRYPTAES_CLASS)

    def bound(c, mod, name):
        return c.st.ghost.get(("bind", mod, name))

    def is_builtin_prim(v, name):
        return isinstance(v, VFunc) and v.how == "repo" and v.a == AESFB and v.b == name

    def method_uses(v, callee):
        """v is a function defined inside the patch function whose body calls the built-in `callee` (or None: any body)."""
        if not (isinstance(v, VFunc) and v.how == "closure" and isinstance(v.a, ast.FunctionDef)):
            return False
        return callee is None or any(isinstance(n, ast.Call) and dotted(n.func) == callee for n in ast.walk(v.a))

    def installed(c):
        """Every importer resolves the four primitives to the built-in AES, and its CryptAES to a class whose
        __init__/encrypt/decrypt were replaced by functions of the patch that use the built-in CBC primitives."""
        missing = []
        for mod in PYPDF_AES_IMPORTERS:
            for n in AES_PRIMS:
                if not is_builtin_prim(bound(c, mod, n), n):
                    missing.append(f"{mod}.{n}")
            cls = bound(c, mod, "CryptAES") or VExt("PyClass", CRYPTAES_CLASS)
            if not (isinstance(cls, VExt) and cls.sort == "PyClass"):
                missing.append(f"{mod}.CryptAES")
                continue
            for meth, callee in (("__init__", None), ("encrypt", "aes_cbc_encrypt"), ("decrypt", "aes_cbc_decrypt")):
                if not method_uses(c.st.ghost.get(("classattr", cls.t.get_id(), meth)), callee):
                    missing.append(f"{mod}.CryptAES.{meth}")
        c.note = ("still bound to pypdf's raising stubs after patch_pypdf_fallback_aes() returned True: " + ", ".join(missing)) if missing else ""
        return not missing

    def untouched(c):
        return not any(isinstance(k, tuple) and k and k[0] in ("bind", "classattr") for k in c.st.ghost)

    def post(c):
        r = c.result
        if not isinstance(r, VBool) or r.const() is None:
            return z3.BoolVal(False)
        if r.const():
            return z3.And(PROVIDER == sv(FALLBACK_PROVIDER), z3.BoolVal(installed(c)))
        return z3.And(PROVIDER != sv(FALLBACK_PROVIDER), z3.BoolVal(untouched(c)))

    t = f"{AESFB}::patch_pypdf_fallback_aes"
    return FnContract(
        target=t, params=[], raises=[],
        result_maker=lambda ex, st, ctx: (st.ghost.__setitem__("aes_ensured", True), VBool(z3.Bool(fresh_name("patched"))))[1],
        ensures=[("true-iff-fallback-provider-and-then-every-importer-of-the-aes-names-is-rebound",
                  lambda c: post(c) if isinstance(c.result, VBool) and c.result.const() is not None else z3.BoolVal(True))],
        note="returns True exactly on pypdf's fallback provider, and then aes_{ecb,cbc}_{encrypt,decrypt} and CryptAES resolve to the "
             "built-in AES in EVERY pypdf module that bound them at import time (incl. pypdf._encryption, which does the password check)")


def pdf_contracts(reg):
    for k in ("pypdf.PdfReader", "PdfReader"):
        reg.ext_models[("new", k)] = new_pdfreader
    reg.attr_models[("PdfReader", "is_encrypted")] = lambda ex, st, o: VBool(PENC(o.t))
    reg.attr_models[("PdfReader", "pages")] = m_pdf_pages
    reg.method_models[("PdfReader", "decrypt")] = m_pdf_decrypt
    reg.attr_models[("PdfReader", "trailer")] = lambda ex, st, o: _pobj(st, TRAILER(o.t))
    reg.method_models[("PdfObj", "get")] = m_pdfobj_get
    reg.method_models[("PdfObj", "get_object")] = lambda ex, st, o, a, k, n: [(st, VExt("PdfObj", PRES(o.t)))]
    out = []
    out.append(aes_patch_contract(reg))
    out += pkcs7_contracts(reg)
    t = f"{PDF}::_open_pdf_reader"
    out.append(FnContract(
        target=t, params=[("file_like", p_ext("BytesIO"))], modifies=("file_like",),
        returns=lambda c: (c.st.ghost.__setitem__("reader_opened", True), VExt("PdfReader", READER_OF(_ft(c))) if _ft(c) is not None else VExt("PdfReader"))[1],
        raises=[Raises("Exception", sub=True)],
        note="a reader over the given bytes (retry with the built-in AES after a DependencyError)"))
    EXECUTOR_KW[t] = {"abstract": True, "inline_calls": False, "inline_local": True}

    def R(c):
        return READER_OF(c.args["file_like"].t)

    def needs_pw(c):
        return z3.And(PENC(R(c)), DEC(R(c)) == 0)

    def same_reader(st, r):
        d = st.ghost.get("decrypt_called_on")
        return d is not None and d.t.eq(r)

    def pdf_only_if(c):
        g = c.st.ghost
        return z3.Implies(z3.And(z3.BoolVal(own(c)), is_enc_err(c)),
                          z3.And(PENC(R(c)), z3.BoolVal(same_reader(c.st, R(c))), z3.Or(DEC(R(c)) == 0, z3.BoolVal(bool(g.get("decrypt_raised"))))))

    def pdf_if(c):
        return z3.Implies(z3.And(z3.BoolVal(bool(c.st.ghost.get("reader_opened"))), needs_pw(c)),
                          z3.And(z3.BoolVal(own(c)), is_enc_err(c), z3.BoolVal(n_yields(c) == 0)))

    t = f"{PDF}::read_pdf"
    cp = FnContract(
        target=t, params=[("file_like", p_ext("BytesIO")), ("path", p_opt(p_str()))], generator=True, modifies=("file_like",),
        requires=stash_input,
        ensures=[("completes-only-if-empty-password-opens-it", lambda c: z3.Not(needs_pw(c)))],
        raises=[Raises("Exception", sub=True)],
        exc_ensures=[("password-needed-implies-encrypted-error-before-any-result", pdf_if),
                     ("encrypted-error-only-if-encrypted-and-empty-password-rejected", pdf_only_if)],
        note="PDF: is_encrypted and decrypt('') == 0 (or decrypt fails) <=> file-encrypted error; pages come from the same reader")

    def checked(ex, st, r):
        return z3.And(z3.Not(z3.And(PENC(r), DEC(r) == 0)), z3.Implies(PENC(r), z3.BoolVal(same_reader(st, r) and not st.ghost.get("decrypt_raised"))))

    def pdf_on_yield(ex, st, v, node):
        f = input_of(st)
        ex.add_vc("typestate", "no-result-before-the-decrypt-check", st.pc,
                  checked(ex, st, READER_OF(f)) if f is not None else z3.BoolVal(False), loc=ex.loc(node))

    def pdf_on_pages(ex, st, obj):
        f = input_of(st)
        ok = f is not None and obj.t.eq(READER_OF(f))
        ex.add_vc("dataflow", "pages-are-read-from-the-reader-that-passed-the-decrypt-check", st.pc,
                  z3.And(z3.BoolVal(ok), checked(ex, st, obj.t)) if ok else z3.BoolVal(False))
    def pdf_on_decrypt(ex, st, obj, node):
        # AES-128 files pass the constructor without AES: the built-in AES must have been installed on every path to decrypt()
        # ... unless the /Encrypt dictionary says that the document does not decrypt with AES (pdf_uses_aes: by the NAMED filters)
        ex.add_vc("typestate", "aes-provider-ensured-before-decrypt", st.pc,
                  z3.Or(z3.BoolVal(bool(st.ghost.get("aes_ensured"))), z3.Not(pdf_uses_aes(obj.t))), loc=ex.loc(node),
                  note=f"{ex.loc(node)} reader.decrypt reachable without patch_pypdf_fallback_aes() having been called although the document may name an AES crypt filter")
    cp.on_yield, cp.on_pages, cp.on_decrypt = pdf_on_yield, pdf_on_pages, pdf_on_decrypt
    EXECUTOR_KW[t] = {"abstract": True, "inline_calls": False, "inline_local": True, "merge_after_check": True}
    out.append(cp)
    return out


# ---- typestate: detector first, True => encrypted error, before any result ------
MSM = X + "ms_modern/"
MSL = X + "ms_legacy/"
OO = X + "open_office/"
EXTRACTORS = [   # (file, generator, detector contract target, spec over the input bytes)
    (MSM + "docx_extractor.py", "read_docx", f"{ENC}::is_ooxml_encrypted", spec_ooxml),
    (MSM + "pptx_extractor.py", "read_pptx", f"{ENC}::is_ooxml_encrypted", spec_ooxml),
    (MSM + "xlsx_extractor.py", "read_xlsx", f"{ENC}::is_ooxml_encrypted", spec_ooxml),
    (MSL + "xls_extractor.py", "read_xls", f"{ENC}::is_xls_encrypted", spec_xls),
    (MSL + "ppt_extractor.py", "read_ppt", f"{ENC}::is_ppt_encrypted", spec_ppt),
    (OO + "odt_extractor.py", "read_odt", f"{ENC}::is_odf_encrypted", spec_odf),
    (OO + "ods_extractor.py", "read_ods", f"{ENC}::is_odf_encrypted", spec_odf),
    (OO + "odp_extractor.py", "read_odp", f"{ENC}::is_odf_encrypted", spec_odf),
    (OO + "odg_extractor.py", "read_odg", f"{ENC}::is_odf_encrypted", spec_odf),
    (OO + "odf_extractor.py", "read_odf", f"{ENC}::is_odf_encrypted", spec_odf),
    (EPUB, "read_epub", f"{EPUB}::_is_epub_encrypted", lambda f: spec_epub_drm(CTX_OF(f))),
]


def detector_arg(det, f):
    """The object the detector must have been asked about, for input bytes f."""
    return CTX_OF(f) if det.endswith("_is_epub_encrypted") else f


def detector_done(st, det, f):
    return f is not None and Term(detector_arg(det, f)) in st.ghost.get("detector_returned_on", frozenset())


def mark_detector(c):
    """Ghost: the detector has returned a result for this object (set at call sites through returns / result_maker)."""
    v = next(iter(c.args.values()), None)
    if isinstance(v, VExt):
        c.st.ghost["detector_returned_on"] = c.st.ghost.get("detector_returned_on", frozenset()) | {Term(v.t)}
    return z3.BoolVal(True)


def typestate_contracts(reg, detectors):
    out = []
    for d in detectors:
        if d.target.split("::")[0] in (ENC, EPUB) and "encrypted" in d.target and "_has_ole" not in d.target:
            if d.returns is not None:
                d.returns = (lambda r: (lambda c: (mark_detector(c), r(c))[1]))(d.returns)
            else:
                d.result_maker = (lambda r: (lambda ex, st, ctx: (mark_detector(ctx), r(ex, st, ctx))[1]))(d.result_maker)
    for (rel, fn, det, spec) in EXTRACTORS:
        def mk(rel=rel, fn=fn, spec=spec, det=det):
            def sp(c):
                return spec(c.args["file_like"].t)

            def ret(c):
                return z3.BoolVal(detector_done(c.st, det, c.args["file_like"].t))

            def on_yield(ex, st, v, node):
                f = input_of(st)
                ex.add_vc("typestate", "no-result-before-the-detector-said-not-encrypted", st.pc,
                          z3.And(z3.BoolVal(detector_done(st, det, f)), z3.Not(spec(f))) if f is not None else z3.BoolVal(False),
                          loc=ex.loc(node), note=f"{ex.loc(node)} yield reachable without a negative detector result")
            c = FnContract(
                target=f"{rel}::{fn}", params=[("file_like", p_ext("BytesIO")), ("path", p_opt(p_str()))], generator=True,
                modifies=("file_like",), requires=stash_input,
                ensures=[("completes-only-if-not-encrypted", lambda c: z3.And(ret(c), z3.Not(sp(c))))],
                raises=[Raises("Exception", sub=True)],
                exc_ensures=[("detector-true-implies-encrypted-error-before-any-result",
                              lambda c: z3.Implies(z3.And(ret(c), sp(c)), z3.And(z3.BoolVal(own(c)), is_enc_err(c), z3.BoolVal(n_yields(c) == 0)))),
                             ("encrypted-error-only-if-detector-true",
                              lambda c: z3.Implies(z3.And(z3.BoolVal(own(c)), is_enc_err(c)), z3.And(ret(c), sp(c))))],
                note="every path to the first yield passes the detector; a True result raises the file-encrypted error")
            c.on_yield = on_yield
            EXECUTOR_KW[c.target] = {"abstract": True, "inline_calls": False, "inline_local": True, "merge_after_check": True}
            return c
        out.append(mk())
    return out


# ---- entry point read_file: the extractor's file-encrypted error is passed through unchanged -------------
def readfile_contracts(reg):
    readfile.install(reg)
    common.install_clock(reg)
    out = []
    from contracts import C07
    for c in C07.contracts(reg):
        if c.target.startswith(C07.ROUTER):
            c.assumed = True
            c.note = "verified by the C07 pack"
            out.append(c)

    def not_wrapped(c):
        cause = c.exc.attrs.get("cause") if c.exc is not None else None
        if own(c) and isinstance(cause, VExc):
            return z3.Not(c.ex.uni.subclass_term(cause.tidx, ENCERR))
        return z3.BoolVal(True)

    t = f"{readfile.INIT}::read_file"
    from pyvc.verify import p_int
    out.append(FnContract(
        target=t, params=[("path", p_str()), ("max_file_size", p_int(default=100 * 1024 * 1024))], generator=True,
        raises=[Raises("Exception", sub=True)],
        exc_ensures=[("file-encrypted-error-of-the-extractor-is-never-wrapped", not_wrapped)],
        note="entry point: `except ExtractionError: raise` lets the extractor's ExtractionFileEncryptedError escape as such"))
    EXECUTOR_KW[t] = {"abstract": True, "inline_calls": False, "inline_local": True}
    return out


def contracts(reg):
    install_container_models(reg)
    install_archive_models(reg)
    out = []
    out += detector_contracts(reg)
    out += doc_contracts(reg)
    out += handle_contracts(reg)
    out += archive_contracts(reg)
    out += epub_contracts(reg)
    out += pdf_contracts(reg)
    out += typestate_contracts(reg, out)
    out += readfile_contracts(reg)
    return out


# ------------------------------------------------------------------ policy --
def _canon(mod, call):
    d = dotted(call.func)
    if not d:
        return ""
    head, _, rest = d.partition(".")
    origin = mod.imports.get(head)
    return (origin + ("." + rest if rest else "")) if origin else d


class _ReturnFacts(MustFacts):
    """MustFacts that also records the facts holding at every `return` of the analysed function."""

    def run(self, fnode, entry_facts=()):
        self.results, self.at_return = [], []
        end = self.block(fnode.body, frozenset(entry_facts))
        if end is not None:
            self.at_return.append(end)          # falling off the end
        return self.results

    def stmt(self, s, facts):
        if isinstance(s, ast.Return):
            self.at_return.append(self._expr(s.value, facts))
            return None
        return super().stmt(s, facts)


def _surely_parses(m, call, depth=0, seen=()):
    """The call is the parse itself (`<reader>.read()`), or a call of a helper of the same module (plain name or method) that
    performs the parse on EVERY path on which it returns (summary computed on the helper's real AST; two levels)."""
    if isinstance(call.func, ast.Attribute) and call.func.attr == "read":
        return True
    if depth >= 2:
        return False
    if isinstance(call.func, ast.Name):
        name = call.func.id
        fnode = m.functions.get(name)
    elif isinstance(call.func, ast.Attribute) and isinstance(call.func.value, ast.Name) and call.func.value.id in ("self", "cls"):
        name = call.func.attr
        fnode = next((f_ for q_, f_ in m.functions.items() if q_.endswith("." + name) and "<locals>" not in q_), None)
    else:
        return False
    if fnode is None or name in seen or any(isinstance(n, (ast.Yield, ast.YieldFrom)) for n in ast.walk(fnode)):
        return False
    rf = _ReturnFacts(gen=lambda c_: ["parsed"] if _surely_parses(m, c_, depth + 1, seen + (name,)) else [])
    rf.run(fnode)
    return all("parsed" in fs for fs in rf.at_return)


def policy(repo, tier):
    obls, fns = [], []
    # P2: read_doc: the parse (doc.read()) dominates the yield; the reader is fresh (constructed in read_doc, _content None in __init__)
    m = loader.module(DOC, repo)
    f = m.functions.get("read_doc")
    init = m.functions.get("_DocReader.__init__")
    ok, why = False, "read_doc / _DocReader.__init__ missing"
    if f is not None and init is not None:
        mf = MustFacts(gen=lambda call: ["parsed"] if _surely_parses(m, call) else [],
                       need=lambda n: [("parsed", f"line {n.lineno}")] if isinstance(n, (ast.Yield, ast.YieldFrom)) else [])
        res = mf.run(f)
        fresh = any(isinstance(n, ast.With) and any(isinstance(i.context_expr, ast.Call) and dotted(i.context_expr.func) == "_DocReader" for i in n.items)
                    for n in ast.walk(f))
        none_init = any(isinstance(n, (ast.Assign, ast.AnnAssign)) and ast.unparse(n.targets[0] if isinstance(n, ast.Assign) else n.target) == "self._content"
                        and isinstance(n.value, ast.Constant) and n.value.value is None for n in ast.walk(init))
        ok = bool(res) and all(r.ok for r in res) and fresh and none_init
        why = f"{len(res)} yield(s); parse dominates={all(r.ok for r in res)}; fresh reader={fresh}; __init__ sets _content=None: {none_init}"
    obls.append(ground_obligation("C08/doc_extractor.py::read_doc/policy#parse-of-a-fresh-reader-dominates-the-yield", ok, why, DOC, definite=False))
    # P5: entry point "attachments of an e-mail": the file-encrypted error of an attachment's extractor is passed on, not
    #     swallowed by the per-attachment `except Exception` (handler order on the real AST)
    DT = X + "data_types.py"
    m = loader.module(DT, repo)
    f = m.functions.get("EmailContent.iterate_supported_attachments")
    oid = "C08/data_types.py::EmailContent.iterate_supported_attachments/policy#encrypted-error-of-an-attachment-is-passed-on"
    if f is None:
        obls.append(ground_obligation(oid, False, "function missing", DT, definite=False))
    else:
        tries = [t for t in ast.walk(f) if isinstance(t, ast.Try) and any(isinstance(n, (ast.Yield, ast.YieldFrom)) for b in t.body for n in ast.walk(b))]
        if len(tries) != 1:
            obls.append(ground_obligation(oid, False, f"{len(tries)} try statements around the extractor call: shape not recognised", DT, definite=False))
        else:
            from pyvc.exctypes import Universe
            uni_ = Universe(repo or loader.REPO)
            verdict, why, swallows = None, "no handler catches the error: it propagates", False
            for h in tries[0].handlers:
                names = [ast.unparse(e).split(".")[-1] for e in (h.type.elts if isinstance(h.type, ast.Tuple) else [h.type])] if h.type is not None else ["BaseException"]
                if any(uni_.known(n) and uni_.is_subclass(ENCERR, n) for n in names):
                    last = h.body[-1] if h.body else None
                    passes = isinstance(last, ast.Raise) and (last.exc is None or ENCERR in ast.unparse(last.exc) or (h.name and ast.unparse(last.exc) == h.name)) \
                        and not any(isinstance(n, (ast.Return, ast.Continue, ast.Break, ast.Try)) for b in h.body for n in ast.walk(b))
                    swallows = not any(isinstance(n, ast.Raise) for b in h.body for n in ast.walk(b))
                    verdict, why = passes, f"first matching handler `except {', '.join(names)}` at line {h.lineno} " + ("re-raises" if passes else "does not re-raise it")
                    break
            outer = [t for t in ast.walk(f) if isinstance(t, ast.Try) and t is not tries[0] and any(n is tries[0] for n in ast.walk(t)) and t.handlers]
            if outer:
                obls.append(ground_obligation(oid, False, "enclosing try with handlers: shape not recognised", DT, definite=False))
            else:
                # definite only when the first matching handler has no `raise` at all (it visibly swallows the error);
                # any other unrecognised shape is left to the native replayer (protected attachments)
                obls.append(ground_obligation(oid, verdict is not False, why, DT, definite=bool(verdict is False and swallows)))
        fns.append(dict(m.fn_info("EmailContent.iterate_supported_attachments"), obligations=1))
    # P6: the pypdf reader is constructed WITHOUT a password (ASSUMED pypdf view, validated natively: a constructor that is
    #     handed a password explicitly raises WrongPasswordError when it does not open the file, so a file that needs a real
    #     password never reaches the `decrypt("") == 0 -> file-encrypted error` mapping of read_pdf).  Shape rule: other
    #     shapes (a password expression, **kwargs, a handler mapping WrongPasswordError) are `unknown` -> native PDF pairs decide.
    oid = "C08/pdf_extractor.py::PdfReader-constructions/policy#password-is-left-to-the-decrypt-check"
    try:
        m = loader.module(PDF, repo)
        sites, odd = [], []
        for n in ast.walk(m.tree):
            if isinstance(n, ast.Call) and _canon(m, n).split(".")[-1] == "PdfReader" and _canon(m, n).split(".")[0] in ("pypdf", "PdfReader"):
                sites.append(n.lineno)
                pw = [k.value for k in n.keywords if k.arg == "password"] + list(n.args[2:3])
                if any(k.arg is None for k in n.keywords) or any(isinstance(a, ast.Starred) for a in n.args) \
                        or any(not (isinstance(v, ast.Constant) and v.value is None) for v in pw):
                    odd.append(n.lineno)
        ok = bool(sites) and not odd
        why = f"PdfReader constructed at line(s) {sites}" + (f"; explicit password / unrecognised arguments at line(s) {odd}" if odd else ", never with a password") \
            if sites else "no PdfReader construction found (shape not recognised)"
    except Exception as e:  # noqa
        ok, why = False, f"shape not recognised: {type(e).__name__}"
    obls.append(ground_obligation(oid, ok, why, PDF, definite=False))
    # P7 (round 7): frame of the ZipContext class invariant.  The contracts of ZipContext.exists / read_xml_root / close are
    #     verified for an instance in the invariant that ZipContext.__init__ establishes (verified).  _EpubContext inherits them:
    #     it must construct through super().__init__(file_like) first, must not override the three methods and nothing but
    #     ZipContext.__init__ may rebind self._zip / self._namelist (AST rule; other shapes -> unknown, the native sweep decides).
    oid = "C08/epub_extractor.py::_EpubContext/policy#inherits-the-verified-ZipContext-view-unchanged"
    try:
        ZC = X + "util/zip_context.py"
        me, mz = loader.module(EPUB, repo), loader.module(ZC, repo)
        cls = me.classes.get("_EpubContext")
        bases = [ast.unparse(b).split(".")[-1] for b in cls.bases] if cls is not None else []
        init = me.functions.get("_EpubContext.__init__")
        first = init.body[0] if init is not None and init.body else None
        if first is not None and isinstance(first, ast.Expr) and isinstance(first.value, ast.Constant):      # docstring
            first = init.body[1] if len(init.body) > 1 else None
        arg1 = init.args.args[1].arg if init is not None and len(init.args.args) > 1 else None
        super_first = first is not None and ast.unparse(first).replace(" ", "") in (f"super().__init__({arg1})", f"ZipContext.__init__(self,{arg1})")
        overridden = [q for q in me.functions if q in ("_EpubContext.exists", "_EpubContext.read_xml_root", "_EpubContext.close")]
        rebinds = []
        for mod_ in (me, mz):
            for q, fn in mod_.functions.items():
                if q == "ZipContext.__init__" and mod_ is mz:
                    continue
                for n in ast.walk(fn):
                    tg = (n.targets if isinstance(n, ast.Assign) else [n.target] if isinstance(n, (ast.AnnAssign, ast.AugAssign)) else
                          n.targets if isinstance(n, ast.Delete) else [])
                    for t_ in tg:
                        for leaf in ast.walk(t_):
                            if isinstance(leaf, ast.Attribute) and leaf.attr in ("_zip", "_namelist"):
                                rebinds.append(f"{q}:{n.lineno}")
        ok = bases == ["ZipContext"] and super_first and not overridden and not rebinds
        why = (f"bases={bases}; super().__init__({arg1}) first: {super_first}; overrides: {overridden or 'none'}; "
               f"rebinding of _zip/_namelist outside ZipContext.__init__: {rebinds or 'none'}")
    except Exception as e:  # noqa
        ok, why = False, f"shape not recognised: {type(e).__name__}"
    obls.append(ground_obligation(oid, ok, why, EPUB, definite=False))
    return {"obligations": obls, "functions": fns}


def view_validation(repo, tier):
    """BOUNDED / validation only (never counted as discharged): the ASSUMED library views are compared with the installed
    libraries by replay/C08.py::validate_views under /venv/bin/python.  A disagreement means a contract model is stale:
    UNDECIDED (definite=False), not a violation of the library under test."""
    import json
    import os
    import subprocess
    root = os.path.dirname(os.path.dirname(os.path.abspath(__file__)))
    try:
        p = subprocess.run(["/venv/bin/python", os.path.join(root, "replay", "run.py")], input=json.dumps({"property": "C08", "validate_views": True, "repo": repo}),
                           capture_output=True, text=True, timeout=1800, env=dict(os.environ, VERIF_REPO=repo))      # (guards a hang only; load-independent verdict)
        facts = json.loads([l for l in p.stdout.splitlines() if l.startswith("{")][-1]).get("facts", [])
    except Exception as e:  # noqa
        facts = [{"fact": "validator-ran", "ok": False, "detail": str(e)[:200]}]
    obls = []
    for f in facts:
        o = ground_obligation(f"C08/assumed-views::{f['fact']}/validation#agrees-with-the-installed-library", f["ok"], f["detail"], "replay/C08.py",
                              kind="validation", backend="native", definite=False)
        o["bounded"] = True
        if f["ok"]:
            o["status"] = "bounded-ok"
        obls.append(o)
    return {"obligations": obls, "functions": []}


def native_sweep(repo, tier):
    """BOUNDED (never counted as discharged): the native replayer's whole input grammar is run against the real code on
    every check, whatever the deductive obligations say -- written compound files (every marker as stream / storage / other
    spelling), ZIP flag bits per member, BIFF chains, ODF manifests, 7z coder chains incl. encrypted headers, EPUB
    encryption.xml / rights.xml, stored RC4 / AES PDFs (incl. block-aligned streams) read in fresh processes, CryptAES round
    trips for every length 0..49, protected fixtures through every entry point.  A deviation is a reproduced failing input."""
    import json
    import os
    import subprocess
    root = os.path.dirname(os.path.dirname(os.path.abspath(__file__)))
    oid = "C08/native::sweep/bounded#encrypted-rejected-before-any-result-and-plain-never-rejected"
    try:
        p = subprocess.run(["/venv/bin/python", os.path.join(root, "replay", "run.py")], input=json.dumps({"property": "C08", "obligation": oid, "repo": repo}),
                           capture_output=True, text=True, timeout=2400, env=dict(os.environ, VERIF_REPO=repo))
        res = json.loads([l for l in p.stdout.splitlines() if l.startswith("{")][-1])
    except Exception as e:  # noqa
        res = {"reproduced": False, "note": "sweep did not run: " + str(e)[:200], "failed_to_run": True}
    if res.get("reproduced"):
        o = ground_obligation(oid, False, f"{res.get('target')}: inputs {json.dumps(res.get('inputs'), default=str)[:300]} expected {res.get('expected')} "
                              f"observed {str(res.get('observed'))[:200]}", "replay/C08.py", kind="bounded", backend="native")
    else:
        o = ground_obligation(oid, not res.get("failed_to_run") and "crashed" not in str(res.get("note", "")), str(res.get("note", ""))[:300],
                              "replay/C08.py", kind="bounded", backend="native", definite=False)
        if o["status"] == "proved":
            o["status"] = "bounded-ok"
    o["bounded"] = True
    return {"obligations": [o], "functions": []}


EXTRA = [policy, view_validation, native_sweep]


def post_report(c, rep):
    """A refuted VC is a counterexample only if the path it lies on is exact.  Functions executed in abstract mode (un-contracted
    callees / unsupported expressions havocked, EXC-ANY), with a loop cut without invariant, with merged states, or with a model
    that fell back to its weakest form (SHAPE_NOTES) over-approximate the code: their refutations become `unknown`, and
    REPLAY_UNKNOWN hands them to the native replayer -- a reproduced failing input makes a VIOLATION, nothing else does."""
    kw = EXECUTOR_KW.get(c.target) or {}
    why = []
    if kw.get("abstract"):
        why.append("abstract execution (EXC-ANY / havocked callees)")
    why += sorted(set(getattr(c, "_imprecise", [])))[:3]
    if getattr(rep, "abstracted", None):
        why.append("abstracted expression: " + str(rep.abstracted[0])[:80])
    why += [n[:120] for n in SHAPE_NOTES[:2]]
    if not why:
        return
    for o in rep.obligations:
        if o.get("status") == "refuted":
            o["status"] = "unknown"
            o["reason"] = ("refuted on an over-approximated path (" + "; ".join(why) + "): not a definite counterexample. " + (o.get("reason") or ""))[:600]


def bounded_chain_check():
    """BOUNDED cross-check of the recursive spec FP against the explicit chain o_0=0, o_{k+1}=o_k+4+len16(o_k):
    for streams shorter than 16 bytes (at most 3 records) FP(0) <=> exists k<=3 with o_k+4<=|d| and id16(o_k)=0x2F."""
    ole, nm = z3.Const("ole!b", OleFile), sv("Workbook")
    n = SLEN(ole, nm)
    bytes_ok = [z3.And(SBYTE(ole, nm, z3.IntVal(i)) >= 0, SBYTE(ole, nm, z3.IntVal(i)) <= 255) for i in range(16)]
    pos = [z3.IntVal(0)]
    for _ in range(4):
        pos.append(pos[-1] + 4 + u16(ole, nm, pos[-1] + 2))
    valid = [z3.And([p + 4 <= n for p in pos[:k + 1]]) for k in range(5)]
    explicit = z3.Or([z3.And(valid[k], z3.And([u16(ole, nm, pos[j]) != FILEPASS for j in range(k)]), u16(ole, nm, pos[k]) == FILEPASS) for k in range(5)])
    return ("C08/encryption.py::spec/bounded#FP-equals-explicit-chain-up-to-16-bytes", [n >= 0, n < 16] + bytes_ok, FP(ole, nm, z3.IntVal(0)) == explicit)


# ---- round 7: the recursive spec FP equals the explicit record chain, for streams of EVERY length (induction lemmas) --------
# Explicit chain (the property's "FILEPASS at any record position"):  POS(0) = 0, POS(k+1) = POS(k) + 4 + len16(POS(k));
# CLEAN(k) := the records 0..k-1 exist (4-byte header inside the stream) and none of them is FILEPASS;
# HIT(k)   := CLEAN(k) and record k exists and is FILEPASS.          Claim:  FP(0)  <=>  exists k >= 0. HIT(k).
# The solver discharges base and step of each induction below at a symbolic k (definitions given as ground instances; the
# induction principle itself is the proof rule, as for loop invariants):
#   A  (invariant)  CLEAN(k) => FP(0) == FP(POS(k))                          base k = 0, step k -> k+1
#   =>  (soundness)  HIT(k) => FP(0)                                          from A at k + one unfolding of FP
#   P  (progress)    POS(k) >= 4k                                             base, step (needs len16 >= 0: bytes are 0..255)
#   <=  (completeness) CLEAN(k) and record k does not exist => not FP(0)     from A at k + one unfolding; together with
#       "CLEAN(k) and record k exists and is not FILEPASS => CLEAN(k+1)" (definition) and P (record k cannot exist for
#       4k + 4 > |d|) a chain without a HIT ends in this case after at most |d|/4 + 1 records.
def chain_lemmas():
    ole, nm, k = z3.Const("ole!L", OleFile), z3.String("name!L"), z3.Int("k!L")
    POS = z3.Function("chain_pos", I, I)
    CLEAN = z3.Function("chain_clean_before", I, B)
    n = SLEN(ole, nm)
    fp0 = FP(ole, nm, z3.IntVal(0))

    def rec_id(p):
        return u16(ole, nm, p)

    def rec_len(p):
        return u16(ole, nm, p + 2)

    def unfold(p):      # one-step unfolding of the recursive spec at position p (its definition, as a ground instance)
        return FP(ole, nm, p) == z3.If(p + 4 > n, z3.BoolVal(False), z3.If(rec_id(p) == FILEPASS, z3.BoolVal(True), FP(ole, nm, p + 4 + rec_len(p))))

    def exists_(j):
        return POS(j) + 4 <= n

    defs = [POS(0) == 0, POS(k + 1) == POS(k) + 4 + rec_len(POS(k)), CLEAN(0),
            CLEAN(k + 1) == z3.And(CLEAN(k), exists_(k), rec_id(POS(k)) != FILEPASS)]
    inv_k = z3.Implies(CLEAN(k), fp0 == FP(ole, nm, POS(k)))
    byte_ok = [z3.And(SBYTE(ole, nm, POS(k) + d) >= 0, SBYTE(ole, nm, POS(k) + d) <= 255) for d in (2, 3)]
    pre = "C08/encryption.py::spec/lemma#FP-equals-explicit-chain"
    return [
        (pre + "/A-base", defs, z3.Implies(CLEAN(0), fp0 == FP(ole, nm, POS(0)))),
        (pre + "/A-step", defs + [k >= 0, inv_k, unfold(POS(k))], z3.Implies(CLEAN(k + 1), fp0 == FP(ole, nm, POS(k + 1)))),
        (pre + "/soundness-hit-implies-FP", defs + [k >= 0, inv_k, unfold(POS(k)), CLEAN(k), exists_(k), rec_id(POS(k)) == FILEPASS], fp0),
        (pre + "/completeness-chain-end-without-hit-implies-not-FP", defs + [k >= 0, inv_k, unfold(POS(k)), CLEAN(k), z3.Not(exists_(k))], z3.Not(fp0)),
        (pre + "/completeness-no-hit-extends-clean", defs + [k >= 0, CLEAN(k), exists_(k), rec_id(POS(k)) != FILEPASS], CLEAN(k + 1)),
        (pre + "/progress-base", defs, POS(0) >= 0),
        (pre + "/progress-step", defs + [k >= 0, POS(k) >= 4 * k] + byte_ok, POS(k + 1) >= 4 * (k + 1)),
        (pre + "/progress-bounds-the-chain", defs + [k >= 0, POS(k) >= 4 * k, n >= 0, 4 * k + 4 > n], z3.Not(exists_(k))),
    ]


def lemmas():
    try:
        return chain_lemmas()
    except Exception:  # noqa  (never let an exception escape a pack callable)
        return []


def known_findings(kf, violations, repo, tier):
    """Recorded genuine defects (known_findings.json): replay each witness natively against `repo`; a finding that still
    fails prints KNOWN-FINDING and covers exactly its own obligation id."""
    import json
    import os
    import subprocess
    out = []
    vio_ids = {v["id"] for v in violations}
    for f in kf:
        req = {"property": "C08", "obligation": f["obligation"], "known_finding": f["id"], "witness": f.get("witness"), "repo": repo}
        try:
            p = subprocess.run(["/venv/bin/python", os.path.join(os.path.dirname(os.path.dirname(os.path.abspath(__file__))), "replay", "run.py")],
                               input=json.dumps(req), capture_output=True, text=True, timeout=600, env=dict(os.environ, VERIF_REPO=repo))
            lines = [l for l in p.stdout.splitlines() if l.startswith("{")]
            res = json.loads(lines[-1]) if lines else {"reproduced": False}
        except Exception as e:  # noqa
            res = {"reproduced": False, "note": str(e)}
        still = bool(res.get("reproduced"))
        covers = [o for o in f.get("covers", [f["obligation"]]) if o in vio_ids] if still else []
        out.append({"finding": f["id"], "still_fails": still, "line": f"{f['id']}: {f['what']}", "covers": covers,
                    "witness_replay": res.get("observed", res.get("note", ""))})
    return out


TRUSTED = ["olefile / zipfile / pypdf / ElementTree present the container faithfully (the abstract views below)",
           "the assumed XML fact: an element name occurs literally in the serialised manifest when its encoding is ASCII-compatible"]
ASSUMED_MODELS = [
    "olefile.isOleFile(f) / OleFileIO(f): predicate and directory view of the same bytes; exists(name); openstream(name).read() = whole stream or failure (READABLE)",
    "zipfile.is_zipfile / ZipFile(f) / infolist() / ZipInfo.is_dir() / flag_bits / filename; ZipFile.read(name): KeyError iff no such member; "
    "ZipFile.namelist() (and a set / list built from it) lists a name exactly when the archive has that member",
    "bytes.decode('utf-8', errors='ignore') of the ODF manifest is its text when the manifest is in an ASCII-compatible encoding (ASCII_COMPAT); "
    "`needle in manifest` / .find / .index / .count on the raw member bytes = uninterpreted RAWHAS(member, needle): an element name occurs in the "
    "raw bytes only under ASCII_COMPAT (UTF-16 manifests are inside the model: a byte-level pre-filter does not see their element names)",
    "struct.Struct('<H'|'<I').unpack_from: little-endian unsigned field, struct.error when out of range",
    "int.from_bytes(b, 'little') for 0..2 bytes",
    "SevenZipFile(f).__enter__ parses the archive; when the parse reaches an AES coder of the encoded header the decoder's encryption signal escapes "
    "(verified link by link: _apply_decoder, _decompress_folder, _parse_encoded_header, _parse_end_header, _parse_header, SevenZipReader.__init__, SevenZipFile.__enter__)",
    "SevenZipFile.needs_password() on the opened archive = verified contract of SevenZipFile/SevenZipReader.needs_password; "
    "SevenZipFile(f, 'r') / `with` exit: VERIFIED in round 7 (SevenZipFile.__init__ keeps the given bytes with no reader yet; __exit__ returns a false "
    "value) -- still assumed: the `with` protocol itself (PY-GEN) and that the call-site model composes these contracts on one object",
    "_EpubContext(f): exists / read_xml_root / close are the inherited ZipContext methods, VERIFIED in round 7 against the zipfile view "
    "(ZipContext.__init__ / exists / read_xml_root / close, zip_utils.read_zip_xml_root) -- still assumed: _EpubContext.__init__ after "
    "super().__init__ (container.xml / OPF parsing) may raise anything and leaves _zip / _namelist alone (AST policy P7, not a proof); "
    "Element.findall('.//{xmlenc}EncryptedData') = all such descendants",
    "pypdf.PdfReader(f), .is_encrypted, .decrypt(''), .pages; reader.trailer and the /Encrypt dictionary as name-keyed dictionaries of numbers / names "
    "(d[k], d.get(k, default), k in d, get_object(), int(), str(), comparisons); `the document decrypts with AES` = /V >= 4 and the crypt filter NAMED "
    "by /StmF, /StrF or /EFF has /CFM /AESV2 or /AESV3 (pdf_uses_aes)",
    "_DocReader(f) used as a context manager: VERIFIED in round 7 link by link (_DocReader.__init__ = fresh reader over the given bytes, "
    "__enter__ = returns self with ole = OleFileIO(those bytes), read() = verified contract, __exit__ returns a false value) -- still "
    "assumed: the `with` protocol itself (PY-GEN) and that the call-site model composes these contracts on one object",
    "close() of container / context handles is total",
    "attribute reads / comparisons on plain data objects raise at most AttributeError / TypeError",
    "ZipFile.read raises RuntimeError (other than its subclass NotImplementedError) only for an encrypted member",
    "os.path.basename total on str; open_zipfile (C11); router contracts (C07); _is_supported_file_cached = lru_cache wrapper of "
    "router.is_supported_file (C07: total, bool) -- _should_skip_file itself is VERIFIED here since round 7",
    "type(x) is total and pure, type(x).__name__ is some str",
]
BOUNDED = []      # round 7: the bounded cross-check "FP = explicit chain for streams < 16 bytes" is REPLACED by the induction lemmas
                  # `spec/lemma#FP-equals-explicit-chain/*` (chain_lemmas: every stream length); `run_bounded()` is kept as a developer tool.
                  # (The native / validation obligations of EXTRA report themselves as bounded in the evidence file.)
ASSUMPTIONS = [
    "EXC-ANY for library calls; PY-GEN; PY-LOG",
    "obligations speak about the container *views*; that pypdf / olefile compute them correctly is trusted",
    "a failure of the container library before the detector has a result (cannot open, cannot read the stream) is not a rejection 'as encrypted' and is allowed",
    "EPUB: font obfuscation (IDPF / Adobe algorithms) is not encryption in the sense of the statement; rights.xml counts as DRM",
    "nested case not decided: an encrypted member inside a plain archive is skipped by _process_archive_entry (C01 contract: member failures never escape)",
    "CLI entry point: covered by C01 (exit 1 + one stderr line for any ExtractionError); not re-proved here",
    "'same content as the unencrypted original' for empty-password PDFs is checked natively only (replay: RC4-40/128, AES-128/256 copies), see F28",
    "typestate second opinion and the AES-provider obligation are decided by AST dominance analysis (back end 'dataflow')",
    "round 7: the recursive XLS spec FP equals the explicit record chain by induction (lemmas A-base/A-step, soundness, completeness, progress: "
    "base and step discharged by the solver at a symbolic k; the induction principle is the proof rule)",
    "round 7: archive entry point read_archive: which format a container is routed to (_detect_archive_type_optimized) is not specified here "
    "(C09); proved: whatever extractor runs, its file-encrypted error is passed on unchanged and nothing else produces one; TAR has no encryption",
    "round 7: _EpubContext inherits the verified ZipContext view (policy P7 is an AST rule, back end 'dataflow')",
]


def run_bounded():
    """python3-vt -c 'from contracts.C08 import run_bounded; run_bounded()'  -- BOUNDED, never counted as proved."""
    from pyvc import solve
    oid, hyps, goal = bounded_chain_check()
    r = solve.check_vc(hyps, goal, 60000, want_model=False)
    print("BOUNDED", oid, r.status, r.backend, round(r.seconds, 2))
    return r.status


# Text proposed for tools_manifest.py::CLAIMED["C08"] (that file is shared; not edited by this pack)
MANIFEST_CLAIM = dict(
    text="Deductive proof on the real AST that every encryption detector equals a predicate over an abstract container view "
         "(OLE stream names; FILEPASS on the BIFF record chain with loop invariant and variant; FIB flag 0x0100; ZIP flag bit 0 with "
         "loop invariant and no read/yield before the scan; 7z AES coder prefix checked before extractall; ODF manifest element; "
         "EPUB encryption.xml/rights.xml; PDF decrypt('')), in both directions, and that in every extractor all paths to the first "
         "yield pass the detector and a True result escapes as the file-encrypted error (also through read_file).",
    note="Assumed: olefile/zipfile/pypdf/ElementTree views, EXC-ANY for other library calls, listed totality assumptions. "
         "Five recorded findings (F18, F25-F28) with native witnesses; proposed_fixes/C08.diff makes all obligations provable.",
    technique="contract-based deductive verification: AST->VC generation over the real source (z3), AST dominance analysis, native replay",
)

REPLAY_UNKNOWN = True    # undecided / out-of-subset items are searched natively (replay) before being reported UNDECIDED
