"""C06 -- extraction is a deterministic, side-effect-free function of its input.

The relational statement is reduced (DESIGN §3 C06) to three families of
per-function obligations whose conjunction implies it under PY-HASHSEED
(dict order = insertion order, set order = arbitrary per process) and purity
of the third-party parsers:
  order:   no sequence whose order depends on set iteration reaches a result;
  frame:   observers of results modify nothing reachable from `self`
           (allowed: the read position of an image's own BytesIO), extractors
           only seek/tell/read their input buffer;
  nondet:  values of time/random/secrets/uuid/id()/hash()/environ never reach a result.
These are effect/qualifier obligations decided on the real AST by a
flow-insensitive-in-names, structure-sensitive analysis (back end `dataflow`);
each obligation is one (function, site).
"""
import ast
import hashlib

from pyvc import loader
from pyvc.flow import dotted, ground_obligation
from contracts import C06_flow as FL
from contracts import C06_frame as FR


def volatile(o):
    """Obligations of code sites are identified by function (and local) names, which follow the code: they are checked and
    counted but not locked; the package-level `...-scanned` obligations are the vacuity guard of their families."""
    o["volatile"] = True
    return o

DT = "sharepoint2text/parsing/extractors/data_types.py"

UNORDERED_CTORS = {"set", "frozenset"}
ORDER_SAFE_CONSUMERS = {"sorted", "len", "min", "max", "sum", "any", "all", "set", "frozenset", "bool", "isinstance"}
ORDER_EXPOSING_CONSUMERS = {"list", "tuple", "enumerate", "iter", "next", "zip", "map", "filter", "reversed", "dict"}
MUTATORS = {"append", "extend", "insert", "pop", "remove", "clear", "sort", "reverse", "update", "setdefault", "popitem", "add", "discard",
            "write", "truncate", "writelines", "__setitem__", "__delitem__"}
BUFFER_READ_ONLY = {"seek", "tell", "read", "getvalue", "readline", "readlines", "read1", "readinto", "seekable", "readable", "closed", "getbuffer"}
NONDET_CALLS = ("time.", "random.", "secrets.", "uuid.", "os.urandom", "os.getpid", "os.getppid", "os.environ", "os.times", "os.getlogin",
                "datetime.datetime.now", "datetime.now", "datetime.datetime.today", "datetime.date.today", "datetime.datetime.utcnow",
                "email.utils.make_msgid", "email.utils.formatdate", "email.utils.localtime", "tempfile.",
                "os.getcwd", "os.listdir", "os.scandir", "os.walk", "glob.glob", "glob.iglob", "os.getuid", "os.getgid", "os.stat", "os.path.getmtime",
                "os.path.getctime", "os.path.getatime", "os.path.expanduser", "os.cpu_count", "sys.getrefcount", "gc.", "weakref.",
                "socket.gethostname", "socket.getfqdn", "platform.", "getpass.getuser", "threading.get_ident", "threading.current_thread",
                # the process environment / locale / terminal (extraction is a function of (bytes, path) only)
                "os.getenv", "os.getenvb", "os.environb", "locale.", "sys.getfilesystemencoding", "os.get_terminal_size", "shutil.get_terminal_size",
                "os.uname", "pathlib.Path.cwd", "pathlib.Path.home",
                # completion order of concurrent work
                "concurrent.futures.as_completed", "concurrent.futures.wait")


def canonical(mod, e):
    d = dotted(e)
    if not d:
        return ""
    head, _, rest = d.partition(".")
    origin = mod.imports.get(head)
    if origin:
        return origin + ("." + rest if rest else "")
    return d


def functions_of(mod):
    """(qualname, node) for every def, with nested defs listed separately."""
    return list(mod.functions.items())


_OWN = {}


def own_nodes(fnode):
    """AST nodes of a function excluding nested function bodies (cached: the trees live as long as the loader's module cache)."""
    hit = _OWN.get(id(fnode))
    if hit is not None and hit[0] is fnode:
        return hit[1]
    out = []
    stack = list(ast.iter_child_nodes(fnode))
    while stack:
        n = stack.pop()
        out.append(n)
        if isinstance(n, (ast.FunctionDef, ast.AsyncFunctionDef, ast.Lambda)):
            continue
        stack.extend(ast.iter_child_nodes(n))
    _OWN[id(fnode)] = (fnode, out)
    return out


# ------------------------------------------------------------------- order --
SET_ANNOTATIONS = ("set", "Set", "frozenset", "FrozenSet", "AbstractSet", "MutableSet")


def set_annotation(ann):
    """True when a type annotation denotes a set type (set[str], Set[...], frozenset, Optional[set[...]], "set[str]")."""
    if ann is None:
        return False
    if isinstance(ann, ast.Constant) and isinstance(ann.value, str):
        try:
            ann = ast.parse(ann.value, mode="eval").body
        except SyntaxError:
            return False
    if isinstance(ann, ast.Subscript):
        head = dotted(ann.value).split(".")[-1]
        if head in ("Optional", "Final", "Annotated", "ClassVar"):
            inner = ann.slice.elts[0] if isinstance(ann.slice, ast.Tuple) else ann.slice
            return set_annotation(inner)
        return head in SET_ANNOTATIONS
    if isinstance(ann, ast.BinOp) and isinstance(ann.op, ast.BitOr):      # set[str] | None
        return set_annotation(ann.left) or set_annotation(ann.right)
    return dotted(ann).split(".")[-1] in SET_ANNOTATIONS


class Summaries:
    """Package-wide facts used by the order analysis: functions whose result is a set (by annotation or because every
    `return` returns a set-valued expression) and attribute names that hold sets (annotated / assigned a set)."""

    def __init__(self, mods):
        self.mods = mods
        self.set_fns = {}        # (rel, simple name) -> True
        self.set_attrs = {}      # rel -> {attr}
        for rel, m in mods.items():
            attrs = set()
            for n in ast.walk(m.tree):
                if isinstance(n, ast.AnnAssign) and set_annotation(n.annotation):
                    if isinstance(n.target, ast.Attribute):
                        attrs.add(n.target.attr)
                    elif isinstance(n.target, ast.Name) and any(n in c.body for c in m.classes.values()):
                        attrs.add(n.target.id)
            self.set_attrs[rel] = attrs
        for _ in range(3):
            changed = False
            for rel, m in mods.items():
                for q, fnode in m.functions.items():
                    if (rel, fnode.name) in self.set_fns or isinstance(fnode, ast.Lambda):
                        continue
                    is_set = set_annotation(fnode.returns)
                    if not is_set:
                        unames, is_u = unordered_names(m, fnode, self)
                        known = {k: True for k in unames}
                        rets = [n for n in own_nodes(fnode) if isinstance(n, ast.Return) and n.value is not None]
                        is_set = bool(rets) and all(is_u(r.value, known) for r in rets)
                    if is_set:
                        self.set_fns[(rel, fnode.name)] = True
                        changed = True
                # attributes assigned a set value anywhere in the module
                for q, fnode in m.functions.items():
                    unames, is_u = unordered_names(m, fnode, self)
                    known = {k: True for k in unames}
                    for n in own_nodes(fnode):
                        if isinstance(n, ast.Assign) and len(n.targets) == 1 and isinstance(n.targets[0], ast.Attribute) and is_u(n.value, known):
                            if n.targets[0].attr not in self.set_attrs[rel]:
                                self.set_attrs[rel].add(n.targets[0].attr)
                                changed = True
            if not changed:
                break
        # package-wide: attribute names that hold a set wherever the package assigns / declares them (objects travel between
        # modules: `ctx.namelist` is declared in util/zip_context.py and read in every extractor), plus properties returning a set
        votes = {}
        for rel, m in mods.items():
            for q, fnode in m.functions.items():
                if isinstance(fnode, ast.Lambda):
                    continue
                unames, is_u = unordered_names(m, fnode, self)
                known = {k: True for k in unames}
                for n in own_nodes(fnode):
                    if isinstance(n, ast.Assign):
                        for t in n.targets:
                            if isinstance(t, ast.Attribute):
                                votes.setdefault(t.attr, []).append(bool(is_u(n.value, known)))
                    elif isinstance(n, ast.AnnAssign) and isinstance(n.target, ast.Attribute):
                        votes.setdefault(n.target.attr, []).append(set_annotation(n.annotation) or (n.value is not None and bool(is_u(n.value, known))))
                if "." in q and "<locals>" not in q and any(dotted(d).split(".")[-1] in ("property", "cached_property") for d in fnode.decorator_list):
                    votes.setdefault(fnode.name, []).append((rel, fnode.name) in self.set_fns)
            for c in m.classes.values():
                for st_ in c.body:
                    if isinstance(st_, ast.AnnAssign) and isinstance(st_.target, ast.Name):
                        votes.setdefault(st_.target.id, []).append(set_annotation(st_.annotation))
        self.pkg_set_attrs = {a for a, v in votes.items() if v and all(v)}

    def call_returns_set(self, mod, call):
        f = call.func
        if isinstance(f, ast.Name):
            if (mod.rel, f.id) in self.set_fns and f.id in mod.functions:
                return True
            origin = mod.imports.get(f.id, "")
            if origin.startswith("sharepoint2text."):
                rel = origin.rsplit(".", 1)[0].replace(".", "/") + ".py"
                return (rel, origin.rsplit(".", 1)[1]) in self.set_fns
        elif isinstance(f, ast.Attribute) and isinstance(f.value, ast.Name) and f.value.id in ("self", "cls"):
            return (mod.rel, f.attr) in self.set_fns
        return False


def unordered_names(mod, fnode, summ=None):
    """Names that only ever hold set-typed values in this function (or module)."""
    names = {}
    if not isinstance(fnode, ast.Lambda):
        for a in fnode.args.posonlyargs + fnode.args.args + fnode.args.kwonlyargs:
            if set_annotation(a.annotation):
                names[a.arg] = True
    def is_u(e, known):
        if isinstance(e, (ast.Set, ast.SetComp)):
            return True
        if isinstance(e, ast.Call) and isinstance(e.func, ast.Name) and e.func.id in UNORDERED_CTORS:
            return True
        if summ is not None and isinstance(e, ast.Call) and summ.call_returns_set(mod, e):
            return True
        if summ is not None and isinstance(e, ast.Attribute) and (e.attr in summ.set_attrs.get(mod.rel, ()) or e.attr in getattr(summ, "pkg_set_attrs", ())):
            return True
        if isinstance(e, ast.Call) and isinstance(e.func, ast.Attribute) and e.func.attr == "fromkeys" and e.args and is_u(e.args[0], known):
            return True      # dict.fromkeys(<set>): a dict in set-iteration order
        if isinstance(e, ast.IfExp):
            return is_u(e.body, known) or is_u(e.orelse, known)
        if isinstance(e, ast.BinOp) and isinstance(e.op, (ast.BitOr, ast.BitAnd, ast.Sub, ast.BitXor)):
            return is_u(e.left, known) or is_u(e.right, known)
        if isinstance(e, ast.Name):
            return known.get(e.id, False)
        if isinstance(e, ast.Call) and isinstance(e.func, ast.Attribute) and e.func.attr in ("union", "intersection", "difference", "copy") and is_u(e.func.value, known):
            return True
        return False
    for _ in range(3):
        for n in own_nodes(fnode):
            tgt = val = None
            if isinstance(n, ast.Assign) and len(n.targets) == 1 and isinstance(n.targets[0], ast.Name):
                tgt, val = n.targets[0].id, n.value
            elif isinstance(n, ast.AnnAssign) and isinstance(n.target, ast.Name) and n.value is not None:
                tgt, val = n.target.id, n.value
                if set_annotation(n.annotation):
                    val = ast.Set(elts=[])
            if tgt is not None:
                u = is_u(val, names)
                names[tgt] = u if tgt not in names else (names[tgt] and u) or (u and names[tgt])
    return {k for k, v in names.items() if v}, is_u


KEYED_CONSUMERS = {"sorted", "min", "max"}
# functions that are certainly not injective on their domain (ties exist for distinct elements)
NON_INJECTIVE_KEYS = {"str.lower", "str.upper", "str.casefold", "str.strip", "str.lstrip", "str.rstrip", "str.title", "str.capitalize",
                      "str.swapcase", "len", "type", "bool", "int", "float", "abs", "round", "hash", "id"}
NON_INJECTIVE_METHODS = {"lower", "upper", "casefold", "strip", "lstrip", "rstrip", "title", "capitalize", "swapcase", "split", "count",
                         "startswith", "endswith", "find", "isdigit", "isupper", "islower", "get"}


def key_injective(key, mod=None):
    """(status, text) for the `key=` of sorted/min/max/.sort applied to an unordered collection.
    'yes': equal keys imply equal elements (no key, identity, or a tuple with the element itself as a component) -> the
    result does not depend on the iteration order; 'no': a function with ties between distinct elements (the stable sort /
    first-extremum rule then exposes the set's iteration order); 'unknown': shape not recognised.
    A key given by the name of a one-parameter function of the module is analysed through its `return` expressions."""
    if key is None or (isinstance(key, ast.Constant) and key.value is None):
        return "yes", "no key (total order of the elements)"
    src = ast.unparse(key)

    def body_status(a, b):
        if isinstance(b, ast.Name) and b.id == a:
            return "yes", "identity key"
        if isinstance(b, ast.Tuple) and any(isinstance(e, ast.Name) and e.id == a for e in b.elts):
            return "yes", "key tuple contains the element itself (ties broken by the element)"
        if isinstance(b, ast.Call):
            d = dotted(b.func)
            if d in NON_INJECTIVE_KEYS or (isinstance(b.func, ast.Attribute) and b.func.attr in NON_INJECTIVE_METHODS):
                return "no", f"key {src} maps distinct elements to equal keys"
        if isinstance(b, (ast.Constant,)):
            return "no", f"constant key {src}"
        if isinstance(b, ast.Subscript) and isinstance(b.value, ast.Name) and b.value.id == a:
            return "no", f"key {src} looks at one component of the element only"
        return "unknown", f"key {src} not recognised as injective"

    if isinstance(key, ast.Lambda) and len(key.args.args) == 1 and not key.args.vararg and not key.args.kwarg:
        return body_status(key.args.args[0].arg, key.body)
    if isinstance(key, ast.Name) and mod is not None and key.id in mod.functions and not isinstance(mod.functions[key.id], ast.Lambda):
        fn = mod.functions[key.id]
        ps = [x.arg for x in fn.args.args]
        rets = [n for n in own_nodes(fn) if isinstance(n, ast.Return) and n.value is not None]
        if len(ps) == 1 and rets:
            sts = [body_status(ps[0], r.value) for r in rets]
            if all(s_[0] == "yes" for s_ in sts):
                return "yes", f"{key.id}(): " + sts[0][1]
            if len(rets) == 1:
                return sts[0][0], f"{key.id}(): " + sts[0][1]
        return "unknown", f"key {src} not recognised as injective"
    d = dotted(key)
    if d in NON_INJECTIVE_KEYS or d.split(".")[-1] in NON_INJECTIVE_METHODS:
        return "no", f"key {src} maps distinct elements to equal keys"
    return "unknown", f"key {src} not recognised as injective"


def _parents(fnode):
    par = {}
    for n in ast.walk(fnode):
        for ch in ast.iter_child_nodes(n):
            par[id(ch)] = n
    return par


def _following_statements(fnode, par, stmt):
    """Statements executed after `stmt` in its own block (and, when that block ends, after the enclosing compound statement)."""
    out = []
    cur = stmt
    while cur is not None and cur is not fnode:
        p = par.get(id(cur))
        if p is None:
            break
        for field in ("body", "orelse", "finalbody"):
            blk = getattr(p, field, None)
            if isinstance(blk, list) and any(x is cur for x in blk):
                i = next(k for k, x in enumerate(blk) if x is cur)
                out.extend(blk[i + 1:])
        if isinstance(p, (ast.For, ast.While, ast.AsyncFor)):
            return out, True          # inside a loop: later iterations may see the name again
        cur = p
    return out, False


def sorted_before_use(mod, fnode, par, node):
    """The order-exposing expression `node` is bound to a local name that is put into a canonical order before anything else
    looks at it:  xs = list(s); xs.sort()   /   xs = [..for x in s]; xs = sorted(xs).
    -> ('sorted', key node or None, sort call) | ('later', ...) when a sort exists but is not the first use | None."""
    if isinstance(node, tuple):
        st, name = node            # (statement after which the sequence `name` is complete, name)
    else:
        st = par.get(id(node))
        if not (isinstance(st, (ast.Assign, ast.AnnAssign)) and getattr(st, "value", None) is node):
            return None
        tgt = st.targets[0] if isinstance(st, ast.Assign) and len(st.targets) == 1 else getattr(st, "target", None)
        if not isinstance(tgt, ast.Name):
            return None
        name = tgt.id
    following, in_loop = _following_statements(fnode, par, st)
    def mentions(s_):
        """The statement looks at the sequence in an order-sensitive way (log messages and len()/any()/set()... of it do not)."""
        for x in ast.walk(s_):
            if isinstance(x, ast.Name) and x.id == name:
                up, ok_ = par.get(id(x)), False
                if isinstance(up, ast.Call) and isinstance(up.func, ast.Name) and up.func.id in ORDER_SAFE_CONSUMERS - KEYED_CONSUMERS:
                    ok_ = True
                while up is not None and up is not s_ and not ok_:
                    if isinstance(up, ast.Call) and isinstance(up.func, ast.Attribute) and isinstance(up.func.value, ast.Name) \
                            and up.func.value.id in ("logger", "logging", "log"):
                        ok_ = True
                    up = par.get(id(up))
                if isinstance(s_, ast.Expr) and isinstance(s_.value, ast.Call) and isinstance(s_.value.func, ast.Attribute) \
                        and isinstance(s_.value.func.value, ast.Name) and s_.value.func.value.id in ("logger", "logging", "log"):
                    ok_ = True
                if not ok_:
                    return True
        return False
    def sort_call(s_):
        if isinstance(s_, ast.Expr) and isinstance(s_.value, ast.Call) and isinstance(s_.value.func, ast.Attribute) and s_.value.func.attr == "sort" \
                and isinstance(s_.value.func.value, ast.Name) and s_.value.func.value.id == name:
            return s_.value
        if isinstance(s_, ast.Assign) and len(s_.targets) == 1 and isinstance(s_.targets[0], ast.Name) and s_.targets[0].id == name \
                and isinstance(s_.value, ast.Call) and dotted(s_.value.func) == "sorted" and s_.value.args and isinstance(s_.value.args[0], ast.Name) \
                and s_.value.args[0].id == name:
            return s_.value
        return None
    for s_ in following:
        if not mentions(s_):
            continue
        c = sort_call(s_)
        if c is not None and not in_loop:
            return ("sorted", next((k.value for k in c.keywords if k.arg == "key"), None), c)
        break
    anywhere = any(sort_call(s_) is not None for s_ in ast.walk(fnode) if isinstance(s_, ast.stmt)) or \
        any(isinstance(x, ast.Call) and dotted(x.func) == "sorted" and x.args and isinstance(x.args[0], ast.Name) and x.args[0].id == name for x in ast.walk(fnode))
    return ("later", None, None) if anywhere else None


LOG_METHODS = {"debug", "info", "warning", "warn", "error", "exception", "critical", "log"}


def _in_message(par, n):
    """The expression is (part of) the message of a logger call, a raised exception or an assert: PY-LOG, not part of any result."""
    cur = n
    for _ in range(12):
        cur = par.get(id(cur))
        if cur is None or isinstance(cur, (ast.FunctionDef, ast.AsyncFunctionDef, ast.Lambda)):
            return False
        if isinstance(cur, (ast.Raise, ast.Assert)):
            return True
        if isinstance(cur, ast.Call) and isinstance(cur.func, ast.Attribute) and cur.func.attr in LOG_METHODS:
            return True
        if isinstance(cur, ast.stmt):
            return False
    return False


def order_sites(mod, q, fnode, summ=None, keyed_out=None):
    """Order-exposing uses of unordered values: [(node, description, definite)].
    `keyed_out` (list) receives one record per sorted/min/max/.sort over an unordered value: (node, status, text, key)."""
    unames, is_u = unordered_names(mod, fnode, summ)
    known = {k: True for k in unames}
    par = _parents(fnode)
    out = []

    def derived(e):
        """e is an unordered value or a sequence in the iteration order of one."""
        if is_u(e, known):
            return True
        if isinstance(e, (ast.GeneratorExp, ast.ListComp)):
            return any(derived(g.iter) for g in e.generators)
        if isinstance(e, ast.Call) and isinstance(e.func, ast.Name) and e.func.id in ORDER_EXPOSING_CONSUMERS and e.args:
            return derived(e.args[0])
        if isinstance(e, ast.Call) and isinstance(e.func, ast.Attribute) and e.func.attr in ("keys", "values", "items") and not e.args:
            return derived(e.func.value)
        return False

    unsafe_keyed = set()
    for n in own_nodes(fnode):
        if isinstance(n, ast.Call) and isinstance(n.func, ast.Name) and n.func.id in KEYED_CONSUMERS and n.args and derived(n.args[0]):
            key = next((k.value for k in n.keywords if k.arg == "key"), None)
            st, txt = key_injective(key, mod)
            if keyed_out is not None:
                keyed_out.append((n, st, f"{n.func.id}(<set>{', key=' + ast.unparse(key) if key is not None else ''}): {txt}", key))
            if st != "yes":
                unsafe_keyed.add(id(n))

    def add(n, desc):
        """An order-exposing expression; harmless when the sequence is sorted before anything else uses it."""
        sb = sorted_before_use(mod, fnode, par, n)
        if sb is not None and sb[0] == "sorted":
            st, txt = key_injective(sb[1], mod)
            if keyed_out is not None:
                keyed_out.append((sb[2], st, f"{desc} put in order by {ast.unparse(sb[2])[:60]} before any other use: {txt}", sb[1]))
            return
        if sb is not None:
            out.append((n, desc + " (sorted later, but not before every other use)", False))
            return
        out.append((n, desc, True))

    for n in own_nodes(fnode):
        if isinstance(n, ast.Call):
            f = n.func
            if isinstance(f, ast.Name) and f.id in ORDER_EXPOSING_CONSUMERS and n.args and is_u(n.args[0], known):
                add(n, f"{f.id}(<set>)")
            if isinstance(f, ast.Attribute) and f.attr == "join" and n.args and is_u(n.args[0], known):
                out.append((n, "str.join(<set>)", True))
            if isinstance(f, ast.Name) and f.id in ("str", "repr", "format", "ascii") and n.args and is_u(n.args[0], known) and not _in_message(par, n):
                out.append((n, f"{f.id}(<set>): the text lists the elements in iteration order", True))
            if isinstance(f, ast.Attribute) and f.attr == "format" and isinstance(f.value, (ast.Constant, ast.JoinedStr)) and not _in_message(par, n) \
                    and any(is_u(a_, known) for a_ in list(n.args) + [k_.value for k_ in n.keywords]):
                out.append((n, "str.format(<set>): the text lists the elements in iteration order", True))
            if isinstance(f, ast.Attribute) and f.attr == "pop" and is_u(f.value, known) and not n.args:
                out.append((n, "<set>.pop()", True))
            if isinstance(f, ast.Attribute) and f.attr == "extend" and n.args and is_u(n.args[0], known):
                out.append((n, "list.extend(<set>)", False))
        elif isinstance(n, (ast.ListComp, ast.GeneratorExp, ast.DictComp)):
            for g in n.generators:
                if is_u(g.iter, known):
                    add(n, "comprehension over <set>")
        elif isinstance(n, ast.For) and is_u(n.iter, known):
            collected = set()
            cb = _commutative_body(n.body, fnode, n, collected, mod)
            if cb is True and collected:
                # the loop only collects into local lists: fine when each of them is sorted before anything else looks at it
                for lst in sorted(collected):
                    sb = sorted_before_use(mod, fnode, par, (n, lst))
                    if sb is not None and sb[0] == "sorted":
                        st, txt = key_injective(sb[1], mod)
                        if keyed_out is not None:
                            keyed_out.append((sb[2], st, f"list {lst} filled in <set> order, put in order by {ast.unparse(sb[2])[:60]} before any other use: {txt}", sb[1]))
                    else:
                        out.append((n, f"for-loop over <set> appends to {lst}" + (" (sorted later, but not before every other use)" if sb else ""), sb is None))
            elif cb is not True:
                # an unrecognised loop body is not a proof of order dependence: the native replayer decides
                out.append((n, "for-loop over <set> whose body is not recognised as order-independent" + (f" ({cb})" if cb else ""), False))
        elif isinstance(n, ast.Starred) and is_u(n.value, known):
            out.append((n, "*<set>", True))
        elif (isinstance(n, ast.FormattedValue) and is_u(n.value, known)) or \
                (isinstance(n, ast.BinOp) and isinstance(n.op, ast.Mod) and isinstance(n.left, (ast.Constant, ast.JoinedStr)) and
                 (is_u(n.right, known) or (isinstance(n.right, ast.Tuple) and any(is_u(x, known) for x in n.right.elts)))):
            # the text of a set lists its elements in iteration order (messages of loggers / exceptions are not part of a result)
            if not _in_message(par, n):
                out.append((n, "text of a <set> (f-string / % formatting)", True))
        elif isinstance(n, (ast.Assign,)) and isinstance(n.value, ast.Name) is False and isinstance(n.targets[0], (ast.Tuple, ast.List)) and is_u(n.value, known):
            out.append((n, "tuple unpacking of <set>", True))
    # comprehension directly inside an order-insensitive consumer is fine: sorted(x for x in s), any(...), set(...)
    # -- unless the consumer is sorted/min/max with a key that has ties (unsafe_keyed)
    safe = set()
    for n in own_nodes(fnode):
        if isinstance(n, ast.Call) and isinstance(n.func, ast.Name) and n.func.id in ORDER_SAFE_CONSUMERS and id(n) not in unsafe_keyed:
            for a in n.args:
                if isinstance(a, (ast.GeneratorExp, ast.ListComp)):
                    safe.add(id(a))
                if isinstance(a, ast.Call) and isinstance(a.func, ast.Name) and a.func.id in ORDER_EXPOSING_CONSUMERS:
                    safe.add(id(a))
    # a set / dict comprehension over a set is itself unordered-in, unordered-out
    return [(n, d, df) for (n, d, df) in out if id(n) not in safe]


COMMUTATIVE_METHODS = {"add", "discard", "update", "setdefault", "debug", "info", "warning", "error", "exception", "log"}


def _only_looked_up(mod, fnode, target):
    """The mapping `target` (a local name, or an attribute like self._roots) is only used for lookups (d[k], d.get(k), k in d,
    len(d), bool(d)) in its scope: the function for a local name, the whole module for an attribute."""
    if isinstance(target, ast.Name):
        scopes, match = [fnode], (lambda e: isinstance(e, ast.Name) and e.id == target.id)
    else:
        scopes, match = [mod.tree], (lambda e: isinstance(e, ast.Attribute) and e.attr == target.attr)
    for scope in scopes:
        par = _parents(scope)
        for e in ast.walk(scope):
            if not match(e) or not isinstance(getattr(e, "ctx", None), ast.Load):
                continue
            p = par.get(id(e))
            if isinstance(p, ast.Subscript) and p.value is e:
                continue
            if isinstance(p, ast.Compare) and e in p.comparators:
                continue
            if isinstance(p, ast.Attribute) and p.attr in ("get", "setdefault", "pop", "__contains__", "update", "clear"):
                continue
            if isinstance(p, ast.Call) and isinstance(p.func, ast.Name) and p.func.id in ("len", "bool") and e in p.args:
                continue
            if isinstance(p, ast.keyword) and p.arg is None:
                continue        # f(**d): keyword arguments are matched by name
            if isinstance(p, (ast.If, ast.While, ast.UnaryOp, ast.BoolOp, ast.IfExp)) and not (isinstance(p, ast.IfExp) and e is not p.test):
                continue
            return False
    return True


def _keyed_store_competes(loop, key, value):
    """A store `d[key] = value` / `d.setdefault(key, value)` in the body of a loop over an unordered collection gives the same
    mapping for every iteration order when distinct elements never compete for one key with different values: the key determines
    the element (the loop variable itself, or a tuple / f-string-free expression that contains it as a component), or the value
    does not depend on the element.  Otherwise the reason (which element wins depends on the iteration order); None when fine.
    Per-iteration temporaries count as element-dependent; a key that is such a temporary is followed to its single definition."""
    tnames = {n.id for n in ast.walk(loop.target) if isinstance(n, ast.Name)}
    assigned = {}
    for b in loop.body:
        for n in ast.walk(b):
            if isinstance(n, ast.Name) and isinstance(n.ctx, ast.Store):
                assigned.setdefault(n.id, []).append(n)
    dependent = tnames | set(assigned)
    if not any(isinstance(n, ast.Name) and n.id in dependent for n in ast.walk(value)):
        return None                                   # every competitor stores the same thing
    single = isinstance(loop.target, ast.Name)

    def determines(e, hops=0):
        if isinstance(e, ast.Name):
            if single and e.id in tnames and e.id not in assigned:
                return True
            if e.id in assigned and len(assigned[e.id]) == 1 and hops < 3:
                for b in loop.body:
                    if isinstance(b, ast.Assign) and len(b.targets) == 1 and b.targets[0] is assigned[e.id][0]:
                        return determines(b.value, hops + 1)
            return False
        if isinstance(e, ast.Tuple):
            if not single and {x.id for x in e.elts if isinstance(x, ast.Name)} >= tnames and not (tnames & set(assigned)):
                return True                            # for a, b in pairs: d[(a, b)] = ...
            return any(determines(x, hops) for x in e.elts)
        return False

    if determines(key):
        return None
    if not single and isinstance(loop.target, ast.Tuple) and isinstance(key, ast.Name) and key.id in tnames and key.id not in assigned \
            and isinstance(loop.iter, ast.Call) and isinstance(loop.iter.func, ast.Attribute) and loop.iter.func.attr == "items":
        return None                                    # for k, v in mapping.items(): keys of a mapping are distinct
    return f"key {ast.unparse(key)[:40]} does not determine the element and the stored value depends on it -- which element wins follows the <set> order"


def _commutative_body(stmts, fnode=None, loop=None, collected=None, mod=None):
    """True when executing the body for the elements in any order gives the same final state; otherwise a short reason.
    `collected` (a set) receives the names of local lists the body appends to: their order is the iteration order."""
    for s in stmts:
        if collected is not None and isinstance(s, ast.Expr) and isinstance(s.value, ast.Call) and isinstance(s.value.func, ast.Attribute) \
                and s.value.func.attr in ("append", "extend") and isinstance(s.value.func.value, ast.Name):
            collected.add(s.value.func.value.id)
            continue
        # per-iteration temporary: a plain name assigned in the body and never read outside the loop
        if isinstance(s, (ast.Assign, ast.AnnAssign)) and fnode is not None:
            tg = s.targets[0] if isinstance(s, ast.Assign) and len(s.targets) == 1 else getattr(s, "target", None)
            if isinstance(tg, ast.Name):
                inside = {id(x) for x in ast.walk(loop)}
                # reads before the loop see an earlier value of a re-used name -- unless the loop itself sits in an outer loop
                nested = any(isinstance(o_, (ast.For, ast.While, ast.AsyncFor)) and o_ is not loop and any(x is loop for x in ast.walk(o_))
                             for o_ in ast.walk(fnode))
                if all(id(x) in inside or (not nested and x.lineno < loop.lineno)
                       for x in ast.walk(fnode) if isinstance(x, ast.Name) and x.id == tg.id and isinstance(x.ctx, ast.Load)):
                    continue
        if isinstance(s, ast.Expr) and isinstance(s.value, ast.Call) and isinstance(s.value.func, ast.Attribute) and s.value.func.attr in COMMUTATIVE_METHODS:
            c_ = s.value
            if c_.func.attr == "setdefault" and len(c_.args) == 2 and loop is not None:
                # d.setdefault(key, value): the FIRST element with that key wins -- order-free only when no two elements compete
                why = _keyed_store_competes(loop, c_.args[0], c_.args[1])
                if why:
                    return f"line {s.lineno}: {ast.unparse(c_.func.value)}.setdefault: {why}"
            continue       # set insertion / removal, dict.setdefault, log messages (PY-LOG: not part of any result)
        if isinstance(s, ast.Expr) and isinstance(s.value, ast.Constant):
            continue
        if isinstance(s, ast.If):
            a_, b_ = _commutative_body(s.body, fnode, loop, collected, mod), _commutative_body(s.orelse, fnode, loop, collected, mod)
            if a_ is True and b_ is True:
                continue
            return a_ if a_ is not True else b_
        if isinstance(s, (ast.Pass, ast.Continue)):
            continue
        if isinstance(s, ast.Try):
            parts = [s.body, s.orelse, s.finalbody] + [h.body for h in s.handlers]
            res = [_commutative_body(b_, fnode, loop, collected, mod) for b_ in parts if b_]
            bad_ = [r_ for r_ in res if r_ is not True]
            if not bad_:
                continue
            return bad_[0]
        # counters and sums: x += <number>, total |= flags
        if isinstance(s, ast.AugAssign) and isinstance(s.op, (ast.Add, ast.BitOr, ast.BitAnd, ast.Mult)) and isinstance(s.target, ast.Name) and \
                (isinstance(s.value, ast.Constant) and isinstance(s.value.value, (int, float)) or
                 (isinstance(s.value, ast.Call) and dotted(s.value.func) in ("len", "int", "float", "abs"))):
            continue
        # d[key] = value: building a mapping is order-independent as a mapping -- as long as nobody looks at the mapping's own
        # (insertion) order: no iteration / items() / values() / keys() / list() of it, only lookups
        if isinstance(s, ast.Assign) and len(s.targets) == 1 and isinstance(s.targets[0], ast.Subscript) \
                and isinstance(s.targets[0].value, (ast.Name, ast.Attribute)):
            why = _keyed_store_competes(loop, s.targets[0].slice, s.value) if loop is not None else None
            if why:                      # the LAST element with that key wins
                return f"line {s.lineno}: {ast.unparse(s.targets[0].value)}[...] = ...: {why}"
            if mod is None or _only_looked_up(mod, fnode, s.targets[0].value):
                continue
            return f"line {s.lineno}: {ast.unparse(s.targets[0].value)} is filled in <set> order and iterated elsewhere"
        return f"line {s.lineno}: {type(s).__name__}"
    return True


# ------------------------------------------------------------------- frame --
FRESH_CALLS = {"list", "dict", "set", "tuple", "sorted", "str", "bytes", "bytearray", "copy", "deepcopy", "replace", "BytesIO", "io.BytesIO", "frozenset"}


def self_reachable_names(fnode):
    """Local names that may alias objects reachable from `self` (or from parameters, for frame purposes)."""
    reach = {"self"}

    def rooted(e):
        while isinstance(e, (ast.Attribute, ast.Subscript)):
            e = e.value
        if isinstance(e, ast.Name):
            return e.id in reach
        if isinstance(e, ast.Call):
            d = dotted(e.func)
            if d.split(".")[-1] in FRESH_CALLS or (d and d[0].isupper()) or d.split(".")[-1][:1].isupper():
                return False            # constructor / copy: fresh object
            if isinstance(e.func, ast.Attribute):
                return rooted(e.func.value)   # method of a reachable object may return a reachable part
            return any(rooted(a) for a in e.args)
        if isinstance(e, (ast.IfExp,)):
            return rooted(e.body) or rooted(e.orelse)
        if isinstance(e, ast.BoolOp):
            return any(rooted(v) for v in e.values)
        return False

    def bind(t, flag):
        for n in ast.walk(t):
            if isinstance(n, ast.Name) and isinstance(n.ctx, ast.Store) and flag:
                reach.add(n.id)

    for _ in range(4):
        for n in own_nodes(fnode):
            if isinstance(n, ast.Assign):
                for t in n.targets:
                    if isinstance(t, (ast.Name, ast.Tuple, ast.List)):
                        bind(t, rooted(n.value))
            elif isinstance(n, ast.AnnAssign) and n.value is not None and isinstance(n.target, ast.Name):
                bind(n.target, rooted(n.value))
            elif isinstance(n, ast.For):
                it = n.iter
                if isinstance(it, ast.Call) and dotted(it.func) in ("enumerate", "zip", "reversed", "sorted", "list", "iter"):
                    flag = any(rooted(a) for a in it.args)
                else:
                    flag = rooted(it)
                bind(n.target, flag)
            elif isinstance(n, (ast.ListComp, ast.GeneratorExp, ast.SetComp, ast.DictComp)):
                for g in n.generators:
                    bind(g.target, rooted(g.iter))
            elif isinstance(n, ast.NamedExpr):
                bind(n.target, rooted(n.value))
            elif isinstance(n, ast.With):
                for it in n.items:
                    if it.optional_vars is not None:
                        bind(it.optional_vars, rooted(it.context_expr))
    return reach, rooted


def frame_sites(fnode):
    reach, rooted = self_reachable_names(fnode)
    out = []
    for n in own_nodes(fnode):
        targets = []
        if isinstance(n, ast.Assign):
            targets = n.targets
        elif isinstance(n, (ast.AugAssign, ast.AnnAssign)):
            targets = [n.target]
        elif isinstance(n, ast.Delete):
            targets = n.targets
        for t in targets:
            for sub in ([t] if not isinstance(t, (ast.Tuple, ast.List)) else t.elts):
                if isinstance(sub, (ast.Attribute, ast.Subscript)) and rooted(sub.value):
                    out.append((n, f"store to {ast.unparse(sub)}"))
        if isinstance(n, ast.Call) and isinstance(n.func, ast.Attribute) and n.func.attr in MUTATORS and rooted(n.func.value):
            out.append((n, f"mutating call {ast.unparse(n.func)}()"))
        if isinstance(n, ast.Call) and dotted(n.func) == "setattr" and n.args and rooted(n.args[0]):
            out.append((n, f"setattr({ast.unparse(n.args[0])}, ...)"))
    return out


# methods of result classes that are NOT observers: constructors and the documented mutators used while a result is being built
CONSTRUCTION_METHODS = {"__init__", "__post_init__", "__new__", "from_json", "from_dict", "populate_from_path", "__setattr__", "__setitem__", "__delitem__",
                        "__delattr__"}


def is_observer(q):
    """Every method of a result class is an observer (accessors, iterators, properties, to_json / to_dict, __eq__, ...), except the
    construction-time methods listed above."""
    name = q.split(".")[-1]
    return "." in q and "<locals>" not in q and name not in CONSTRUCTION_METHODS


def policy(repo, tier):
    obls, fns = [], []
    files = loader.all_package_files(repo)
    mods = {f: loader.module(f, repo) for f in files if "/sharepoint_io/" not in f}
    n_fun = 0
    n_keyed = 0
    # ---- order
    summ = Summaries(mods)
    for rel, m in mods.items():
        for q, fnode in functions_of(m):
            keyed = []
            n_fun += 1
            try:
                sites = order_sites(m, q, fnode, summ, keyed)
            except Exception as e:  # noqa -- unexpected shape: never an engine error
                o = ground_obligation(f"C06/{rel.split('/')[-1]}::{q}/order#set-iteration-0", False, f"order analysis failed on this shape ({type(e).__name__}: {e})"[:200],
                                      rel, definite=False)
                o["replay_hint"] = {"kind": "order", "file": rel, "function": q, "line": getattr(fnode, "lineno", 0)}
                obls.append(volatile(o))
                continue
            for k, (node, desc, dfn) in enumerate(sites):
                o = ground_obligation(f"C06/{rel.split('/')[-1]}::{q}/order#set-iteration-{k}", False,
                                      f"{rel}:{node.lineno} {desc}: the resulting order depends on the hash seed", rel, definite=dfn)
                o["replay_hint"] = {"kind": "order", "file": rel, "function": q, "line": node.lineno}
                obls.append(volatile(o))
            # sorted / min / max over a set: independent of the iteration order only when equal keys imply equal elements
            for k, (node, st, txt, key) in enumerate(keyed):
                n_keyed += 1
                o = ground_obligation(f"C06/{rel.split('/')[-1]}::{q}/order#keyed-consumer-of-set-is-tie-free-{k}", st == "yes",
                                      f"{rel}:{node.lineno} {txt}" + ("" if st == "yes" else ": elements with equal keys keep the set's iteration "
                                                                      "order (stable sort / first extremum), which depends on the hash seed"),
                                      rel, definite=(st == "no"))
                o["replay_hint"] = {"kind": "order", "file": rel, "function": q, "line": node.lineno,
                                    "key": ast.unparse(key) if key is not None else "None"}
                obls.append(volatile(o))
    # the serializer lists a set in iteration order (`isinstance(value, (list, tuple, set))`): no result field may hold one
    dtm = mods[DT]
    set_fields = []
    n_fields = 0
    for cq, cnode in dtm.classes.items():
        for st_ in cnode.body:
            if isinstance(st_, ast.AnnAssign) and isinstance(st_.target, ast.Name):
                n_fields += 1
                if set_annotation(st_.annotation) or (isinstance(st_.value, ast.Call) and any(
                        k.arg == "default_factory" and dotted(k.value) in UNORDERED_CTORS for k in st_.value.keywords)):
                    set_fields.append(f"{cq}.{st_.target.id} (line {st_.lineno})")
    obls.append(ground_obligation("C06/data_types.py/order#no-set-typed-result-field", not set_fields and n_fields > 100,
                                  "; ".join(set_fields) or f"{n_fields} annotated fields of result classes, none of a set type", DT))
    obls.append(ground_obligation("C06/package/order#all-functions-scanned", n_fun > 400, f"{n_fun} functions scanned for order-exposing set iteration", "package", backend="dataflow"))
    # ---- frames: observers of result objects (sharing-depth alias analysis, helpers of the package followed: contracts/C06_frame.py)
    dt = mods[DT]
    pkg = FR.Package(mods)
    n_obs = 0
    methods = []
    for cq, cnode in dt.classes.items():
        for st_ in cnode.body:
            if isinstance(st_, (ast.FunctionDef, ast.AsyncFunctionDef)):
                if any(isinstance(d, ast.Attribute) and d.attr in ("setter", "deleter") for d in st_.decorator_list):
                    continue        # property setter: a mutator by declaration, not an observer
                methods.append((f"{cq}.{st_.name}", st_))
    for q, fnode in methods:
        if not is_observer(q):
            continue
        n_obs += 1
        oid = f"C06/data_types.py::{q}/frame#modifies-nothing-reachable-from-self"
        try:
            roots = {p_: 0 for p_ in FR.params_of(fnode) if p_ != "cls"}
            sites = FR.Alias(pkg, dt, q, fnode, roots).sites()
        except Exception as e:  # noqa -- an unexpected shape must never be an engine error: the replayer decides
            o = ground_obligation(oid, False, f"frame analysis failed on this shape ({type(e).__name__}: {e})"[:200], DT, definite=False)
            o["replay_hint"] = {"kind": "frame", "file": DT, "function": q}
            obls.append(volatile(o))
            continue
        definite = any(d_ for (_n, _t, d_) in sites)
        o = ground_obligation(oid, not sites, "; ".join(f"line {n.lineno}: {t}" + ("" if d_ else " [may-alias]") for n, t, d_ in sites), DT,
                              definite=definite)
        o["replay_hint"] = {"kind": "frame", "file": DT, "function": q}
        obls.append(volatile(o))
    obls.append(ground_obligation("C06/package/frame#observer-methods-scanned", n_obs >= 150, f"{n_obs} observer methods of result classes analysed", "package"))
    fns.append({"function": f"{DT}::<{n_obs} observer methods>", "lines": [1, 1], "file_sha256": dt.sha256, "segment_sha256": dt.sha256, "obligations": n_obs})
    # ---- frames: the caller's input buffer is only read / repositioned -- in every function it is handed to
    held = {}
    try:
        ib = FR.input_buffer_functions(mods, pkg, held)
        bases = FR.class_bases(mods)
    except Exception as e:  # noqa -- an unexpected shape must never be an engine error: the replayer decides (the floor below fails as unknown)
        ib, held, bases = {}, {}, {}
        o = ground_obligation("C06/package/frame#input-buffer-only-read", False, f"input-buffer scan failed on this shape ({type(e).__name__}: {e})"[:200],
                              "package", definite=False)
        o["replay_hint"] = {"kind": "frame", "file": DT, "function": ""}
        obls.append(volatile(o))
    for key in held:
        ib.setdefault(key, set())
    for (rel, q), names in sorted(ib.items()):
        fnode = mods[rel].functions[q]
        try:
            bad = FR.input_buffer_sites(fnode, names, mods[rel], q, pkg, held.get((rel, q), ()), mods, bases)
        except Exception as e:  # noqa
            bad = [(fnode.lineno, f"analysis failed ({type(e).__name__})", False)]
        o = ground_obligation(f"C06/{rel.split('/')[-1]}::{q}/frame#input-buffer-only-read", not bad,
                              "; ".join(f"line {ln}: {t}" for ln, t, _d in bad) or f"buffer names {sorted(names)}: only read / seek / tell", rel,
                              definite=any(d_ for _l, _t, d_ in bad))
        o["replay_hint"] = {"kind": "frame", "file": rel, "function": q}
        obls.append(volatile(o))
    obls.append(ground_obligation("C06/package/frame#input-buffer-receivers-scanned", len(ib) >= 100 and len(held) >= 50,
                                  f"{len(ib)} functions receive the caller's input buffer ({len(held)} of them methods of a class that holds it)", "package"))
    # ---- streams owned by a result are read from offset 0
    so, n_stream = FL.stream_obligations(mods, ib)
    obls.extend(so)
    obls.append(ground_obligation("C06/package/stream#result-stream-readers-scanned", n_stream >= 1,
                                  f"{n_stream} function(s) read a stream they do not own", "package"))
    # ---- process-persistent state is a key-determined memo
    st, n_state = FL.state_obligations(mods)
    obls.extend(st)
    sa, n_sa = FL.state_alias_obligations(mods, pkg, FR)
    obls.extend(sa)
    obls.append(ground_obligation("C06/package/state#functions-reading-mutable-module-state-scanned", n_sa >= 20,
                                  f"{n_sa} functions read a mutable module-level container / instance: none modifies it through an alias, in place or via a helper"
                                  if not sa else f"{n_sa} functions analysed, {len(sa)} site(s) reported separately", "package"))
    obls.append(ground_obligation("C06/package/state#persistent-state-writers-scanned", n_state >= 3,
                                  f"{n_state} writes of module-level state / decorator caches", "package"))
    # ---- nondeterministic primitives
    n_src = 0
    index = FL.function_index(mods)
    for rel, m in mods.items():
        for q, fnode in functions_of(m):
            k = 0
            for n in own_nodes(fnode):
                if not isinstance(n, ast.Call):
                    continue
                c = canonical(m, n.func)
                is_nd = c.startswith(NONDET_CALLS) or (isinstance(n.func, ast.Name) and n.func.id in ("id", "hash") and n.func.id not in m.functions)
                if not is_nd:
                    continue
                n_src += 1
                definite = False
                try:
                    ok, why = nondet_contained(m, fnode, n, c or n.func.id, mods=mods)
                    if not ok and not (isinstance(n.func, ast.Name) and n.func.id in ("id", "hash")) and not c.startswith("secrets."):
                        # not contained at the call itself: follow the value through the package (interprocedural taint)
                        ok, why2, _v, definite = FL.taint_verdict(mods, index, rel, q, fnode, n)
                        why = f"{c}: {why2}"
                    elif not ok and isinstance(n.func, ast.Name) and n.func.id in ("id", "hash"):
                        # an identity / salted hash that leaves the recognised key-only shapes: when the value itself (through
                        # value-preserving steps: arithmetic, formatting, containers, helper returns) reaches a result, that is a
                        # definite flow -- hash() of str / bytes / tuples differs per process (PYTHONHASHSEED), id() per allocation.
                        # A flow only through library calls, or none found, stays `unknown` (the replayer decides).
                        ok2, why2, _v, dfn2 = FL.taint_verdict(mods, index, rel, q, fnode, n)
                        if not ok2 and dfn2 and not (n.func.id == "hash" and _evidently_numeric(n.args[0] if n.args else None)):
                            definite = True
                            why = f"{why}; {n.func.id}() {why2}"
                        elif not ok2:
                            why = f"{why}; {why2}"
                except Exception as e:  # noqa -- unexpected shape: the replayer decides
                    ok, why = False, f"analysis failed on this shape ({type(e).__name__}: {e})"[:200]
                # identity keys / the encrypt-wrapper allowance are recognised by shape: not recognised = unknown, never a refutation
                o = ground_obligation(f"C06/{rel.split('/')[-1]}::{q}/nondet#{(c or n.func.id).replace('.', '_')}-{k}", ok,
                                      f"{rel}:{n.lineno} {why}", rel, definite=definite)
                o["replay_hint"] = {"kind": "nondet", "file": rel, "function": q, "line": n.lineno, "source": c or n.func.id}
                obls.append(volatile(o))
                k += 1
    from contracts import C06_xlsx
    obls.extend(C06_xlsx.site_obligations(mods))
    obls.append(ground_obligation("C06/package/nondet#nondeterministic-sources-scanned", n_src >= 5,
                                  f"{n_src} calls of nondeterministic primitives (clock, id(), random, temporary names, ...) followed", "package"))
    # functions that carry an order / stream / state / nondet obligation of their own: effect / qualifier obligations, listed per family
    # (as for the observers above: one summary entry each -- mutation canaries are only meaningful for the functional contract of
    # _bytesio_to_base64, which is listed by the engine itself)
    per_family = {}
    for o in obls:
        h = o.get("replay_hint") or {}
        if h.get("file") in mods and h.get("function") in mods[h["file"]].functions:
            fam = o["id"].rsplit("/", 1)[-1].split("#")[0]
            per_family.setdefault(fam, {}).setdefault((h["file"], h["function"]), 0)
            per_family[fam][(h["file"], h["function"])] += 1
    for fam, d in sorted(per_family.items()):
        digest = hashlib.sha256("".join(ast.dump(mods[rel].functions[q]) for (rel, q) in sorted(d)).encode()).hexdigest()
        fns.append({"function": f"{sorted(d)[0][0]}::<{len(d)} functions with {fam} obligations: " + ", ".join(q for (_r, q) in sorted(d))[:400] + ">",
                    "lines": [1, 1], "file_sha256": digest, "segment_sha256": digest, "obligations": sum(d.values())})
    return {"obligations": obls, "functions": fns}


def _evidently_numeric(e):
    """hash() of an int / bool is the number itself (deterministic); recognised: numeric literals, len() / int() / ord() / bool() calls."""
    if isinstance(e, ast.Constant):
        return isinstance(e.value, (int, bool)) and not isinstance(e.value, (str, bytes))
    if isinstance(e, ast.Call) and isinstance(e.func, ast.Name):
        return e.func.id in ("len", "int", "ord", "bool")
    return False


def _helper_call_sites(mods, helper):
    """Every use of the function name `helper` in the package: ([(module, enclosing function node, call node)], all_are_plain_calls).
    Call sites are found by name (`helper(...)`, `x.helper(...)`): a superset of the real ones.  Any other mention of the name (passed
    as a value, decorated, called at module / class level, re-exported) makes the second component False."""
    sites, plain = [], True
    for _rel, m2 in (mods or {}).items():
        mentions = set()
        for n in ast.walk(m2.tree):
            if (isinstance(n, ast.Name) and n.id == helper) or (isinstance(n, ast.Attribute) and n.attr == helper):
                mentions.add(id(n))
            elif isinstance(n, ast.alias) and helper in (n.name, n.asname):
                pass                                    # an import of the helper: its uses in that module are mentions of their own
            elif isinstance(n, ast.Constant) and n.value == helper:
                plain = False                           # getattr(..., "helper") / __all__
        if not mentions:
            continue
        for _q2, f2 in functions_of(m2):
            for n in own_nodes(f2):
                if isinstance(n, ast.Call) and id(n.func) in mentions:
                    sites.append((m2, f2, n))
                    mentions.discard(id(n.func))
        if mentions:
            plain = False
    return sites, plain


def nondet_contained(m, fnode, call, name, mods=None, _depth=0):
    """A nondeterministic value is contained when it is used only (a) inside logger calls, (b) as an operand of
    arithmetic whose result is again only used in logger calls, (c) id()/hash() as a membership key in a local set/dict
    (followed through the return value of a helper to every call site of that helper)."""
    parents = {}
    for n in ast.walk(fnode):
        for ch in ast.iter_child_nodes(n):
            parents[id(ch)] = n

    def in_logger(n):
        while n is not None:
            if isinstance(n, ast.Call) and isinstance(n.func, ast.Attribute) and isinstance(n.func.value, ast.Name) and n.func.value.id in ("logger", "logging"):
                return True
            n = parents.get(id(n))
        return False

    def uses_ok(var, depth=0):
        if depth > 3:
            return False
        for n in own_nodes(fnode):
            if isinstance(n, ast.Name) and n.id == var and isinstance(n.ctx, ast.Load):
                if in_logger(n):
                    continue
                p = parents.get(id(n))
                while isinstance(p, (ast.BinOp, ast.UnaryOp, ast.FormattedValue, ast.JoinedStr)):
                    p = parents.get(id(p))
                if isinstance(p, ast.Assign) and len(p.targets) == 1 and isinstance(p.targets[0], ast.Name):
                    if uses_ok(p.targets[0].id, depth + 1):
                        continue
                if in_logger(p) if p is not None else False:
                    continue
                return False
        return True

    if name.startswith("secrets."):
        ok = "encrypt" in fnode.name.lower() and "decrypt" not in fnode.name.lower()
        return ok, f"{name} " + ("only in an encrypting routine (extraction only decrypts)" if ok else "outside an encrypting routine")
    if in_logger(call):
        return True, f"{name} only inside a log message"
    p = parents.get(id(call))
    q = p
    while isinstance(q, (ast.BinOp, ast.UnaryOp, ast.FormattedValue, ast.JoinedStr)):
        q = parents.get(id(q))
    if q is not None and in_logger(q):
        return True, f"{name} only inside a log message"
    if isinstance(q, ast.Assign) and len(q.targets) == 1 and isinstance(q.targets[0], ast.Name) and name not in ("id", "hash"):
        if uses_ok(q.targets[0].id):
            return True, f"{name} flows only into log messages (via {q.targets[0].id})"
        return False, f"{name} assigned to {q.targets[0].id} which is used outside log messages"
    if name in ("id", "hash"):
        # An identity / hash value is harmless as long as it is only ever *compared* or used as a *hash key* (set member, dict key):
        # equality of identities within one run is deterministic.  Followed through tuples, names and walrus targets.
        KEY_METHODS = {"add", "discard", "remove", "get", "setdefault", "pop", "__contains__", "count", "index"}

        def key_only(node, depth=0):
            if depth > 6:
                return False, "too deep"
            par = parents.get(id(node))
            if isinstance(par, ast.Compare):
                return True, "compared / membership test"
            if isinstance(par, ast.Subscript) and par.slice is node:
                return True, "subscript key"
            if isinstance(par, ast.Call) and isinstance(par.func, ast.Attribute) and par.func.attr in KEY_METHODS and par.args and par.args[0] is node:
                return True, f"key argument of .{par.func.attr}()"
            if isinstance(par, ast.Tuple):
                return key_only(par, depth + 1)
            if isinstance(par, ast.Call) and isinstance(par.func, ast.Name) and par.func.id == "hash" and node in par.args:
                return key_only(par, depth + 1)       # the hash of an identity / a tuple holding one: as good a key as the identity
            if isinstance(par, (ast.SetComp, ast.Set)):
                return True, "member of a local set"
            if isinstance(par, ast.DictComp) and par.key is node:
                return True, "key of a local dict"
            if isinstance(par, ast.Dict) and any(k is node for k in par.keys):
                return True, "key of a local dict"
            if isinstance(par, ast.GeneratorExp) and par.elt is node:
                gp_ = parents.get(id(par))
                if isinstance(gp_, ast.Call) and dotted(gp_.func) in ("set", "frozenset"):
                    return True, "member of a local set"
                return False, "generator of identities"
            if isinstance(par, ast.comprehension):
                return True, "comprehension condition"
            if isinstance(par, (ast.BoolOp, ast.UnaryOp, ast.IfExp)) and not (isinstance(par, ast.IfExp) and par.test is not node and False):
                if isinstance(par, ast.IfExp) and par.test is node:
                    return True, "condition"
                return key_only(par, depth + 1)
            if isinstance(par, (ast.If, ast.While, ast.Assert)):
                return True, "condition"
            if isinstance(par, ast.Return) and par.value is node and mods is not None and _depth < 3 \
                    and not isinstance(fnode, ast.Lambda) and not getattr(fnode, "decorator_list", None) \
                    and not any(isinstance(x, (ast.Yield, ast.YieldFrom)) for x in own_nodes(fnode)):
                # the identity is the return value of a helper: it stays a key when every call of the helper is used as one
                sites, plain = _helper_call_sites(mods, fnode.name)
                if not plain or not sites:
                    return False, f"returned by {fnode.name}(), which is not only called directly"
                for m2, f2, c2 in sites:
                    ok_, why_ = nondet_contained(m2, f2, c2, name, mods=mods, _depth=_depth + 1)
                    if not ok_:
                        return False, f"returned by {fnode.name}(); in {f2.name}: {why_}"
                return True, f"returned by {fnode.name}(), whose {len(sites)} call(s) are only compared / used as a key"
            tgt = None
            if isinstance(par, ast.Assign) and len(par.targets) == 1 and isinstance(par.targets[0], ast.Name) and par.value is node:
                tgt = par.targets[0].id
            elif isinstance(par, ast.AnnAssign) and isinstance(par.target, ast.Name) and par.value is node:
                tgt = par.target.id
            elif isinstance(par, ast.NamedExpr) and par.value is node:
                tgt = par.target.id
                ok_, why_ = key_only(par, depth + 1)       # the walrus expression itself is a use as well
                if not ok_:
                    return ok_, why_
            if tgt is not None:
                loads = [x for x in own_nodes(fnode) if isinstance(x, ast.Name) and x.id == tgt and isinstance(x.ctx, ast.Load)]
                for x in loads:
                    if in_logger(x):
                        continue
                    ok_, why_ = key_only(x, depth + 1)
                    if not ok_:
                        return False, f"{tgt}: {why_}"
                return True, f"bound to {tgt}, which is only compared / used as a key"
            return False, f"used in {type(par).__name__}"
        ok_, why_ = key_only(call)
        return ok_, f"{name}() {'only ' if ok_ else 'value escapes: '}{why_}"
    if name.startswith("secrets."):
        ok = fnode.name == "_cryptaes_encrypt"
        return ok, f"{name} " + ("only in the encrypting wrapper (never called by extraction)" if ok else "outside the encrypting wrapper")
    return False, f"{name} value may reach a result"


def validate_assumed_purity(repo, tier):
    """BOUNDED validation (not a proof) of the assumed contract 'the third-party parsers and the glue are a deterministic
    function of the bytes': every fixture is extracted in two fresh processes under different hash seeds, observers are
    called repeatedly, the input buffer is compared.  A mismatch is a violation with a replayable input."""
    import json
    import os
    import subprocess
    root = os.path.dirname(os.path.dirname(os.path.abspath(__file__)))
    req = {"property": "C06", "obligation": "validation", "list_all": True}
    try:
        p = subprocess.run(["/venv/bin/python", os.path.join(root, "replay", "run.py")], input=json.dumps(req), capture_output=True,
                           text=True, timeout=900, env=dict(os.environ, VERIF_REPO=repo))
        lines = [l for l in p.stdout.splitlines() if l.startswith("{")]
        res = json.loads(lines[-1]) if lines else {}
    except Exception as e:  # noqa
        res = {"note": str(e)}
    oid = "C06/package/assumed-contract-validation#fixtures-identical-across-fresh-processes"
    if "mismatches" not in res:
        return {"obligations": [], "undecided": [{"obligation": oid, "why": "native validation did not run: " + str(res.get("note", ""))[:200]}]}
    mm = res["mismatches"]
    rec = res.get("recorded") or []
    o = ground_obligation(oid, not mm, "; ".join(f"{m[0]}: {m[1]} {m[2]}" for m in mm[:6]) or
                          f"{res.get('fixtures')} documents agree" + (f" (apart from {len(rec)} difference(s) recorded as known finding)" if rec else ""),
                          "package", kind="assumption-validation", backend="native-replay(bounded: repository fixtures + synthetic documents, 2 processes)")
    o["bounded"] = True      # DESIGN 2.8: a bounded stand-in, never counted as discharged
    o["bound"] = ("repository fixtures + replay/C06.py::synth_corpus, 2 fresh processes (PYTHONHASHSEED 1/2, opposite corpus order, different "
                  "locale / time zone / working directory / environment)")
    out = [o]
    # differences recorded in known_findings.json: one failing obligation per finding, reported under the finding (hook below)
    for fid in sorted({m[3] for m in rec}):
        mine = [m for m in rec if m[3] == fid]
        k = ground_obligation(f"{oid}/recorded[{fid}]", False, "; ".join(f"{m[0]}: {m[1]} {m[2]}" for m in mine[:6]), "package",
                              kind="assumption-validation", backend="native-replay(bounded)")
        k["finding"] = fid
        out.append(volatile(k))
    return {"obligations": out}


def known_findings(kf, violations, repo, tier):
    """Recorded findings of this pack are differences seen by the native validation run (known_findings.json: `mismatch` = where
    the runs differ).  A finding is reported as long as the run still shows it and covers exactly its own `recorded[...]`
    obligation; every other difference stays a violation."""
    out = []
    try:
        vio = {o["id"]: o for o in violations}
        for f in kf:
            oid = f"C06/package/assumed-contract-validation#fixtures-identical-across-fresh-processes/recorded[{f['id']}]"
            still = oid in vio
            seen = (vio[oid].get("reason") or "")[:200] if still else "-"
            out.append({"finding": f["id"], "still_fails": still, "covers": [oid] if still else [],
                        "line": f"finding={f['id']} obligation={oid} observed={seen!r}: {f.get('what', '')[:160]}"})
    except Exception:  # noqa -- never let the hook fail the check
        pass
    return out


EXTRA = [policy, validate_assumed_purity]
BOUNDED = ["assumed-contract-validation#fixtures-identical-across-fresh-processes: all supported fixtures of the repository plus the synthetic "
           "documents of replay/C06.py::synth_corpus (style names colliding under case/length/whitespace keys; image twins differing only in "
           "their dimension bytes), two fresh processes (PYTHONHASHSEED 1 and 2, opposite corpus order, different locale / time zone / working directory / environment), each document extracted twice with a "
           "path and twice without, every observer called and every handed-out stream read between two to_json() calls -- a bounded "
           "validation of the purity assumption, not counted as a proof of it"]


def contracts(reg):
    """Functions verified deductively (real body, SMT):
    * `serialization._bytesio_to_base64` -- for every payload and every cursor position it returns the base64 text of the WHOLE payload
      and leaves the cursor where it was.  Contract, value model (`PV` payload + ghost cursor) and executor are those of the C05 pack
      (contracts/C05.py), the obligations are C06's own (`C06/serialization.py::_bytesio_to_base64/returns`, `/ensures#stream-position-restored`).
    * `xlsx_extractor._core_dates_present` (contracts/C06_xlsx.py).
    * round 7 (contracts/C06_zip.py, stream model + executor of pack C11): `zip_bomb.validate_zip_bytesio` (cursor restored on normal AND
      exceptional exits), `archive_extractor._detect_archive_type_optimized` (header read at offset 0, cursor left at 0) and six readers of
      the caller's buffer (every read happens with the cursor at 0, on normal and exceptional paths)."""
    from contracts import C05, C06_xlsx, C06_zip
    # round 7: C05's assumed contract on `read_file` is no longer carried along -- no obligation of C06 goes through it
    # (`_bytesio_to_base64` calls nothing of the package); `validate_zip_bytesio` joins the deductively verified functions.
    out = [c for c in C05.contracts(reg) if c.target.endswith("::_bytesio_to_base64")]
    return out + C06_xlsx.contracts(reg) + C06_zip.contracts(reg)


def _executor():
    import z3
    from contracts import c05spec as sp
    from contracts.c05exec import PTok, SerExecutor

    class C06Executor(SerExecutor):
        """C05's executor + the position-independent readers of io.BytesIO (assumed library model: `getvalue()` / `getbuffer()`
        return the whole payload whatever the cursor is and do not move it)."""

        def pv_method(self, st, obj, name, args, kwargs, node):
            if name in ("getvalue", "getbuffer") and not args:
                V = sp.V
                s2 = self.fork_raise(st, sp.norm(z3.Not(V.is_BytesIO(obj.t))), "AttributeError")
                return [] if s2 is None else [(s2, PTok("bin", sp.norm(V.iop(obj.t))))]
            return super().pv_method(st, obj, name, args, kwargs, node)

    return C06Executor


def _dispatch():
    from contracts import C06_zip
    return C06_zip.executor_for(_executor())      # zip_bomb.py runs on pack C11's executor (round 7), everything else on C06Executor


EXECUTOR = _dispatch()
from contracts.C06_zip import EXECUTOR_KW  # noqa: E402,F401 -- which contracts run on pack C11's executor


def post_report(c, rep):
    """A refutation of the deductive obligations is a counterexample only when the whole path is modelled: if the executor had to
    havoc a call it has no model for (EXC-ANY site), `refuted` means "not proved with this model" -> unknown, the replayer decides."""
    if getattr(rep, "exc_any_sites", 0):
        for o in rep.obligations:
            if o.get("status") == "refuted":
                o["status"] = "unknown"
                o["reason"] = ((o.get("reason") or "") + f"; path contains {rep.exc_any_sites} unmodelled call(s): not a definite counterexample").strip("; ")


TRUSTED = ["third-party parsers are deterministic functions of their input bytes", "PY-HASHSEED: dict iteration = insertion order; set iteration order arbitrary per process"]
from contracts.C06_zip import ASSUMED_HERE as _ZIP_ASSUMED  # noqa: E402
ASSUMED_MODELS = list(_ZIP_ASSUMED)
ASSUMPTIONS = ["fresh-process / hash-seed equality follows from the obligation families only under the trusted-base assumptions; as an executed fact it is only validated on the bounded corpus",
               "aliasing is tracked by names rooted at `self` (constructor calls and copies are fresh)", "effect/qualifier obligations are decided by AST analysis (back end 'dataflow'), not SMT "
               "(exceptions, verified deductively on the real bodies: serialization._bytesio_to_base64 with the C05 value model; xlsx_extractor._core_dates_present "
               "with the element model; round 7, with pack C11's stream model: zip_bomb.validate_zip_bytesio restores the cursor on every exit, "
               "archive_extractor._detect_archive_type_optimized and six readers -- xlsx _read_content, read_rtf, read_mhtml, read_plain_text, "
               "read_msg_format_mail, read_mbox_format_mail -- read the caller's buffer only with the cursor at 0)",
               "round 7 stream contracts: helpers of the package called by a reader are unknown calls (any result, may raise, leave the cursor of a "
               "buffer they are handed anywhere); the bytes read are an unknown value, so these contracts say where the buffer is read, not what is "
               "computed from it; read_html / read_xls / read_xlsx are outside the modelled subset and stay dataflow-only",
               "order: a name is unordered when every assignment to it is set-valued; set-returning functions / set-typed parameters and attributes are summarised per module; "
               "sorted/min/max over a set is order-free only with a key whose equality implies element equality",
               "state: process-persistent state = module-level names written inside functions, `global` rebinding, functools cache decorators; closures and "
               "attributes of long-lived third-party objects are not tracked",
               "nondet taint: data dependence only (no control dependence, no exceptions carrying a tainted message); library calls propagate taint from arguments/receiver to "
               "result; names of temporary files are consumed by open()/os.path.exists()/extractall() without tainting what is read"]

REPLAY_UNKNOWN = True    # undecided / out-of-subset items are searched natively (replay) before being reported UNDECIDED
