"""C06 round 7: the stream frame of the functions that touch the CALLER'S input buffer, under deductive contracts.

Until round 6 C06 knew these functions only through dataflow obligations (`frame#input-buffer-only-read`,
`stream#read-starts-at-offset-0`: a must-fact "seek(0) dominates read()").  Now, verified on the real bodies for every initial cursor:

  util/zip_bomb.py::validate_zip_bytesio      (anchor of the property: "stream position save/restore")
      ensures      stream-position-restored            cursor after == cursor before                              (normal return)
      exc_ensures  stream-position-restored-on-raise   the same on EVERY exceptional exit (not a zip, rejected by the guard, ...)
  archive_extractor.py::_detect_archive_type_optimized
      ensures      stream-consumed-from-offset-0       every read of the buffer happens with the cursor at 0 (and there is one)
      ensures      stream-left-at-offset-0             cursor == 0 at exit (tarfile / py7zr called next start from the cursor)
  READERS (xlsx `_read_content`, read_rtf, read_mhtml, read_plain_text, read_msg_format_mail, read_mbox_format_mail)
      ensures      stream-consumed-from-offset-0       as above
      exc_ensures  stream-consumed-from-offset-0-on-raise   no read at a cursor other than 0 on a path that raises

The value model (BytesIO = external object with a ghost cursor; `zipfile.ZipFile(...)` moves the cursor anywhere and may raise
anything; `with zf:` closes it) and the executor are those of pack C11 (contracts/C11.py, contracts/common.py) -- the documented
"reuse another pack's contract + executor for one function" pattern of ENGINE.md; the clauses are C06's own.  `read` is wrapped
with a ghost log of the cursor at each read (`USES`).  In the readers the helpers of the package are unknown calls
(`inline_calls=False`): any result, may raise, a buffer handed to them has its cursor anywhere afterwards -- so the contracts say
WHERE the buffer is read, not what is computed from the bytes (that part of C06 stays with the dataflow families and the bounded
validation).  `zipfile.ZipFile(stream)` is deliberately NOT a "read at the cursor": in mode "r" it locates the directory from the
end of the stream, so a missing `seek(0)` before it is behaviour-preserving (a contract demanding it was tried and dropped: the
replayer cannot, and should not, reproduce anything).

Callee views used inside `validate_zip_bytesio` (not re-verified here, NOT counted by C06): `zip_bomb.py::validate_zipfile` and
`zip_bomb.py::_is_directory` with the contracts that pack C11 verifies on the same source (`./check C11`); for the clauses of
this file only "may raise, does not touch the cursor except through the ZipFile constructor" matters.  They are listed in
`ASSUMED_HERE` (-> evidence `assumed_contracts` of C06, marked "verified by pack C11").

Refutations are never definite by themselves (the paths contain EXC-ANY sites: library calls that may raise): `post_report`
of contracts/C06.py demotes them to `unknown` and replay/C06.py::stream_search decides with real inputs (one ASCII payload and
fixtures of the module's kind at four cursor positions; results compared canonically, cursor / content / closed checked).
"""
import z3

from pyvc.contracts import FnContract, Raises
from pyvc.values import VExt, VInt, VUnk
from pyvc.verify import p_ext

ZB = "sharepoint2text/parsing/extractors/util/zip_bomb.py"
ARC = "sharepoint2text/parsing/extractors/archive_extractor.py"
USES = "c06!stream-used-at"
TARGET = f"{ZB}::validate_zip_bytesio"
ASSUMED_HERE = [f"{ZB}::validate_zipfile (call-site view inside validate_zip_bytesio; verified by pack C11, not by C06)",
                "zipfile.ZipFile(stream, 'r') / its context manager: moves the cursor of the stream anywhere, may raise anything, "
                "never writes the stream (assumed library model of pack C11)",
                "io.BytesIO.tell / seek / read / getvalue / getbuffer (assumed library model contracts/common.py + contracts/C06_zip.py: tell() "
                "returns the cursor, seek(n[, 0]) sets it, n < 0 raises, any other whence leaves it anywhere; read() returns unknown bytes and "
                "moves the cursor forward; getvalue() / getbuffer() neither depend on the cursor nor move it; io.BytesIO(x) is a fresh stream at 0)"]


def contracts(reg):
    """-> [contract to verify]; registers C11's models and callee contracts in `reg`.  Never raises: on any failure the pack
    simply does not have this contract (the locked obligation ids then show up as missing -> the check cannot pass silently)."""
    try:
        from contracts import C11, common
        theirs = {c.target: c for c in C11.contracts(reg)}
        base = theirs[TARGET]
        for t, c in theirs.items():
            if t.endswith("::validate_zipfile") or t.endswith("::_is_directory"):
                reg.add(c)                                   # call-site views (verified in pack C11)

        _log_uses(reg, common)

        def restored(c):
            fl = c.args["file_like"]
            return common.bytesio_pos(c.st, fl) == common.bytesio_pos(c.entry, fl)

        out = [C11._guard_contract(FnContract(
            target=TARGET, params=list(base.params),
            requires=base.requires,      # materialises the ghost cursor (>= 0) at entry; configured total limit >= 0 (callee's precondition)
            ensures=[("stream-position-restored", restored)],
            exc_ensures=[("stream-position-restored-on-raise", C11.G(restored))],
            raises=[Raises("Exception", sub=True, label="not a zip / rejected by the guard / library failure")],
            modifies=("file_like",),
            note="VERIFIED (round 7; was dataflow-only in C06): the caller's buffer has its cursor back on every exit, for every "
                 "initial cursor; value model and executor of pack C11"))]
        out.append(C11._guard_contract(FnContract(
            target=f"{ARC}::_detect_archive_type_optimized", params=[("file_like", p_ext("BytesIO"))],
            requires=lambda c: common.bytesio_pos(c.st, c.args["file_like"]) >= 0,
            ensures=[("stream-consumed-from-offset-0", from0),
                     ("stream-left-at-offset-0", lambda c: common.bytesio_pos(c.st, c.args["file_like"]) == 0)],
            raises=[Raises("Exception", sub=True, label="not excluded by this model: the header is an unknown value here")],
            modifies=("file_like",),
            note="VERIFIED (round 7; deductive complement of the dataflow obligation stream#read-starts-at-offset-0): the sniffed header "
                 "is read at offset 0 whatever the cursor was and the cursor is left at 0 (what the archive readers called next start "
                 "from).  Nothing is claimed about totality or about the value returned: the bytes read are an unknown value here")))
        for (rel, q) in READERS:
            sig = _signature(rel, q)
            if sig is None:
                continue           # function gone / renamed: the locked ids of this reader are then missing (reported by the check)
            names, is_gen = sig
            out.append(C11._guard_contract(FnContract(
                target=f"{rel}::{q}", params=[("file_like", p_ext("BytesIO"))] + [(n, _p_any()) for n in names[1:]], generator=is_gen,
                requires=lambda c: common.bytesio_pos(c.st, c.args["file_like"]) >= 0,
                ensures=[("stream-consumed-from-offset-0", from0)],
                exc_ensures=[("stream-consumed-from-offset-0-on-raise", C11.G(from0_or_unread))],
                raises=[Raises("Exception", sub=True, label="parser failure")],
                modifies=("file_like",),
                note="VERIFIED (round 7; deductive complement of stream#read-starts-at-offset-0): every read of the caller's buffer "
                     "happens with the cursor at 0, whatever the cursor was at the call; the parsers behind it are unknown calls "
                     "that do not receive the buffer")))
        return out
    except Exception:  # noqa -- a pack's contracts() never lets an exception escape
        return []


EXT = "sharepoint2text/parsing/extractors/"
# Readers of the caller's buffer that the engine executes with the package's helpers as unknown calls.  Not in the list (still
# dataflow-only, stream#read-starts-at-offset-0): read_html (a helper executed in place is outside the subset, 28 s), read_xls
# (comprehension over an unknown call's result), read_xlsx (calls validate_zip_bytesio with the default limits from another module).
READERS = [(EXT + "ms_modern/xlsx_extractor.py", "_read_content"), (EXT + "ms_legacy/rtf_extractor.py", "read_rtf"),
           (EXT + "mhtml_extractor.py", "read_mhtml"), (EXT + "plain_extractor.py", "read_plain_text"),
           (EXT + "mail/msg_email_extractor.py", "read_msg_format_mail"), (EXT + "mail/mbox_email_extractor.py", "read_mbox_format_mail")]


def _p_any():
    from pyvc.verify import p_unk
    mk = p_unk()
    if getattr(mk, "default", None) is None:
        mk.default = lambda ex, st: VUnk("default")
    return mk


def _signature(rel, q):
    """(parameter names, is a generator) of the real function; the buffer is its first parameter."""
    import ast
    from pyvc import loader
    try:
        f = loader.module(rel).functions.get(q)
        if f is None:
            return None
        a = f.args
        names = [x.arg for x in a.posonlyargs + a.args + a.kwonlyargs]
        if not names or a.vararg or a.kwarg:
            return None
        own = []
        stack = list(f.body)
        while stack:
            n = stack.pop()
            if isinstance(n, (ast.FunctionDef, ast.AsyncFunctionDef, ast.Lambda)):
                continue
            own.append(n)
            stack.extend(ast.iter_child_nodes(n))
        return names, any(isinstance(n, (ast.Yield, ast.YieldFrom)) for n in own)
    except Exception:  # noqa
        return None


def _uses(c):
    fl = c.args["file_like"]
    return [pos for (obj, pos) in c.st.ghost.get(USES, ()) if z3.eq(obj, fl.t)]


def from0(c):
    """Every read of the caller's buffer on this path happened with the cursor at 0, and there was at least one."""
    uses = _uses(c)
    return z3.And([p == 0 for p in uses]) if uses else z3.BoolVal(False)


def from0_or_unread(c):
    return z3.And([p == 0 for p in _uses(c)] + [z3.BoolVal(True)])


def _log_uses(reg, common):
    """Ghost log of the cursor at every `read` of a BytesIO (wrapped around the assumed model of contracts/common.py, which is
    unchanged).  `seek(n, whence)` with a whence that is not the constant 0 leaves the cursor anywhere (common.m_seek reads only the
    first argument); `getvalue()` / `getbuffer()` return the whole payload and neither depend on the cursor nor move it
    (assumed library model, the same as C06Executor's)."""
    read0 = reg.method_models[("BytesIO", "read")]
    seek0 = reg.method_models[("BytesIO", "seek")]
    if getattr(read0, "c06_logged", False):
        return

    def m_read(ex, st, obj, args, kwargs, node):
        st.ghost[USES] = st.ghost.get(USES, ()) + ((obj.t, common.bytesio_pos(st, obj)),)
        return read0(ex, st, obj, args, kwargs, node)

    def m_seek(ex, st, obj, args, kwargs, node):
        wh = args[1] if len(args) > 1 else kwargs.get("whence")
        if wh is not None and not (isinstance(wh, VInt) and wh.const() == 0):
            common.havoc_pos(ex, st, obj)
            return [(st, VInt(common.bytesio_pos(st, obj)))]
        return seek0(ex, st, obj, args[:1], {}, node)

    def m_whole(ex, st, obj, args, kwargs, node):
        return [(st, VUnk("bytes"))]
    m_read.c06_logged = True
    reg.method_models[("BytesIO", "read")] = m_read
    reg.method_models[("BytesIO", "seek")] = m_seek
    reg.method_models.setdefault(("BytesIO", "getvalue"), m_whole)
    reg.method_models.setdefault(("BytesIO", "getbuffer"), m_whole)


def _without_c05_models(reg):
    """The registry is shared by all contracts of the pack; C05's model of `io.BytesIO(payload)` needs C05's executor.  On the C11
    engine a new BytesIO is a fresh stream (not the caller's) with its cursor at 0."""
    import copy
    from contracts import common
    r2 = copy.copy(reg)
    r2.ext_models = dict(reg.ext_models)

    def fresh_bytesio(ex, st, args, kwargs, node):
        b = VExt("BytesIO")
        st.ghost[common.pos_key(b)] = z3.IntVal(0)
        return [(st, b)]
    r2.ext_models[("new", "io.BytesIO")] = fresh_bytesio
    return r2


def executor_for(default_cls):
    """Executor factory: the functions of this file run on C11's executor (its models need it), everything else on `default_cls`.
    The choice is made per contract through EXECUTOR_KW (`c06_engine="C11"`)."""
    def make(mod, reg, uni, **kw):
        cls = default_cls
        try:
            if kw.pop("c06_engine", None) == "C11":
                from contracts import C11
                cls = C11.EXECUTOR
                reg = _without_c05_models(reg)
        except Exception:  # noqa
            cls = default_cls
        return cls(mod, reg, uni, **kw)
    return make


EXECUTOR_KW = {t: {"c06_engine": "C11"} for t in [TARGET, f"{ARC}::_detect_archive_type_optimized"]}
# the readers: helpers of the package are unknown calls (they may do anything to what they are handed, incl. the buffer's cursor)
EXECUTOR_KW.update({f"{r}::{q}": {"c06_engine": "C11", "inline_calls": False} for (r, q) in READERS})
