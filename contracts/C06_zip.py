"""C06 round 7: the stream frame of the ZIP guard under a deductive contract.

Anchor of the property (properties.jsonl C06, mechanism "stream position save/restore"): `util/zip_bomb.py::validate_zip_bytesio`
is handed the CALLER'S input buffer by every OOXML / ODF / EPUB extractor before anything is parsed.  Until round 6 C06 knew this
function only through the dataflow frame ("only seek / tell / read on the buffer").  Now, for C06:

    validate_zip_bytesio(file_like, limits=..., source=...)
        ensures      stream-position-restored            cursor(file_like) after == cursor(file_like) before      (normal return)
        exc_ensures  stream-position-restored-on-raise   the same on EVERY exceptional exit (not a zip, rejected by the guard, ...)

for every initial cursor position, whatever `zipfile.ZipFile(stream, "r")` does to the cursor and whether it or the guard raises.
The value model (BytesIO = external object with a ghost cursor; `zipfile.ZipFile(...)` moves the cursor anywhere and may raise
anything; `with zf:` closes it) and the executor are those of pack C11 (contracts/C11.py, contracts/common.py) -- the documented
"reuse another pack's contract + executor for one function" pattern of ENGINE.md; the two clauses above are C06's own (C11 states
the exceptional case as a `raises ... when` side condition; C06 needs it as a postcondition of its own with a replayable id).

Callee views used inside the body (not re-verified here, NOT counted by C06): `zip_bomb.py::validate_zipfile` and
`zip_bomb.py::_is_directory` with the contracts that pack C11 verifies on the same source (`./check C11`); for the two clauses
of this file only "may raise, does not touch the BytesIO cursor model except through the ZipFile constructor" matters.  They are
listed in `ASSUMED_HERE` (-> evidence `assumed_contracts` of C06, marked "verified by pack C11").
"""
import z3

from pyvc.contracts import FnContract, Raises

ZB = "sharepoint2text/parsing/extractors/util/zip_bomb.py"
TARGET = f"{ZB}::validate_zip_bytesio"
ASSUMED_HERE = [f"{ZB}::validate_zipfile (call-site view inside validate_zip_bytesio; verified by pack C11, not by C06)",
                "zipfile.ZipFile(stream, 'r') / its context manager: moves the cursor of the stream anywhere, may raise anything, "
                "never writes the stream (assumed library model of pack C11)",
                "io.BytesIO.tell / seek (assumed library model contracts/common.py: tell() returns the cursor, seek(n) sets it, n < 0 raises)"]


def contracts(reg):
    """-> [contract to verify]; registers C11's models and callee contracts in `reg`.  Never raises: on any failure the pack
    simply does not have this contract (the locked obligation ids then show up as missing -> the check cannot pass silently)."""
    try:
        from contracts import C11, common
        theirs = {c.target: c for c in C11.contracts(reg)}
        base = theirs[TARGET]
        for t, c in theirs.items():
            if t.endswith("::validate_zipfile") or t.endswith("::_is_directory"):
                reg.add(c)                                   # call-site views (verified in pack C11)

        def restored(c):
            fl = c.args["file_like"]
            return common.bytesio_pos(c.st, fl) == common.bytesio_pos(c.entry, fl)

        return [C11._guard_contract(FnContract(
            target=TARGET, params=list(base.params),
            requires=base.requires,      # materialises the ghost cursor (>= 0) at entry; configured total limit >= 0 (callee's precondition)
            ensures=[("stream-position-restored", restored)],
            exc_ensures=[("stream-position-restored-on-raise", C11.G(restored))],
            raises=[Raises("Exception", sub=True, label="not a zip / rejected by the guard / library failure")],
            modifies=("file_like",),
            note="VERIFIED (round 7; was dataflow-only in C06): the caller's buffer has its cursor back on every exit, for every "
                 "initial cursor; value model and executor of pack C11"))]
    except Exception:  # noqa -- a pack's contracts() never lets an exception escape
        return []


def executor_for(default_cls):
    """Executor factory: functions of zip_bomb.py run on C11's executor (its models need it), everything else on `default_cls`."""
    def make(mod, reg, uni, **kw):
        cls = default_cls
        try:
            if getattr(mod, "rel", "") == ZB:
                from contracts import C11
                cls = C11.EXECUTOR
        except Exception:  # noqa
            cls = default_cls
        return cls(mod, reg, uni, **kw)
    return make
