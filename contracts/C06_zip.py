"""C06 round 7: the stream frame of the ZIP guard under a deductive contract.

Anchor of the property (properties.jsonl C06, mechanism "stream position save/restore"): `util/zip_bomb.py::validate_zip_bytesio`
is handed the CALLER'S input buffer by every OOXML / ODF / EPUB extractor before anything is parsed.  Until round 6 C06 knew this
function only through the dataflow frame ("only seek / tell / read on the buffer").  Now, for C06:

    validate_zip_bytesio(file_like, limits=..., source=...)
        ensures      stream-position-restored            cursor(file_like) after == cursor(file_like) before      (normal return)
        exc_ensures  stream-position-restored-on-raise   the same on EVERY exceptional exit (not a zip, rejected by the guard, ...)

for every initial cursor position, whatever `zipfile.ZipFile(stream, "r")` does to the cursor and whether it or the guard raises.
The value model (BytesIO = external object with a ghost cursor; `zipfile.ZipFile(...)` moves the cursor anywhere and may raise
anything; `with zf:` closes it) and the executor are those of pack C11 (contracts/C11.py, contracts/common.py) -- the documented
"reuse another pack's contract + executor for one function" pattern of ENGINE.md; the two clauses above are C06's own (C11 states
the exceptional case as a `raises ... when` side condition; C06 needs it as a postcondition of its own with a replayable id).

Callee views used inside the body (not re-verified here, NOT counted by C06): `zip_bomb.py::validate_zipfile` and
`zip_bomb.py::_is_directory` with the contracts that pack C11 verifies on the same source (`./check C11`); for the two clauses
of this file only "may raise, does not touch the BytesIO cursor model except through the ZipFile constructor" matters.  They are
listed in `ASSUMED_HERE` (-> evidence `assumed_contracts` of C06, marked "verified by pack C11").
"""
import z3

from pyvc.contracts import FnContract, Raises
from pyvc.values import VExt
from pyvc.verify import p_ext

ZB = "sharepoint2text/parsing/extractors/util/zip_bomb.py"
ARC = "sharepoint2text/parsing/extractors/archive_extractor.py"
USES = "c06!stream-used-at"
ON_C11_ENGINE = {f"{ZB}::validate_zip_bytesio", f"{ZB}::open_zipfile", f"{ARC}::_detect_archive_type_optimized"}
TARGET = f"{ZB}::validate_zip_bytesio"
ASSUMED_HERE = [f"{ZB}::validate_zipfile (call-site view inside validate_zip_bytesio; verified by pack C11, not by C06)",
                "zipfile.ZipFile(stream, 'r') / its context manager: moves the cursor of the stream anywhere, may raise anything, "
                "never writes the stream (assumed library model of pack C11)",
                "io.BytesIO.tell / seek (assumed library model contracts/common.py: tell() returns the cursor, seek(n) sets it, n < 0 raises)"]


def contracts(reg):
    """-> [contract to verify]; registers C11's models and callee contracts in `reg`.  Never raises: on any failure the pack
    simply does not have this contract (the locked obligation ids then show up as missing -> the check cannot pass silently)."""
    try:
        from contracts import C11, common
        theirs = {c.target: c for c in C11.contracts(reg)}
        base = theirs[TARGET]
        for t, c in theirs.items():
            if t.endswith("::validate_zipfile") or t.endswith("::_is_directory"):
                reg.add(c)                                   # call-site views (verified in pack C11)

        _log_uses(reg, common)

        def restored(c):
            fl = c.args["file_like"]
            return common.bytesio_pos(c.st, fl) == common.bytesio_pos(c.entry, fl)

        return [C11._guard_contract(FnContract(
            target=TARGET, params=list(base.params),
            requires=base.requires,      # materialises the ghost cursor (>= 0) at entry; configured total limit >= 0 (callee's precondition)
            ensures=[("stream-position-restored", restored), ("stream-consumed-from-offset-0", from0)],
            exc_ensures=[("stream-position-restored-on-raise", C11.G(restored))],
            raises=[Raises("Exception", sub=True, label="not a zip / rejected by the guard / library failure")],
            modifies=("file_like",),
            note="VERIFIED (round 7; was dataflow-only in C06): the caller's buffer has its cursor back on every exit, for every "
                 "initial cursor, and the archive is opened with the cursor at 0; value model and executor of pack C11")),
            C11._guard_contract(FnContract(
                target=f"{ZB}::open_zipfile", params=list(theirs[f"{ZB}::open_zipfile"].params),
                requires=theirs[f"{ZB}::open_zipfile"].requires,
                ensures=[("stream-consumed-from-offset-0", from0)],
                raises=[Raises("Exception", sub=True, label="not a zip / rejected by the guard / library failure")],
                modifies=("file_like",),
                note="VERIFIED (round 7; deductive complement of the dataflow obligation stream#read-starts-at-offset-0): whatever the "
                     "cursor of the caller's buffer is, the archive is opened with the cursor at 0")),
            C11._guard_contract(FnContract(
                target=f"{ARC}::_detect_archive_type_optimized", params=[("file_like", p_ext("BytesIO"))],
                requires=lambda c: common.bytesio_pos(c.st, c.args["file_like"]) >= 0,
                ensures=[("stream-consumed-from-offset-0", from0),
                         ("stream-left-at-offset-0", lambda c: common.bytesio_pos(c.st, c.args["file_like"]) == 0)],
                raises=[Raises("Exception", sub=True, label="not excluded by this model: the header is an unknown value here")],
                modifies=("file_like",),
                note="VERIFIED (round 7): the sniffed header is read at offset 0 whatever the cursor was and the cursor is left at 0 (what "
                     "the archive readers called next start from).  Nothing is claimed about totality or about the value returned: "
                     "the bytes read are an unknown value in this model"))]
    except Exception:  # noqa -- a pack's contracts() never lets an exception escape
        return []


def from0(c):
    """Every consumption of the caller's buffer on this path (a read, handing it to zipfile.ZipFile) happened with the cursor at 0,
    and there was at least one."""
    fl = c.args["file_like"]
    uses = [pos for (obj, pos) in c.st.ghost.get(USES, ()) if z3.eq(obj, fl.t)]
    return z3.And([p == 0 for p in uses]) if uses else z3.BoolVal(False)


def _log_uses(reg, common):
    """Ghost log of the cursor at every consumption of a BytesIO (wrapped around the assumed models of pack C11 / contracts/common.py;
    the models themselves are unchanged)."""
    read0 = reg.method_models[("BytesIO", "read")]
    new0 = reg.ext_models[("new", "zipfile.ZipFile")]
    if getattr(read0, "c06_logged", False):
        return

    def note(st, obj):
        st.ghost[USES] = st.ghost.get(USES, ()) + ((obj.t, common.bytesio_pos(st, obj)),)

    def m_read(ex, st, obj, args, kwargs, node):
        note(st, obj)
        return read0(ex, st, obj, args, kwargs, node)

    def new_zip(ex, st, args, kwargs, node):
        if args and isinstance(args[0], VExt) and args[0].sort == "BytesIO":
            note(st, args[0])
        return new0(ex, st, args, kwargs, node)
    m_read.c06_logged = True
    reg.method_models[("BytesIO", "read")] = m_read
    reg.ext_models[("new", "zipfile.ZipFile")] = new_zip


def executor_for(default_cls):
    """Executor factory: the functions of this file run on C11's executor (its models need it), everything else on `default_cls`.
    The choice is made per contract through EXECUTOR_KW (`c06_engine="C11"`)."""
    def make(mod, reg, uni, **kw):
        cls = default_cls
        try:
            if kw.pop("c06_engine", None) == "C11":
                from contracts import C11
                cls = C11.EXECUTOR
        except Exception:  # noqa
            cls = default_cls
        return cls(mod, reg, uni, **kw)
    return make


EXECUTOR_KW = {t: {"c06_engine": "C11"} for t in ON_C11_ENGINE}
