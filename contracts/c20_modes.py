"""C20, second part: round-key cache, ECB / CBC drivers over messages of symbolic length,
PKCS#7 and the CryptAES wrapper.  Bytes of symbolic length are (length Int, Array Int -> BV8).

The block functions are used through *opaque* function symbols:
  KEXP(len, key)        : RoundKeys    == key_expansion(key)            (by definition)
  CIPH_t(rk, b0..b15)   : byte t of  Cipher(block, rk)                    (by definition)
  DECIPH_t(rk, b0..b15) : byte t of  InvCipher(block, rk)                 (by definition)
`_expand_key`, `_aes_encrypt_block`, `_aes_decrypt_block` are proved against the transparent
FIPS-197 spec in contracts/C20.py; here their contracts are polymorphic: called with opaque
round keys / symbolic keys they return the opaque symbols.  SP 800-38A ECB / CBC are then
stated directly over these symbols.
"""
import z3

from pyvc import ops
from pyvc.contracts import FnContract, LoopSpec, Raises
from pyvc.ops import Unsupported
from pyvc.state import HeapObj
from pyvc.symex import Executor
from pyvc.values import NONE, VBool, VBytes, VExt, VFunc, VInt, VRef, VSeq, VStr, VTuple, VUnk, ext_sort, fresh_name
from pyvc.verify import Maker, p_const

AES = "sharepoint2text/parsing/extractors/pdf/_pypdf_aes_fallback.py"
I = z3.IntSort()
BV8 = z3.BitVecSort(8)
ARR = z3.ArraySort(I, BV8)
RK = ext_sort("RoundKeys")
KEXP = z3.Function("KeyExpansion", I, ARR, RK)
CIPH = [z3.Function(f"Cipher_byte{t}", RK, *([BV8] * 16), BV8) for t in range(16)]
DECIPH = [z3.Function(f"InvCipher_byte{t}", RK, *([BV8] * 16), BV8) for t in range(16)]


def symbytes(n, arr):
    return VSeq(n, lambda i, arr=arr: VInt(z3.Select(arr, i)), "byte", True, tag=("arr", n, arr))


def arr_of(v, st=None):
    """(length term, Array term) of a bytes-like value."""
    if isinstance(v, VSeq) and isinstance(v.tag, tuple) and v.tag[0] == "arr":
        return v.tag[1], v.tag[2]
    if isinstance(v, VBytes):
        a = z3.K(I, z3.BitVecVal(0, 8))
        for k, x in enumerate(v.items):
            a = z3.Store(a, k, byte_t(x))
        return z3.IntVal(len(v.items)), a
    if isinstance(v, VSeq):
        a = z3.Array(fresh_name("bytes"), I, BV8)
        return v.length, a     # caller must relate a to v.elem when needed
    if isinstance(v, VRef) and st is not None and st.obj(v.ref).kind == "symarr":
        return st.obj(v.ref).data
    raise Unsupported(f"not bytes-like: {v!r}")


def byte_t(x):
    t = x.t
    if not z3.is_bv(t):
        return z3.Int2BV(t, 8)
    if t.size() < 8:
        return z3.ZeroExt(8 - t.size(), t)
    if t.size() > 8:
        return z3.Extract(7, 0, t)
    return t


def p_symbytes(name_hint=None, cond=None, desc="bytes of symbolic length"):
    def mk(ex, st, name):
        n = z3.Int(f"{name}_len")
        a = z3.Array(f"{name}_bytes", I, BV8)
        c = n >= 0
        if cond is not None:
            c = z3.And(c, cond(n))
        return [(c, symbytes(n, a))]

    def co(v):
        if isinstance(v, VBytes):
            return symbytes(*arr_of(v)), None
        return v, None
    return Maker(mk, desc=desc, coerce=co)


def seq_eq(na, aa, nb, ab):
    """Equality of two byte sequences given as (length, array)."""
    k = z3.Int("k!eq")
    return z3.And(na == nb, z3.ForAll([k], z3.Implies(z3.And(k >= 0, k < na), z3.Select(aa, k) == z3.Select(ab, k))))


def view(a, lo):
    k = z3.Int("k!view")
    return z3.Lambda([k], z3.Select(a, lo + k))


def blk(arr, j):
    return [z3.Select(arr, 16 * j + t) for t in range(16)]


def pick(t, terms):
    """terms[t] for a symbolic t in [0,16)."""
    acc = terms[15]
    for k in range(14, -1, -1):
        acc = z3.If(t == k, terms[k], acc)
    return acc


JOINED = "__c20_joined__"

# ---- ghost yield stream of a generator under its own contract (round 7): the sequence a generator produces is the sequence of its
# `yield`s in execution order.  It is carried as ghost state of the path: YCOUNT (Int: values yielded so far), YLENS (Array Int ->
# Int: length of the k-th yielded byte string), YSTREAM (Array Int -> (Array Int -> BV8): its bytes).  `yield v` stores v at index
# YCOUNT and advances YCOUNT; a loop cut havocs all three (LoopSpec.havoc) and the loop invariant says what they are.  Only a
# contract that asks for it (init_yield_stream in its `requires`) has the stream.
YCOUNT, YLENS, YSTREAM = "c20:ycount", "c20:ylens", "c20:ystream"
YIELD_STREAM = (YCOUNT, YLENS, YSTREAM)


def init_yield_stream(st):
    st.ghost[YCOUNT] = z3.IntVal(0)
    st.ghost[YLENS] = z3.Array(fresh_name("ylens0"), I, I)
    st.ghost[YSTREAM] = z3.Array(fresh_name("ystream0"), I, ARR)


def yield_stream(st):
    g = st.ghost
    if YCOUNT not in g:
        raise Unsupported("no ghost yield stream on this path")
    return g[YCOUNT], g[YLENS], g[YSTREAM]


class VGenJoined(VUnk):
    """Result of an inlined block-generator helper of a driver: for every consumer it is an unknown value (VUnk), except
    `b"".join(...)`, which gets the concatenation of the yielded byte strings in order (PY-GEN: a generator consumed by join)."""
    __slots__ = ("joined",)

    def __init__(self, joined):
        super().__init__("generator")
        self.joined = joined


class C20Executor(Executor):
    """Symbolic byte arrays on the heap (kind 'symarr': (length, Array)), the round-key cache object."""

    # ---- an over-approximated raise (EXC-ANY: attribute / call on a value the engine has no model for) is not a fact about the
    #      code: the path is tagged like the engine's own havoc_call paths, a VC refuted on it is `unknown` (verify.discharge)
    def exc_any(self, st, site, also=()):
        if not self.abstract:
            st.assume(z3.Bool(f"__havoc__@{site}"[:120]))
        return super().exc_any(st, site, also)

    # ---- PY-LOG by data flow: a logging call is a call of a logging method on a logger object, whatever the logger is called
    #      (module-level `X = logging.getLogger(..)`, `logging.getLogger(..).debug(..)`); loggers are modelled (ASSUMED: no effect)
    def is_logger_call(self, e):
        import ast as _ast
        if super().is_logger_call(e):
            return True
        if not (isinstance(e, _ast.Call) and isinstance(e.func, _ast.Attribute)
                and e.func.attr in ("debug", "info", "warning", "warn", "error", "exception", "critical", "log")):
            return False
        recv = e.func.value
        return self._is_logger_expr(recv)

    def _is_logger_expr(self, recv):
        import ast as _ast
        from pyvc.flow import dotted
        if isinstance(recv, _ast.Call):
            d = dotted(recv.func)
            full = self.module.imports.get(d.split(".")[0], d.split(".")[0]) + ("." + ".".join(d.split(".")[1:]) if "." in d else "")
            return full in ("logging.getLogger", "logging.getLogger.getChild") or d.endswith("getLogger")
        if isinstance(recv, _ast.Name) and recv.id in self.module.assigns:
            return self._is_logger_expr(self.module.assigns[recv.id])
        return False

    # ---- construction / conversion
    def b_collection(self, st, name, args, node):
        if name == "bytearray" and (not args or (isinstance(args[0], VBytes) and not args[0].items)):
            # an empty buffer that the function grows (`out += block`, `out.extend(block)`): symbolic array of length 0
            ref = st.alloc(HeapObj("symarr", (z3.IntVal(0), z3.K(I, z3.BitVecVal(0, 8)))), self.refs)
            return [(st, VRef(ref))]
        if name == "bytearray" and args and isinstance(args[0], VInt) and args[0].const() is None:
            n = ops.int_term(args[0])
            st2 = self.fork_raise(st, n < 0, "ValueError")
            if st2 is None:
                return []
            ref = st2.alloc(HeapObj("symarr", (n, z3.K(I, z3.BitVecVal(0, 8)))), self.refs)
            return [(st2, VRef(ref))]
        if name in ("bytes", "bytearray") and len(args) == 1 and isinstance(args[0], VSeq) and not self._is_symb(args[0]) \
                and self.concrete_items(st, args[0]) is None:
            # bytes(<sequence of ints of symbolic length>), e.g. bytes([p] * p): element j is a byte (obligation: 0 <= int < 256)
            seq = args[0]
            j = z3.Int(fresh_name("j!bytes"))
            e = seq.elem(j)
            if isinstance(e, VInt):
                if not e.is_bv:
                    rng = z3.ForAll([j], z3.Implies(z3.And(j >= 0, j < seq.length), z3.And(e.t >= 0, e.t < 256)))
                    st2 = self.fork_raise(st, z3.Not(rng), "ValueError")
                    if st2 is None:
                        return []
                    st = st2
                v = symbytes(seq.length, z3.Lambda([j], byte_t(e)))
                if name == "bytearray":
                    return [(st, VRef(st.alloc(HeapObj("symarr", (seq.length, v.tag[2])), self.refs)))]
                return [(st, v)]
        if name in ("bytes", "memoryview") and args and isinstance(args[0], VRef) and st.obj(args[0].ref).kind == "symarr":
            n, a = st.obj(args[0].ref).data
            return [(st, symbytes(n, a))]
        return super().b_collection(st, name, args, node)

    def b_len(self, st, args, kwargs, node):
        v = args[0]
        if isinstance(v, VRef) and st.obj(v.ref).kind == "symarr":
            return [(st, VInt(st.obj(v.ref).data[0]))]
        if isinstance(v, VExt) and v.sort == "RKCache":
            n = z3.Int(fresh_name("cache_len"))
            st.assume(n >= 0)
            return [(st, VInt(n))]
        return super().b_len(st, args, kwargs, node)

    def concrete_items(self, st, v):
        if isinstance(v, VRef) and st.obj(v.ref).kind == "symarr":
            return None
        return super().concrete_items(st, v)

    # ---- stores into symbolic byte arrays
    def store_slice(self, st, base, sl, v, node):
        if isinstance(base, VRef) and st.obj(base.ref).kind == "symarr":
            n, a = st.obj(base.ref).data
            items = self.concrete_items(st, v)
            if items is None or sl.step is not None or sl.lower is None or sl.upper is None:
                raise Unsupported(f"{self.loc(node)} slice store of symbolic width")
            lo = self._ev_int1(sl.lower, st, node)
            hi = self._ev_int1(sl.upper, st, node)
            k = len(items)
            # a slice assignment outside the current bounds would resize the bytearray: obligation that it does not
            self.add_vc("slice-store-in-range", f"{self.enclosing_name()}-store{self.store_ordinal(node)}", st.pc,
                        z3.And(lo >= 0, hi == lo + k, hi <= n), loc=self.loc(node))
            st.assume(z3.And(lo >= 0, hi == lo + k, hi <= n))
            for t, x in enumerate(items):
                a = z3.Store(a, lo + t, byte_t(x))
            st.heap[base.ref] = HeapObj("symarr", (n, a))
            return [st]
        return super().store_slice(st, base, sl, v, node)

    def store_index(self, st, base, idx, v, node):
        if isinstance(base, VRef) and st.obj(base.ref).kind == "symarr":
            n, a = st.obj(base.ref).data
            it = ops.int_term(idx)
            st2 = self.fork_raise(st, z3.Or(it >= n, it < -n), "IndexError")
            if st2 is None:
                return []
            pos = z3.If(it < 0, it + n, it)
            st2.heap[base.ref] = HeapObj("symarr", (n, z3.Store(a, pos, byte_t(v))))
            return [st2]
        if isinstance(base, VExt) and base.sort == "RKCache":
            # cache[key] = round_keys : the stored value must be the key expansion of exactly that key
            ok = z3.BoolVal(False)
            try:
                kn, ka = arr_of(idx)
                if isinstance(v, VExt) and v.sort == "RoundKeys":
                    ok = z3.And(v.t == KEXP(kn, ka), z3.Or(kn == 16, kn == 24, kn == 32))
            except Unsupported:
                pass
            self.add_vc("cache-invariant", "stored-value-is-key-expansion-of-its-key", st.pc, ok, loc=self.loc(node))
            return [st]
        return super().store_index(st, base, idx, v, node)

    def b_setattr(self, st, args, kwargs, node):
        """setattr(obj, "<literal>", v) is the attribute store obj.<literal> = v"""
        if len(args) == 3 and isinstance(args[1], VStr) and args[1].const() is not None and not kwargs:
            return [(s2, NONE) for s2 in self.store_attr(st, args[0], args[1].const(), args[2], node)]
        return self.havoc_call(st, "setattr", args, node)

    def enclosing_name(self):
        f = self.cur_fn_stack[-1] if self.cur_fn_stack else None
        return getattr(f, "name", "?")

    def store_ordinal(self, node):
        import ast
        f = self.cur_fn_stack[-1] if self.cur_fn_stack else None
        if f is None:
            return 0
        subs = [n for n in ast.walk(f) if isinstance(n, ast.Subscript) and isinstance(n.ctx, ast.Store)]
        subs.sort(key=lambda n: (n.lineno, n.col_offset))
        for i, n in enumerate(subs):
            if n is node:
                return i
        return 0

    def _get_index_sym(self, st, base, idx, node):
        if isinstance(base, VRef) and st.obj(base.ref).kind == "symarr" and isinstance(idx, VInt):
            n, a = st.obj(base.ref).data
            it = ops.int_term(idx)
            st2 = self.fork_raise(st, z3.Or(it >= n, it < -n), "IndexError")
            if st2 is None:
                return []
            return [(st2, VInt(z3.Select(a, z3.If(it < 0, it + n, it))))]
        return super().get_index(st, base, idx, node)

    # ---- `while` loops under a per-iteration invariant: same proof scheme as the engine's symbolic `for`, with a GHOST iteration
    #      index (0 at entry, +1 per iteration, arbitrary >= 0 at the loop head and at exit).  Partial correctness only: nothing
    #      is claimed about termination of a `while` loop.
    # ---- a loop cut inside a driver leaves its mark on EVERY path that leaves the loop.  The engine's `symbolic_for` resets the
    # path condition of the state after the loop to the one before it (dropping what havoc_loop_state assumed), so the tag is
    # put back here; otherwise a postcondition VC behind a restructured loop (moved into a helper, invariant not fitting) would
    # be a definite refutation of code that may be perfectly right.
    def _keep_cut_tag(self, run, s, st):
        before = getattr(self, "_loop_cuts", 0)
        outs = run(s, st)
        if getattr(self, "_loop_cuts", 0) != before:
            for o in outs:
                try:
                    if not any(z3.is_expr(p_) and p_.eq(LOOP_CUT_TAG) for p_ in o.st.pc):
                        o.st.assume(LOOP_CUT_TAG)
                except Exception:  # noqa -- an outcome without an ordinary state: nothing to tag
                    pass
        return outs

    def loop_spec(self, node):
        """The block loop of a driver may live in a private helper that the driver calls directly (`return _apply(rk, data, fn)`):
        when the driver's own body has no loop, its loop specification goes to the FIRST loop of a helper inlined at depth 1.  The
        invariant finds its subjects by role among that helper's locals; where it does not fit, it raises Unsupported / fails on a
        tagged path, i.e. `unknown`, never a refutation."""
        import ast as _ast
        spec = super().loop_spec(node)
        c = getattr(self, "contract", None)
        if spec is not None or c is None or self.abstract or getattr(c, "role", "") not in DRIVERS or self.inline_depth != 1:
            return spec
        if len(self.cur_fn_stack) != 2 or not isinstance(self.cur_fn_stack[-1], _ast.FunctionDef):
            return None

        def loops_of(fn):
            ls = [n for n in _ast.walk(fn) if isinstance(n, (_ast.For, _ast.While))]
            ls.sort(key=lambda n: (n.lineno, n.col_offset))
            return ls
        helper = self.cur_fn_stack[-1]
        if loops_of(self.cur_fn_stack[0]) or (self._has_yield(helper.body) and self._joined_ref(self._cur_state) is None):
            return None
        hl = loops_of(helper)
        return c.loops.get(0) if hl and hl[0] is node else None

    _cur_state = None

    def s_For(self, s, st):
        self._cur_state = st
        return self._keep_cut_tag(super().s_For, s, st)

    def s_While(self, s, st):
        self._cur_state = st
        return self._keep_cut_tag(self._s_while, s, st)

    # ---- generator pipelines: a driver without a loop of its own hands the blocks to `b"".join(<helper generator>(...))`.  The
    # helper is executed in place with a hidden output buffer among its locals: `yield v` appends the bytes of v (concrete length)
    # to it, so the helper's block loop looks like the loop of a driver that grows a bytearray and the driver's loop invariant
    # applies by role; the value of the call is the concatenation, visible only to `b"".join`.
    def _joined_ref(self, st):
        if st is None or not st.frames:
            return None
        v = st.frames[-1].env.get(JOINED)
        return v.ref if isinstance(v, VRef) else None

    def run_body(self, st, fnode, env, static=None):
        import ast as _ast
        c = getattr(self, "contract", None)
        if c is not None and not self.abstract and getattr(c, "role", "") in DRIVERS and self.inline_depth == 0 \
                and isinstance(fnode, _ast.FunctionDef) and len(self.cur_fn_stack) == 1 and self._has_yield(fnode.body) \
                and not any(isinstance(n, (_ast.For, _ast.While)) for n in _ast.walk(self.cur_fn_stack[0])) \
                and not any(isinstance(n, _ast.YieldFrom) for n in _ast.walk(fnode)):
            ref = st.alloc(HeapObj("symarr", (z3.IntVal(0), z3.K(I, z3.BitVecVal(0, 8)))), self.refs)
            env = dict(env)
            env[JOINED] = VRef(ref)
            out = []
            for (s2, v) in super().run_body(st, fnode, env, static):
                o = s2.heap.get(ref)
                if isinstance(v, (VTuple, VUnk)) and o is not None and o.kind == "symarr":
                    n, a = o.data
                    out.append((s2, VGenJoined(symbytes(n, a))))
                else:
                    out.append((s2, v))
            return out
        return super().run_body(st, fnode, env, static)

    def on_yield(self, st, v, node):
        ref = self._joined_ref(st)
        if ref is None and YCOUNT in st.ghost and self.inline_depth == 0:
            # generator under its own contract: the k-th yielded value is element k of the produced sequence
            if isinstance(v, VRef) and st.heap.get(v.ref) is not None and st.obj(v.ref).kind == "symarr":
                raise Unsupported(f"{self.loc(node)} generator yields a mutable buffer (its later content is what the consumer sees)")
            if not (self._bytes_like(v)):
                raise Unsupported(f"{self.loc(node)} generator yields a value that is not a byte string: {v!r}")
            yn, ya = arr_of(v)
            cnt, yl, ys = yield_stream(st)
            st.ghost[YLENS] = z3.Store(yl, cnt, yn)
            st.ghost[YSTREAM] = z3.Store(ys, cnt, ya)
            st.ghost[YCOUNT] = cnt + 1
            return super().on_yield(st, v, node)
        if ref is None:
            return super().on_yield(st, v, node)
        items = self.concrete_items(st, v)
        if items is None or not all(isinstance(x, VInt) for x in items):
            raise Unsupported(f"{self.loc(node)} block generator yields a value that is not a byte string of concrete length")
        self._grow(st, ref, items)

    def s_With(self, s, st):
        """`with contextlib.suppress(E, ...): body` is by definition `try: body / except (E, ...): pass`"""
        import ast as _ast
        if len(s.items) == 1 and s.items[0].optional_vars is None and isinstance(s.items[0].context_expr, _ast.Call):
            call = s.items[0].context_expr
            dotted = _ast.unparse(call.func)
            head = dotted.split(".")[0]
            origin = self.module.imports.get(head)
            full = (origin + dotted[len(head):]) if origin else dotted
            if full == "contextlib.suppress" and not call.keywords and call.args and head not in self.module.functions \
                    and all(isinstance(a, (_ast.Name, _ast.Attribute)) for a in call.args):
                node = getattr(s, "_c20_try", None)
                if node is None:
                    typ = call.args[0] if len(call.args) == 1 else _ast.Tuple(elts=list(call.args), ctx=_ast.Load())
                    handler = _ast.ExceptHandler(type=typ, name=None, body=[_ast.Pass()])
                    node = _ast.Try(body=s.body, handlers=[handler], orelse=[], finalbody=[])
                    for x in (handler, handler.body[0], node, typ):
                        _ast.copy_location(x, s)
                    _ast.fix_missing_locations(node)
                    s._c20_try = node
                return self.s_Try(node, st)
        return super().s_With(s, st)

    def _s_while(self, s, st):
        from pyvc.symex import LoopCtx, Outcome
        spec = self.loop_spec(s)
        if spec is None or spec.inv is None or spec.inv_point is None or spec.unroll is not None:
            return super().s_While(s, st)
        inv, invp = spec.inv, spec.inv_point
        label = spec.label or f"L{s.lineno}"
        entry = st.fork()
        outs = []
        zero = z3.IntVal(0)
        self.add_vc("inv-init", label, st.pc, inv(LoopCtx(self, st, zero, entry, None, {"phase": "init"})), loc=self.loc(s))
        j0 = z3.Int(fresh_name("j0"))
        self.add_vc("inv-init", label + ".pointwise", st.pc, invp(LoopCtx(self, st, zero, entry, None), j0), loc=self.loc(s))
        body_st = st.fork()
        self.havoc_loop_state(body_st, s.body, spec)
        i = z3.Int(fresh_name("i!while"))
        after = body_st.fork()
        body_st.assume(i >= 0)
        body_st.assume(self._b(inv(LoopCtx(self, body_st, i, entry, None, {"phase": "assume"}))))
        head_st = body_st.fork()
        jq = z3.Int(fresh_name("jq"))
        q_hyp = z3.ForAll([jq], self._b(invp(LoopCtx(self, head_st, i, entry, None), jq)))
        body_st.assume(q_hyp)
        for (s2, g) in self.ev(s.test, body_st):
            for (s3, b) in self.fork_truth(s2, g):
                if not b:
                    continue
                for o in self.exec_block(s.body, s3):
                    if o.kind in ("fall", "continue"):
                        self.add_vc("inv-preserve", label, o.st.pc, inv(LoopCtx(self, o.st, i + 1, entry, None, {"phase": "preserve"})), loc=self.loc(s))
                        j1 = z3.Int(fresh_name("j0"))
                        hyps = [self._b(invp(LoopCtx(self, head_st, i, entry, None), j1 + d)) for d in spec.inst_offsets]
                        self.add_vc("inv-preserve", label + ".pointwise", [p_ for p_ in o.st.pc if p_ is not q_hyp] + hyps,
                                    invp(LoopCtx(self, o.st, i + 1, entry, None), j1), loc=self.loc(s))
                    elif o.kind == "break":
                        outs.append(Outcome("fall", o.st))
                    else:
                        outs.append(o)
        nx = z3.Int(fresh_name("n!while"))
        after.assume(nx >= 0)
        after.assume(self._b(inv(LoopCtx(self, after, nx, entry, None, {"phase": "exit"}))))
        jq2 = z3.Int(fresh_name("jq"))
        after.assume(z3.ForAll([jq2], self._b(invp(LoopCtx(self, after, nx, entry, None), jq2))))
        for (s2, g) in self.ev(s.test, after):
            for (s3, b) in self.fork_truth(s2, g):
                if b:
                    continue
                if s.orelse:
                    outs.extend(self.exec_block(s.orelse, s3))
                else:
                    outs.append(Outcome("fall", s3))
        return outs

    # ---- havoc of symbolic arrays in loops
    def havoc_loop_state(self, st, body, spec, extra_names=()):
        import ast as _ast
        refs = set(self.mutated_refs(body, st))
        for n_ in [x for b_ in body for x in _ast.walk(b_)]:
            if isinstance(n_, _ast.AugAssign) and isinstance(n_.target, _ast.Name) and isinstance(st.lookup(n_.target.id), VRef):
                refs.add(st.lookup(n_.target.id).ref)
        if self._joined_ref(st) is not None and self._has_yield(body):
            refs.add(self._joined_ref(st))
        sym = {r: st.heap[r] for r in refs if st.heap.get(r) is not None and st.heap[r].kind == "symarr"}
        carried = []
        if spec is not None and getattr(spec, "rebind", None) == "carried-16-byte-blocks":
            # a bytes-like local bound before the loop and re-assigned in it (the CBC chaining block): after the havoc it is an
            # arbitrary 16-byte block -- that its length IS 16 in every iteration is part of the loop invariant (proved)
            for name in sorted(self.assigned_names(body)):
                cur = st.lookup(name)
                if cur is not None and (isinstance(cur, VBytes) or self._is_symb(cur)):
                    carried.append(name)
        super().havoc_loop_state(st, body, spec, extra_names)
        if not self.abstract and getattr(getattr(self, "contract", None), "role", "") in DRIVERS:
            # from here on the path depends on an invariant this pack inferred -- or, for a loop that was moved into an inlined
            # helper (any inline depth), on no invariant at all: a VC refuted on it is `unknown` (verify.discharge)
            st.assume(LOOP_CUT_TAG)
            self._loop_cuts = getattr(self, "_loop_cuts", 0) + 1
        for r, o in sym.items():
            # content AND length are arbitrary after the havoc (a buffer may grow); the loop invariant says what the length is
            ln = z3.Int(fresh_name("out_len"))
            st.assume(ln >= 0)
            st.heap[r] = HeapObj("symarr", (ln, z3.Array(fresh_name("out"), I, BV8)))
        for name in carried:
            st.bind(name, VBytes([VInt(z3.BitVec(fresh_name(f"{name}_{t}"), 8)) for t in range(16)]))
        if spec is not None and isinstance(getattr(spec, "rebind", None), dict):
            for name, fn in spec.rebind.items():
                st.bind(name, fn(self, st))

    # ---- sequences of symbolic length: concatenation, repetition, comparison, slicing keeps the array view
    # ---- int.from_bytes / int.to_bytes on byte strings of concrete length (wide XOR of blocks): exact bit-vector encoding
    def call(self, st, f, args, kwargs, node):
        if isinstance(f, VFunc) and f.how == "classattr" and f.a == "int" and f.b == "from_bytes" and args:
            items = self.concrete_items(st, args[0])
            order = args[1] if len(args) > 1 else kwargs.get("byteorder", VStr("big"))
            oc = order.const() if isinstance(order, VStr) else None
            signed = kwargs.get("signed")
            if items is not None and oc in ("big", "little") and (signed is None or (isinstance(signed, VBool) and signed.const() is False)) \
                    and all(isinstance(x, VInt) for x in items):
                bs = [byte_t(x) for x in items]
                if not bs:
                    return [(st, VInt(0))]
                if oc == "little":
                    bs = bs[::-1]
                return [(st, VInt(z3.Concat(*bs) if len(bs) > 1 else bs[0]))]
        if isinstance(f, VFunc) and f.how == "ext" and isinstance(f.a, str) and f.a not in self.reg.ext_models and f.a not in self.reg.fn:
            if f.a.startswith("operator.") and f.a.split(".", 1)[1] in self.OPERATOR_BINOPS and len(args) == 2 and not kwargs:
                return [(s_, v_) for (s_, v_) in self.binop(st, self.OPERATOR_BINOPS[f.a.split(".", 1)[1]], args[0], args[1], node)]
            if f.a in ("itertools.chain.from_iterable", "chain.from_iterable") and len(args) == 1 and not kwargs:
                outer = self.concrete_items(st, args[0])
                parts = [self.concrete_items(st, a) for a in outer] if outer is not None else None
                if parts is not None and all(p_ is not None for p_ in parts):
                    return [(st, VTuple([x for p_ in parts for x in p_]))]
        return super().call(st, f, args, kwargs, node)

    OPERATOR_BINOPS = {"xor": "BitXor", "and_": "BitAnd", "or_": "BitOr", "add": "Add", "sub": "Sub", "mul": "Mult", "floordiv": "FloorDiv",
                       "mod": "Mod", "lshift": "LShift", "rshift": "RShift"}

    def b_map(self, st, args, kwargs, node):
        """map(f, xs, ys, ...) over iterables of known length, consumed eagerly like a generator expression"""
        cols = [self.concrete_items(st, a) for a in args[1:]]
        if kwargs or len(args) < 2 or any(c is None for c in cols):
            return self.havoc_call(st, "map", args, node)
        states = [(st, [])]
        for row in zip(*cols):
            nxt = []
            for (s1, acc) in states:
                for (s2, v) in self.call(s1, args[0], list(row), {}, node):
                    nxt.append((s2, acc + [v]))
            states = nxt
            if len(states) > 8:
                return self.havoc_call(st, "map", args, node)
        return [(s1, VTuple(acc)) for (s1, acc) in states]

    def _int_to_bytes(self, st, v, args, kwargs, node):
        ln = args[0] if args else kwargs.get("length", VInt(1))
        order = args[1] if len(args) > 1 else kwargs.get("byteorder", VStr("big"))
        n = ln.const() if isinstance(ln, VInt) else None
        oc = order.const() if isinstance(order, VStr) else None
        signed = kwargs.get("signed")
        if n is None or not 0 <= n <= 4096 or oc not in ("big", "little") or not (signed is None or (isinstance(signed, VBool) and signed.const() is False)):
            return None
        t = v.t
        if not z3.is_bv(t):
            st2 = self.fork_raise(st, z3.Or(t < 0, t >= 2 ** (8 * n)), "OverflowError")
            if st2 is None:
                return []
            st, t = st2, z3.Int2BV(t, max(8 * n, 1))
        w = t.size()
        if w > 8 * n:
            st2 = self.fork_raise(st, z3.Extract(w - 1, 8 * n, t) != 0, "OverflowError") if n > 0 else self.fork_raise(st, t != 0, "OverflowError")
            if st2 is None:
                return []
            st = st2
            t = z3.Extract(8 * n - 1, 0, t) if n > 0 else t
        elif w < 8 * n:
            t = z3.ZeroExt(8 * n - w, t)
        bs = [VInt(z3.simplify(z3.Extract(8 * (n - 1 - i) + 7, 8 * (n - 1 - i), t))) for i in range(n)]
        if oc == "little":
            bs = bs[::-1]
        return [(st, VBytes(bs))]

    def _grow(self, st, ref, items):
        n, a = st.obj(ref).data
        for t, x in enumerate(items):
            a = z3.Store(a, n + t, byte_t(x))
        st.heap[ref] = HeapObj("symarr", (z3.simplify(n + len(items)), a))

    def call_method(self, st, obj, name, args, kwargs, node):
        if isinstance(obj, VInt) and name == "to_bytes":
            r = self._int_to_bytes(st, obj, args, kwargs, node)
            if r is not None:
                return r
        if isinstance(obj, VRef) and st.heap.get(obj.ref) is not None and st.obj(obj.ref).kind == "symarr":
            if name == "extend" and len(args) == 1:
                items = self.concrete_items(st, args[0])
                if items is None:
                    raise Unsupported(f"{self.loc(node)} extend of a symbolic buffer by a value of symbolic length")
                self._grow(st, obj.ref, items)
                return [(st, NONE)]
            if name == "append" and len(args) == 1 and isinstance(args[0], VInt):
                self._grow(st, obj.ref, [args[0]])
                return [(st, NONE)]
            raise Unsupported(f"{self.loc(node)} method {name} on a symbolic byte buffer")
        return super().call_method(st, obj, name, args, kwargs, node)

    def assign(self, tgt, v, st):
        import ast as _ast
        if isinstance(tgt, (_ast.Tuple, _ast.List)) and sum(isinstance(e, _ast.Starred) for e in tgt.elts) == 1:
            # first, *middle, last = <sequence of concrete length>
            items = self.concrete_items(st, v)
            k = next(i for i, e in enumerate(tgt.elts) if isinstance(e, _ast.Starred))
            after = len(tgt.elts) - k - 1
            if items is not None and len(items) >= len(tgt.elts) - 1:
                parts = items[:k] + [self.new_list(st, items[k:len(items) - after])] + items[len(items) - after:]
                states = [st]
                for e, x in zip(tgt.elts, parts):
                    states = [s2 for s1 in states for s2 in self.assign(e.value if isinstance(e, _ast.Starred) else e, x, s1)]
                return states
        return super().assign(tgt, v, st)

    def binop(self, st, op, a, b, node, inplace=False):
        if op == "Add" and not inplace and isinstance(a, VRef) and isinstance(b, VRef) \
                and st.obj(a.ref).kind == "list" and st.obj(b.ref).kind == "list" \
                and st.obj(a.ref).data is not None and st.obj(b.ref).data is not None:
            return [(st, self.new_list(st, list(st.obj(a.ref).data) + list(st.obj(b.ref).data)))]
        if op == "Add" and inplace and isinstance(a, VRef) and st.heap.get(a.ref) is not None and st.obj(a.ref).kind == "symarr":
            items = self.concrete_items(st, b)
            if items is None:
                raise Unsupported(f"{self.loc(node)} += of a symbolic buffer by a value of symbolic length")
            self._grow(st, a.ref, items)
            return [(st, None)]
        if op == "Add" and (self._is_symb(a) or self._is_symb(b)) and self._bytes_like(a) and self._bytes_like(b):
            na, aa = arr_of(a)
            nb, ab = arr_of(b)
            k = z3.Int("k!cat")
            r = z3.Lambda([k], z3.If(k < na, z3.Select(aa, k), z3.Select(ab, k - na)))
            return [(st, symbytes(na + nb, r))]
        if op == "Mult" and isinstance(b, VInt) and b.const() is None and isinstance(a, (VRef, VTuple)) and not inplace:
            items = self.concrete_items(st, a)
            if items is not None and len(items) == 1 and isinstance(items[0], VInt):
                n = ops.int_term(b)          # [x] * n : n copies of x (no copy for n <= 0)
                return [(st, VSeq(z3.If(n < 0, z3.IntVal(0), n), lambda _j, x=items[0]: x, "int"))]
        if op == "Mult" and isinstance(a, VBytes) and len(a.items) == 1 and isinstance(b, VInt) and b.const() is None:
            n = ops.int_term(b)
            return [(st, symbytes(z3.If(n < 0, z3.IntVal(0), n), z3.K(I, byte_t(a.items[0]))))]
        return super().binop(st, op, a, b, node, inplace)

    def _is_symb(self, v):
        return isinstance(v, VSeq) and isinstance(v.tag, tuple) and v.tag[0] == "arr"

    def _bytes_like(self, v):
        return self._is_symb(v) or isinstance(v, VBytes)

    def seq_slice(self, st, base, sl, node):
        r = super().seq_slice(st, base, sl, node)
        if self._is_symb(base):
            out = []
            for (s2, v) in r:
                # array view of the slice as a lambda: v[k] == base[lo + k]  (no auxiliary axiom)
                a0 = base.tag[2]
                lo = self._slice_lo(st, base, sl, node)
                k = z3.Int("k!slice")
                out.append((s2, symbytes(v.length, z3.Lambda([k], z3.Select(a0, lo + k)))))
            return out
        return r

    def _slice_lo(self, st, base, sl, node):
        ln = base.length
        if sl.lower is None:
            return z3.IntVal(0)
        t = self._ev_int1(sl.lower, st, node)
        return z3.simplify(z3.If(t < 0, z3.If(t + ln < 0, z3.IntVal(0), t + ln), z3.If(t > ln, ln, t)))

    def compare(self, st, op, a, b, node):
        if op in ("Eq", "NotEq") and self._bytes_like(a) and self._bytes_like(b) and (self._is_symb(a) or self._is_symb(b)):
            na, aa = arr_of(a)
            nb, ab = arr_of(b)
            eq = seq_eq(na, aa, nb, ab)
            return [(st, VBool(eq if op == "Eq" else z3.Not(eq)))]
        return super().compare(st, op, a, b, node)

    # ---- the round-key cache read with `in` / `[]` instead of `.get` (same ASSUMED class invariant as the `.get` model: a
    #      cached value is the key expansion of its key and only valid key lengths are cached; established by the
    #      cache-invariant obligation at every store)
    def _cache_hit(self, st, key):
        try:
            n, a = arr_of(key)
        except Unsupported:
            return VExt("RoundKeys")
        st.assume(z3.Or(n == 16, n == 24, n == 32))
        return VExt("RoundKeys", KEXP(n, a))

    def contains(self, st, container, item, node):
        if isinstance(container, VExt) and container.sort == "RKCache":
            h = z3.Bool(fresh_name("cached"))
            try:
                n, a = arr_of(item)
                st.ghost["rk-membership"] = st.ghost.get("rk-membership", ()) + ((n, a, h),)
            except Unsupported:
                pass
            return [(st, VBool(h))]
        return super().contains(st, container, item, node)

    def get_index(self, st, base, idx, node):
        if isinstance(base, VExt) and base.sort == "RKCache":
            known = False
            try:
                n, a = arr_of(idx)
                for (n0, a0, h) in st.ghost.get("rk-membership", ()):
                    if n0.eq(n) and a0.eq(a) and not self.feasible(st.pc, z3.Not(h)):
                        known = True
            except Unsupported:
                pass
            if not known:
                miss = st.fork()
                self.raise_in(miss, self.mk_exc("KeyError"))
            return [(st, self._cache_hit(st, idx))]
        return self._get_index_sym(st, base, idx, node)

    # ---- comprehension == loop: a comprehension / generator expression with one `for` over a sequence of SYMBOLIC length is
    #      the sequence of its elements: element j is the element expression evaluated with the target bound to item j.  The
    #      expression is evaluated ONCE for a fresh index k (0 <= k < len); VCs it emits hold for every k; facts it assumes
    #      (callee postconditions) are kept universally quantified over k; it must be pure (no heap effect, no fork).
    def _subst(self, v, k, j):
        sub = lambda t: z3.substitute(t, (k, j))
        if isinstance(v, VInt):
            return VInt(sub(v.t))
        if isinstance(v, VBool):
            return VBool(sub(v.t))
        if isinstance(v, VBytes):
            return VBytes([self._subst(x, k, j) for x in v.items])
        if isinstance(v, VTuple):
            return VTuple([self._subst(x, k, j) for x in v.items])
        if self._is_symb(v):
            return symbytes(sub(v.tag[1]), sub(v.tag[2]))
        if isinstance(v, VExt) and v.t is not None:
            return VExt(v.sort, sub(v.t))
        raise Unsupported(f"comprehension element of kind {type(v).__name__} over a symbolic sequence")

    def _sym_comp(self, n, st):
        import ast as _ast
        if len(n.generators) != 1 or n.generators[0].ifs or n.generators[0].is_async:
            return None
        g = n.generators[0]
        its = self.ev(g.iter, st)
        if len(its) != 1:
            return None
        s1, it = its[0]
        if self.concrete_items(s1, it) is not None or not isinstance(it, VSeq):
            return ("plain", s1, it)
        k = z3.Int(fresh_name("k!comp"))
        rng = z3.And(k >= 0, k < it.length)
        s2 = s1.fork()
        s2.assume(rng)
        base_pc = len(s2.pc)
        bound = self.assign(g.target, it.elem(k), s2)
        if len(bound) != 1:
            raise Unsupported(f"{self.loc(n)} comprehension target forks")
        outs = self.ev(n.elt, bound[0])
        if len(outs) != 1:
            raise Unsupported(f"{self.loc(n)} comprehension element forks over a symbolic sequence")
        s3, v = outs[0]
        if any(s3.heap.get(r) is not o for r, o in s1.heap.items()) or len(s3.heap) != len(s1.heap):
            raise Unsupported(f"{self.loc(n)} comprehension element with a heap effect over a symbolic sequence")
        facts = s3.pc[base_pc:]
        if facts:
            s1.assume(z3.ForAll([k], z3.Implies(rng, z3.And(facts))))
        self._subst(v, k, k)      # kind check now (raises Unsupported)
        return ("sym", s1, VSeq(it.length, lambda j, v=v, k=k: self._subst(v, k, j), "comp"))

    def e_GeneratorExp(self, n, st):
        r = self._sym_comp(n, st)
        if r is not None and r[0] == "sym":
            return [(r[1], r[2])]
        return super().e_GeneratorExp(n, st)

    def e_ListComp(self, n, st):
        r = self._sym_comp(n, st)
        if r is not None and r[0] == "sym":
            return [(r[1], r[2])]
        return super().e_ListComp(n, st)

    def b_divmod(self, st, args, kwargs, node):
        """divmod(a, b) == (a // b, a % b) on integers (ZeroDivisionError path from the engine's `//`)"""
        if len(args) != 2 or kwargs or not all(isinstance(a, VInt) for a in args):
            return self.havoc_call(st, "divmod", args, node)
        out = []
        for (s1, q) in self.binop(st, "FloorDiv", args[0], args[1], node):
            r = ops.pure_binop("Mod", args[0], args[1])
            out.append((s1, VTuple([q, r])))
        return out

    def b_sum(self, st, args, kwargs, node):
        items = self.concrete_items(st, args[0])
        start = args[1] if len(args) > 1 else kwargs.get("start")
        if items is not None and isinstance(start, VRef) and st.obj(start.ref).kind == "list" and st.obj(start.ref).data is not None:
            acc = list(st.obj(start.ref).data)          # sum(<lists>, []) flattens
            for x in items:
                sub = self.concrete_items(st, x)
                if sub is None or not isinstance(x, VRef):
                    return super().b_sum(st, args, kwargs, node)
                acc += sub
            return [(st, self.new_list(st, acc))]
        return super().b_sum(st, args, kwargs, node)

    def b_all(self, st, args, kwargs, node):
        v = args[0]
        if isinstance(v, VSeq) and self.concrete_items(st, v) is None:
            j = z3.Int(fresh_name("j!all"))
            return [(st, VBool(z3.ForAll([j], z3.Implies(z3.And(j >= 0, j < v.length), self.truth(st, v.elem(j)).t))))]
        return super().b_all(st, args, kwargs, node)

    def b_any(self, st, args, kwargs, node):
        v = args[0]
        if isinstance(v, VSeq) and self.concrete_items(st, v) is None:
            j = z3.Int(fresh_name("j!any"))
            return [(st, VBool(z3.Exists([j], z3.And(j >= 0, j < v.length, self.truth(st, v.elem(j)).t))))]
        return super().b_any(st, args, kwargs, node)

    def _join_blocks(self, st, seq, node):
        """b"".join(<sequence of symbolic length whose elements are byte strings of one constant length L>)"""
        probe = seq.elem(z3.Int(fresh_name("j!probe")))
        if not isinstance(probe, VBytes) or not probe.items:
            raise Unsupported(f"{self.loc(node)} join of a symbolic sequence whose elements are not fixed-length byte strings")
        L = len(probe.items)
        x = z3.Int(fresh_name("x!join"))
        items = seq.elem(x / L).items
        body = byte_t(items[L - 1])
        for t in range(L - 2, -1, -1):
            body = z3.If(x % L == t, byte_t(items[t]), body)
        return symbytes(z3.simplify(L * seq.length), z3.Lambda([x], body))

    def bytes_method(self, st, obj, name, args, kwargs, node):
        if name == "join" and isinstance(obj, VBytes) and not obj.items and len(args) == 1 and isinstance(args[0], VGenJoined) and not kwargs:
            return [(st, args[0].joined)]
        if name == "join" and isinstance(obj, VBytes) and not obj.items and len(args) == 1 and isinstance(args[0], VSeq) \
                and self.concrete_items(st, args[0]) is None:
            return [(st, self._join_blocks(st, args[0], node))]
        if name == "join" and isinstance(obj, VBytes) and not obj.items and len(args) == 1:
            parts = self.concrete_items(st, args[0])
            if parts is not None and parts and all(self._bytes_like(x) for x in parts) and any(self._is_symb(x) for x in parts):
                acc = [(st, parts[0])]
                for x in parts[1:]:
                    acc = [(s2, r) for (s1, cur) in acc for (s2, r) in self.binop(s1, "Add", cur, x, node)]
                return acc
        return super().bytes_method(st, obj, name, args, kwargs, node)

    def truth(self, st, v):
        if isinstance(v, VExt) and v.sort == "RoundKeys":
            return VBool(True)
        return super().truth(st, v)


# ------------------------------------------------------- the installation site --
PYPDF_FALLBACK, PYPDF_PROVIDERS, PYPDF_ENCRYPTION = "pypdf._crypt_providers._fallback", "pypdf._crypt_providers", "pypdf._encryption"
PYPDF_MODULES = (PYPDF_FALLBACK, PYPDF_PROVIDERS, PYPDF_ENCRYPTION)
DRIVERS = ("aes_ecb_encrypt", "aes_ecb_decrypt", "aes_cbc_encrypt", "aes_cbc_decrypt")
LOOP_CUT_TAG = z3.Bool("__havoc__@loop cut by an invariant inferred from the roles of the locals")


class InstallExecutor(C20Executor):
    """Runs the REAL `patch_pypdf_fallback_aes` on an abstract model of the three pypdf modules it patches (ASSUMED: on the
    fallback provider `CryptAES` is one class object shared by the three modules, the four aes_* names are stubs that raise
    DependencyError, `crypt_provider` is a pair of strings).  Modules and the class are heap objects, so that what the code
    stores -- directly, through setattr, through helpers or loops -- is read off the final heap."""

    def module_obj(self, st, name):
        mods = st.ghost.get("pypdf-modules", {})
        if name not in mods:
            data = {}
            if name in PYPDF_MODULES:
                cls = self.class_obj(st)
                data = {"CryptAES": cls}
                data.update({d: VFunc("ext", f"pypdf-stub-raising-DependencyError.{d}") for d in DRIVERS})
            if name == PYPDF_PROVIDERS:
                data["crypt_provider"] = VTuple([VStr(z3.String("crypt_provider!name")), VStr(z3.String("crypt_provider!version"))])
            ref = st.alloc(HeapObj("obj", data, f"module:{name}", fresh=False), self.refs)
            st.ghost["pypdf-modules"] = dict(st.ghost.get("pypdf-modules", {}), **{name: ref})
        return VRef(st.ghost["pypdf-modules"][name])

    def class_obj(self, st):
        if "pypdf-CryptAES" not in st.ghost:
            st.ghost["pypdf-CryptAES"] = st.alloc(HeapObj("obj", {}, "class:CryptAES", fresh=False), self.refs)
        return VRef(st.ghost["pypdf-CryptAES"])

    def s_Import(self, s, st):
        from pyvc.symex import Outcome
        for a in s.names:
            if a.name.split(".")[0] != "pypdf":
                return super().s_Import(s, st)
            st.bind(a.asname or "pypdf", self.module_obj(st, a.name if a.asname else "pypdf"))
        return [Outcome("fall", st)]

    def s_ImportFrom(self, s, st):
        from pyvc.symex import Outcome
        if (s.module or "").split(".")[0] != "pypdf" or s.level:
            return super().s_ImportFrom(s, st)
        for a in s.names:
            full = f"{s.module}.{a.name}"
            if any(m == full or m.startswith(full + ".") for m in PYPDF_MODULES):
                st.bind(a.asname or a.name, self.module_obj(st, full))
            else:
                for (_s2, v) in self.get_attr(st, self.module_obj(st, s.module), a.name, s):
                    st.bind(a.asname or a.name, v)
        return [Outcome("fall", st)]

    def get_attr(self, st, base, attr, node):
        if isinstance(base, VFunc) and attr in ("__name__", "__qualname__") and base.how in ("repo", "closure"):
            return [(st, VStr(base.b.split(".")[-1] if base.how == "repo" else base.a.name))]
        if isinstance(base, VRef) and st.obj(base.ref).kind == "obj" and (st.obj(base.ref).cls or "").startswith("module:"):
            o = st.obj(base.ref)
            if attr in o.data:
                return [(st, o.data[attr])]
            name = o.cls[len("module:"):] + "." + attr
            if any(m == name or m.startswith(name + ".") for m in PYPDF_MODULES):
                return [(st, self.module_obj(st, name))]
            return [(st, VUnk(f"{name}"))]
        return super().get_attr(st, base, attr, node)


def run_install_site(repo):
    """-> {"error": str} | {"outcomes": [(state, returned V)], "ex": executor, "fnode": ...}   (cached per tree)"""
    from pyvc import loader
    from pyvc.contracts import Registry
    from pyvc.exctypes import Universe
    from pyvc.state import Frame, State
    key = repo or loader.REPO
    if key in _INSTALL_CACHE:
        return _INSTALL_CACHE[key]
    res = {}
    try:
        m = loader.module(AES, repo)
        fnode = m.functions.get("patch_pypdf_fallback_aes")
        if fnode is None:
            raise Unsupported("patch_pypdf_fallback_aes not found")
        reg = Registry()

        def m_import_module(ex_, st_, args, kwargs, node):
            if args and isinstance(args[0], VStr) and args[0].const() is not None and args[0].const().split(".")[0] == "pypdf" and len(args) == 1:
                return [(st_, ex_.module_obj(st_, args[0].const()))]
            raise Unsupported(f"{ex_.loc(node)} import_module of a computed / foreign name")
        reg.ext_models["importlib.import_module"] = m_import_module
        ex = InstallExecutor(m, reg, Universe(key))
        st = State()
        st.frames = [Frame({}, None, fnode)]
        ex.cur_fn_stack.append(fnode)
        ex.sinks.append([])
        try:
            outs = ex.exec_block(fnode.body, st)
        finally:
            raised = ex.sinks.pop()
            ex.cur_fn_stack.pop()
        if ex.exc_any_sites:
            raise Unsupported("the installation function calls code without a model: " + "; ".join(sorted(ex.exc_any_sites))[:200])
        res = {"ex": ex, "fnode": fnode, "module": m, "raised": raised,
               "outcomes": [(o.st, o.val if o.kind == "return" else NONE) for o in outs if o.kind in ("return", "fall")]}
    except Unsupported as e:
        res = {"error": str(e)}
    except Exception as e:  # noqa -- a shape the model does not cover is not an engine error: undecided, native replay decides
        res = {"error": f"{type(e).__name__}: {e}"}
    _INSTALL_CACHE[key] = res
    return res


_INSTALL_CACHE = {}


def installed_methods(repo):
    """{"__init__" | "encrypt" | "decrypt": qualname} of the functions the real installation code binds on CryptAES (data flow of
    the executed function, not names); {} when the site is not understood"""
    r = run_install_site(repo)
    found = {}
    for (st, val) in r.get("outcomes", []):
        if not (isinstance(val, VBool) and z3.is_true(z3.simplify(val.t))):
            continue
        if "pypdf-CryptAES" not in st.ghost:
            continue
        data = st.obj(st.ghost["pypdf-CryptAES"]).data
        for role in ("__init__", "encrypt", "decrypt"):
            q = func_qualname(r, data.get(role))
            if q is not None:
                found.setdefault(role, set()).add(q)
    return {k: next(iter(v)) for k, v in found.items() if len(v) == 1}


def func_qualname(r, v):
    if isinstance(v, VFunc) and v.how == "repo" and v.a == AES:
        return v.b
    if isinstance(v, VFunc) and v.how == "closure":
        for q, node in r["module"].functions.items():
            if node is v.a:
                return q
    return None


# ------------------------------------------------------------- spec relations --
def chain(j, iva, ca):
    """previous ciphertext block of block j: the IV for j == 0"""
    return [z3.If(j == 0, z3.Select(iva, u), z3.Select(ca, 16 * (j - 1) + u)) for u in range(16)]


def ecb_at(fns, rk, a, ra, nblocks, j):
    return z3.Implies(z3.And(j >= 0, j < nblocks), z3.And([z3.Select(ra, 16 * j + t) == fns[t](rk, *blk(a, j)) for t in range(16)]))


def cbc_enc_at(rk, iva, a, ra, nblocks, j):
    x = [p_ ^ c_ for p_, c_ in zip(blk(a, j), chain(j, iva, ra))]
    return z3.Implies(z3.And(j >= 0, j < nblocks), z3.And([z3.Select(ra, 16 * j + t) == CIPH[t](rk, *x) for t in range(16)]))


def cbc_dec_at(rk, iva, a, ra, nblocks, j):
    prev = chain(j, iva, a)
    return z3.Implies(z3.And(j >= 0, j < nblocks),
                      z3.And([z3.Select(ra, 16 * j + t) == DECIPH[t](rk, *blk(a, j)) ^ prev[t] for t in range(16)]))


def pad_rel(n, a, rn, ra):
    """ra[0:rn] is a[0:n] followed by p bytes of value p, p = 16 - n % 16"""
    p = 16 - n % 16
    return z3.And(rn == n + p, seq_eq(n, ra, n, a), seq_eq(p, view(ra, n), p, z3.K(I, z3.Int2BV(p, 8))))


def valid_padding(n, a):
    last = z3.Select(a, n - 1)
    p = z3.BV2Int(last)
    return z3.And(p >= 1, p <= 16, p <= n, seq_eq(p, view(a, n - p), p, z3.K(I, last)))


def unpad_rel(n, a, rn, ra):
    p = z3.BV2Int(z3.Select(a, n - 1))
    return z3.If(n == 0, rn == 0, z3.And(valid_padding(n, a), rn == n - p, seq_eq(rn, ra, rn, a)))
