"""C03: heading-section iterators -- one iteration of the paragraph loop of OdtContent.iterate_units under a two-state
contract ("code fragment under contract", cf. ENGINE.md C02 round 2), plus the BOUNDED native section scope for
doc / docx / odt.

Statement: for flowing-text formats there is one unit per heading section, in source order, and every piece of body
text is returned in the unit it belongs to and in no other.  For the loop that builds the units this means, for ONE
paragraph p and an arbitrary state of the running section (collected lines L, finished units U, next number N):

  * p is a heading with text          =>  the running section is closed: L' is empty (nothing of it leaks into the next
                                          section), U' is U or U plus ONE unit, that unit is numbered N and N' = N + 1;
  * p is not a heading with text      =>  U' = U, N' = N, and L' is L or L plus exactly strip(p.text);
  * p is a plain body paragraph (no outline level, no style name) with text  =>  L' = L + [strip(p.text)].

The real loop body (and the real nested flush function it calls) is executed symbolically from an arbitrary entry
state; the heading stack / pending tables are left unknown (over-approximated), therefore a solver counter-model is
not taken as a refutation: the obligation becomes `unknown` and the native section search (replay/C03.py) decides.
"""
from __future__ import annotations

import ast
import json
import os
import subprocess

import z3

from pyvc import loader, ops, verify
from pyvc.contracts import Registry
from pyvc.exctypes import Universe
from pyvc.flow import dotted, ground_obligation
from pyvc.ops import Unsupported
from pyvc.state import Frame, HeapObj, State
from pyvc.values import NONE, VBool, VExt, VFunc, VInt, VRef, VSeq, VStr, VUnk, ext_sort, fresh_name

from contracts import c03_exec as X
from contracts.c03_exec import AUnit, DT, I, S, B, STRIP, fld

ROOT = os.path.dirname(os.path.dirname(os.path.abspath(__file__)))


def _ann_kind(ann, unit):
    if ann is None:
        return "unk"
    t = ast.unparse(ann).replace(" ", "")
    if t in ("list[str]", "List[str]"):
        return "str"
    if t in (f"list[{unit}]", f"List[{unit}]"):
        return "unit"
    return "unk"


def _seq_of(st, v):
    """(length term, elem fn) of a list value in st (abstract or concrete)."""
    if isinstance(v, VRef):
        o = st.obj(v.ref)
        if o.kind == "alist":
            return o.data.length, o.data.elem
        if o.kind == "list" and o.data is not None:
            items = list(o.data)
            return z3.IntVal(len(items)), (lambda k, items=items: X._sel(items, k))
    return None


def _same_elem(a, b):
    if isinstance(a, AUnit) and isinstance(b, AUnit):
        return z3.And(a.num == b.num, a.text == b.text)
    if isinstance(a, VStr) and isinstance(b, VStr):
        return a.t == b.t
    return z3.BoolVal(False)


def _prefix_same(x, e, n):
    k = z3.Int("k!ps")
    return z3.ForAll([k], z3.Implies(z3.And(k >= 0, k < n), _same_elem(x(k), e(k))))


def odt_step(repo, tier):
    cls, unit = "OdtContent", "OdtUnit"
    q = f"{cls}.iterate_units"
    pre = f"C03/data_types.py::{q}/block#paragraph-step."
    labels = ["heading-closes-the-running-section", "heading-emits-at-most-one-unit-numbered-by-the-counter",
              "non-heading-never-closes-a-section-and-adds-at-most-its-own-text", "plain-body-paragraph-is-collected"]

    def unknown_all(why):
        return {"obligations": [ground_obligation(pre + l, False, why, DT, definite=False) for l in labels], "functions": []}

    mod = loader.module(DT, repo)
    fn = mod.functions.get(q)
    if fn is None:
        return unknown_all("contract-target-missing")
    loops = [n for n in fn.body if isinstance(n, ast.For) and ast.unparse(n.iter) == "self.paragraphs" and isinstance(n.target, ast.Name)]
    flushes = []
    for nf in [n for n in fn.body if isinstance(n, ast.FunctionDef)]:
        for n in ast.walk(nf):
            if isinstance(n, ast.Call) and isinstance(n.func, ast.Attribute) and n.func.attr == "append" and isinstance(n.func.value, ast.Name) \
                    and len(n.args) == 1 and isinstance(n.args[0], ast.Call) and dotted(n.args[0].func) == unit:
                k = [x.value for x in n.args[0].keywords if x.arg == "unit_number"]
                if k and isinstance(k[0], ast.Name):
                    flushes.append((nf, n.func.value.id, k[0].id))
    if len(loops) != 1 or len(flushes) != 1:
        return unknown_all(f"shape not recognised: {len(loops)} paragraph loop(s), {len(flushes)} numbering flush function(s)")
    loop, (flush, units_name, ctr_name) = loops[0], flushes[0]
    nonloc = {n for s in flush.body if isinstance(s, ast.Nonlocal) for n in s.names}
    lines_names = {n.func.value.id for n in ast.walk(loop) if isinstance(n, ast.Call) and isinstance(n.func, ast.Attribute)
                   and n.func.attr == "append" and isinstance(n.func.value, ast.Name) and n.func.value.id in nonloc}
    if len(lines_names) != 1:
        return unknown_all(f"collected-lines list not recognised: {sorted(lines_names)}")
    lines_name = lines_names.pop()

    from contracts import C03 as pack
    reg = Registry()
    for c in pack.contracts(reg):
        reg.add(c)
    uni = Universe(repo)
    ex = pack.C03Executor(mod, reg, uni)
    ex.oid_prefix = f"C03/data_types.py::{q}"
    st = State()
    env = {"self": VExt(cls, z3.Const("self", ext_sort(cls)))}
    # every local the function defines before the loop, with an ARBITRARY value of its kind
    for s_ in fn.body[:fn.body.index(loop)]:
        if isinstance(s_, ast.FunctionDef):
            env[s_.name] = VFunc("closure", s_, 0)
            continue
        for a in ast.walk(s_) if not isinstance(s_, ast.If) else []:
            if isinstance(a, (ast.Assign, ast.AnnAssign)):
                tg = a.targets[0] if isinstance(a, ast.Assign) else a.target
                if not isinstance(tg, ast.Name) or a.value is None:
                    continue
                v, name = a.value, tg.id
                if isinstance(v, ast.List) or (isinstance(v, ast.IfExp) and isinstance(v.body, ast.List)):
                    kind = _ann_kind(getattr(a, "annotation", None), unit)
                    if isinstance(v, ast.IfExp):
                        kind = "str"
                    sq = X.fresh_seq_like(kind, name)
                    st.assume(sq.length >= 0)
                    env[name] = ex.new_alist(st, sq, fresh=False)
                elif isinstance(v, ast.Constant) and isinstance(v.value, bool):
                    env[name] = VBool(z3.Bool(name))
                elif isinstance(v, ast.Constant) and isinstance(v.value, int):
                    env[name] = VInt(z3.Int(name))
                elif isinstance(v, ast.Constant) and v.value is None:
                    env[name] = VUnk(name)
                else:
                    env[name] = VUnk(name)
    for need in (units_name, ctr_name, lines_name, flush.name):
        if need not in env:
            return unknown_all(f"local {need} is not initialised before the paragraph loop")
    p = VExt("OdtParagraph", z3.Const("paragraph", ext_sort("OdtParagraph")))
    env[loop.target.id] = p
    st.frames = [Frame(env, None, fn)]
    entry = st.fork()
    ex.cur_fn_stack.append(fn)
    ex.sinks.append([])
    try:
        outs = ex.exec_block(loop.body, st)
    except (Unsupported, X.Unsupported) as e:
        return unknown_all("OUT-OF-SUBSET " + str(e))
    finally:
        ex.sinks.pop()
        ex.cur_fn_stack.pop()

    level_none = fld("OdtParagraph", "outline_level.is_none", B)(p.t)
    style_none = fld("OdtParagraph", "style_name.is_none", B)(p.t)
    text = STRIP(fld("OdtParagraph", "text", S)(p.t))
    H = z3.And(z3.Not(level_none), z3.Length(text) > 0)
    plain = z3.And(level_none, style_none, z3.Length(text) > 0)
    LE, UE = _seq_of(entry, env[lines_name]), _seq_of(entry, env[units_name])
    NE = env[ctr_name].t
    n_paths = 0
    for o in outs:
        if o.kind not in ("fall", "continue"):
            continue
        n_paths += 1
        LX, UX = _seq_of(o.st, o.st.lookup(lines_name)), _seq_of(o.st, o.st.lookup(units_name))
        NXv = o.st.lookup(ctr_name)
        if LX is None or UX is None or not isinstance(NXv, VInt):
            goals = [(l, z3.BoolVal(False)) for l in labels]
        else:
            NX = ops.int_term(NXv)
            (lx, ex_), (le, ee) = LX, LE
            (ux, uxe), (ue, uee) = UX, UE
            units_same = z3.And(ux == ue, _prefix_same(uxe, uee, ue), NX == NE)
            last = uxe(ue)
            one_more = z3.And(ux == ue + 1, _prefix_same(uxe, uee, ue), NX == NE + 1,
                              (last.num == NE) if isinstance(last, AUnit) else z3.BoolVal(False))
            lines_same = z3.And(lx == le, _prefix_same(ex_, ee, le))
            added = ex_(le)
            lines_plus = z3.And(lx == le + 1, _prefix_same(ex_, ee, le), (added.t == text) if isinstance(added, VStr) else z3.BoolVal(False))
            goals = [(labels[0], z3.Implies(H, lx == 0)),
                     (labels[1], z3.Implies(H, z3.Or(units_same, one_more))),
                     (labels[2], z3.Implies(z3.Not(H), z3.And(units_same, z3.Or(lines_same, lines_plus)))),
                     (labels[3], z3.Implies(plain, lines_plus))]
        for label, g in goals:
            ex.add_vc("block", "paragraph-step." + label, o.st.pc, g, loc=f"{DT}:{loop.lineno}")
    if not n_paths:
        return unknown_all("the loop body has no normal outcome")
    obls = []
    for ob in ex.obls.values():
        d = dict(verify.discharge(ob, None, {}), function=f"{DT}::{q}")
        if d["status"] == "refuted":
            # the heading stack, pending tables and the unit's heading path are over-approximated: a counter-model is a
            # candidate only; the native section search (REPLAY_UNKNOWN) turns it into a violation with a document, or it stays undecided
            d["status"] = "unknown"
            d["reason"] = "counter-model on an over-approximated path (candidate only): " + (d.get("reason") or "")
        obls.append(d)
    return {"obligations": obls, "functions": [dict(mod.fn_info(q), obligations=len(obls), paths=n_paths)]}


# --------------------------------------------------------------- BOUNDED native scope --
SECTION_CLASSES = ("DocContent", "DocxContent", "OdtContent")


def recorded_exclusions(prop="C03"):
    try:
        kf = json.load(open(os.path.join(ROOT, "known_findings.json"))).get("findings", [])
    except (OSError, ValueError):
        kf = []
    out = {}
    for f in kf:
        if f.get("property") == prop and f.get("class"):
            out.setdefault(f["class"], set()).update(f.get("exclusion", []))
    return {k: sorted(v) for k, v in out.items()}


def _native(req, repo, timeout=900):
    try:
        p = subprocess.run(["/venv/bin/python", os.path.join(ROOT, "replay", "run.py")], input=json.dumps(req), capture_output=True,
                           text=True, timeout=timeout, env=dict(os.environ, VERIF_REPO=repo))
        lines = [l for l in p.stdout.splitlines() if l.startswith("{")]
        return json.loads(lines[-1]) if lines else {"error": (p.stderr or p.stdout)[-400:]}
    except Exception as e:  # noqa
        return {"error": str(e)}


def section_oid(cls):
    return f"C03/replay::heading-sections[{cls}]/bounded#body-text-in-the-unit-of-its-section.BOUNDED"


def native_sections(repo, tier):
    """BOUNDED stand-in (DESIGN 2.8): every document of <= 5 paragraphs over {heading level 1, heading level 2 (both with a
    fixed, hence REPEATED, text), heading without text, body paragraph, empty paragraph} is built natively for doc / docx /
    odt and compared with the section spec of replay/C03.py.  A mismatch outside the recorded exclusions is a violation
    with its document; no mismatch is `bounded-ok` (never counted as discharged)."""
    obls, und = [], []
    excl = recorded_exclusions()
    for cls in SECTION_CLASSES:
        oid = section_oid(cls)
        res = _native({"property": "C03", "obligation": oid, "function": f"{DT}::{cls}.iterate_units", "repo": repo, "exclude_features": excl}, repo)
        if "error" in res or "crashed" in str(res.get("note", "")):
            und.append({"obligation": oid, "why": "native scope could not run: " + str(res.get("error", res.get("note")))[:300]})
            continue
        ok = not res.get("reproduced")
        o = ground_obligation(oid, ok, "" if ok else f"{json.dumps(res.get('inputs'))[:300]} -> {str(res.get('observed'))[:200]} (expected {str(res.get('expected'))[:200]})",
                              "replay/C03.py", kind="bounded", backend="native-replay")
        o["bounded"] = True
        o["bound"] = "documents of <= 5 paragraphs over {h1 (fixed text), h2 (fixed text), heading without text, body paragraph (distinct text), body paragraph (repeated text), empty paragraph}; docx / odt also <= 5 paragraphs over {h1, h2, h3 (each with a text of its own), body paragraph}: every heading in the heading path of a unit"
        if excl.get(cls):
            o["exclusions"] = excl[cls]
        obls.append(o)
    return {"obligations": obls, "undecided": und}


DOC_FORMATS = ("pdf", "pptx", "odp", "epub", "rtf", "xlsx", "ods", "eml", "mbox", "ppt", "txt", "html")


def documents_oid(fmt):
    return f"C03/replay::generated-documents[documents:{fmt}]/bounded#units-mirror-the-generated-document.BOUNDED"


def native_documents(repo, tier):
    """BOUNDED stand-in (DESIGN 2.8) for the part of the property that lives in code not under a symbolic contract (element text built
    by the extractors: paragraphs / shapes of a slide, inline parts of a message, pages that cannot be read, ...): small documents of
    every format are GENERATED natively (replay/C03.py), read with the real extractor and compared with the statement -- one unit per
    page / slide / sheet / chapter / message at its source position, every generated text token exactly once and in the unit of its
    element, full text == joined unit texts.  A mismatch outside the recorded exclusions is a violation with its document; no mismatch
    is `bounded-ok` (never counted as discharged)."""
    excl = recorded_exclusions()
    res = _native({"property": "C03", "scope": "documents", "repo": repo, "exclude_features": excl}, repo)
    obls, und = [], []
    if "error" in res or "results" not in res:
        return {"obligations": [], "undecided": [{"obligation": documents_oid(f), "why": "native scope could not run: " + str(res.get("error", res.get("note")))[:300]}
                                                 for f in DOC_FORMATS]}
    bounds = {"pdf": "1..3 pages, blank / one text token each, any subset of pages unreadable / without content; pages with identical content bytes that differ only in their /Resources (form XObject, font encoding)",
              "pptx": "0..3 slides x {text, empty, hidden}; 1..2 slides x 1..3 shapes over {title, ctrTitle, body, subTitle, text box}; parts stored in reverse order",
              "odp": "0..3 slides x {text, empty}; 1..2 slides x 1..3 paragraphs over {Title, TitleText, BodyText, other style, no style}; slides with a speaker-notes page (1..2 note paragraphs, first / last child)",
              "epub": "0..3 spine items x {text, empty, missing from the manifest}, linear=no items; 1..2 chapters x 2..3 blocks over {h1, p, li}",
              "txt": "0..3 paragraphs", "html": "0..3 paragraphs (p / div)", "rtf": "1..3 pages over {text, empty, blank, Unicode runs, hex escapes}",
              "xlsx": "1..3 sheets x {data, empty}, names not sorted", "ods": "1..3 sheets x {data, empty}, names not sorted",
              "eml": "1..3 inline text parts over {plain, html}, multipart/mixed and /alternative",
              "mbox": "1..3 messages x {body, empty, two lines}, padded / unpadded, LF / CRLF, header-only; messages without / with repeated / empty Message-ID; 1..3 inline text parts per message",
              "ppt": "record streams: 0..2 slides x {no text, 1, 2 text atoms} x {loose text atom}; 1..3 slides x 1..3 text atoms (token coverage); fixture slide_with_notes.ppt"}
    for fmt in DOC_FORMATS:
        r = res["results"].get(fmt)
        oid = documents_oid(fmt)
        if r and "error" in r:
            und.append({"obligation": oid, "why": "native scope crashed: " + r["error"][-300:]})
            continue
        ok = not r
        o = ground_obligation(oid, ok, "" if ok else f"{json.dumps(r.get('inputs'), default=repr)[:300]} -> {str(r.get('observed'))[:250]} (expected {str(r.get('expected'))[:160]})",
                              "replay/C03.py", kind="bounded", backend="native-replay")
        o["bounded"] = True
        o["bound"] = bounds[fmt]
        if excl.get(fmt):
            o["exclusions"] = excl[fmt]
        obls.append(o)
    return {"obligations": obls, "undecided": und}


def slide_text_fragments(repo, tier):
    """Slide text of odp / pptx: the paragraph loops of odp_extractor._extract_slide and the placeholder classification of
    pptx_extractor._process_slide_from_context are under C02's fragment contracts (every visible paragraph / shape text is stored
    exactly once in title / body_text / other_text, i.e. in the text of ITS slide's unit).  C03 shares them (same real AST fragments,
    same executor); the obligations are listed under C03 because a text that is stored nowhere is in no unit."""
    from contracts import C02
    r = C02.fragment_obligations(repo, tier)

    def ren(x):
        return ("C03/" + x[4:]) if isinstance(x, str) and x.startswith("C02/") else x
    for o in r.get("obligations", []):
        o["id"] = ren(o["id"])
    for u in r.get("undecided", []):
        u["obligation"] = ren(u.get("obligation"))
    return r


def known_findings(kf, violations, repo, tier):
    """Recorded genuine defects: every witness is replayed natively; one that still fails prints KNOWN-FINDING.  The
    findings exclude document FEATURES from the bounded section scope of their class (listed in the evidence); they
    never cover a violated obligation."""
    out = []
    for f in kf:
        res = _native({"property": "C03", "obligation": f["obligation"], "known_finding": f["id"], "witness": f.get("witness"), "repo": repo}, repo, 300)
        out.append({"finding": f["id"], "still_fails": bool(res.get("reproduced")), "line": f"{f['id']}: {f['what']}", "covers": [],
                    "exclusion": f.get("exclusion"), "witness_replay": str(res.get("observed", res.get("note", res.get("error", ""))))[:300]})
    return out
