"""C05 pack-local symbolic executor: Python values as terms of the spec universe (contracts/c05spec.py).

What it adds to pyvc.symex.Executor (nothing here restates a body under contract; these are the
*language / library semantics* the bodies are executed under, each listed in ASSUMED_MODELS):

* `PV`   a Python value denoted by a term of sort PyV.  The kind of a parameter is case-split by the
         parameter maker (one verification alternative per constructor), so `isinstance` cascades decide.
* `PH`   a type hint (sort Hint), with `typing.get_origin / get_args`, `is` tests, `isinstance(h, type)`.
* comprehensions over a PV list / mapping are evaluated **element-wise**: the element expression is
  executed once on an arbitrary element; the obligation `comp-elementwise` says it equals the element
  function of the spec map (SER / DESER on that element), and the comprehension denotes the spec map.
* `for x in fields(obj)` over the (symbolic) field list of a dataclass instance: prefix induction
  (`inv-init`, `inv-preserve`, exit with the whole list) with the invariant of the contract.
* `for name in {f.name for f in fields(cls)}`: iteration over a finite set in arbitrary order
  (processed-set induction).
* dict stores with symbolic keys: insertion-ordered association list (DSET) or, for keyword
  dictionaries, a pair of arrays (present, value).
"""
import ast

import z3

from pyvc import ops
from pyvc.ops import Unsupported
from pyvc.state import HeapObj
from pyvc.symex import Executor, LoopCtx, Outcome
from pyvc.values import (NONE, V as Val, VBool, VExc, VFunc, VInt, VNoneT, VReal, VRef, VSeq, VStr, VTuple, VType, VUnk,
                         fresh_name)
from contracts import c05spec as sp

T, F = z3.BoolVal(True), z3.BoolVal(False)
V, VL, KV, SL, H = sp.V, sp.VL, sp.KV, sp.SL, sp.H
sv = sp.sv

DICTSUB = z3.Function("DICTSUB", sp.S, sp.B)        # the class is a subclass of dict (ImageMetadata)
ISTYPE_OTHER = z3.Function("ISTYPE_OTHER", sp.I, sp.B)
BIN_NONEMPTY = z3.Function("BIN_NONEMPTY", sp.Bin, sp.B)
OTHER_TRUTHY = z3.Function("OTHER_TRUTHY", V, sp.B)          # e.g. timedelta(0) is falsy
UNITS_N = z3.Function("UNITS_N", V, sp.I)
UNIT = z3.Function("UNIT", V, sp.I, V)


class PV(Val):
    kind = "pv"
    __slots__ = ("t", "fresh")

    def __init__(self, t, fresh=False):
        self.t, self.fresh = t, fresh

    def __repr__(self):
        return "PV"


class PH(Val):
    kind = "ph"
    __slots__ = ("t",)

    def __init__(self, t):
        self.t = t

    def __repr__(self):
        return "PH"


class PTok(Val):
    """Opaque helper objects: ('cls', name) class object; ('fields', kv) fields(instance); ('field', name, val);
    ('items', kv); ('clsfields', name); ('nameset', name); ('origin', h); ('args', h); ('registry',); ('hints', name);
    ('bin', Bin term); ('b64', Bin term) base64 text as bytes; ('enc', String term) str.encode('utf-8')."""
    kind = "ptok"
    __slots__ = ("what", "a", "b")

    def __init__(self, what, a=None, b=None):
        self.what, self.a, self.b = what, a, b

    def __repr__(self):
        return f"PTok({self.what})"


# FIELD_HAS("default" | "default_factory", field name): the dataclass field declares one (is not dataclasses.MISSING)
FIELD_HAS = z3.Function("FIELD_HAS", z3.StringSort(), z3.StringSort(), z3.BoolSort())


def tname(x):
    """Dotted name of a class object as the executor represents it."""
    if isinstance(x, VType):
        return x.name
    if isinstance(x, VFunc) and x.how == "ext":
        return x.a
    return None


def cls_name(v):
    """String term naming the class denoted by a class-object value (registry entry or class-valued hint)."""
    if isinstance(v, PTok) and v.what == "cls":
        return v.a
    if isinstance(v, PH):
        return sp.norm(hname(v.t))
    return None


def hname(h):
    """`annotation.__name__` for annotations that are classes."""
    return sp.ite((H.is_HCls(h), H.cname(h)), (H.is_HAny(h), sv("Any")), (H.is_HBytes(h), sv("bytes")), (H.is_HBytearray(h), sv("bytearray")),
                  (H.is_HBytesIO(h), sv("BytesIO")),
                  (H.is_HPrim(h), sp.ite((H.pk(h) == 1, sv("str")), (H.pk(h) == 2, sv("int")), (H.pk(h) == 3, sv("float")), sv("bool"))),
                  sv("<not a class>"))


BUILTIN_CLASS_NAMES = ("Any", "bytes", "bytearray", "BytesIO", "str", "int", "float", "bool", "list", "dict", "tuple", "set")


def istype(h):
    """isinstance(annotation, type): classes (typing.Any is a class since 3.11); generic aliases and unions are not."""
    return z3.Or(H.is_HCls(h), H.is_HAny(h), H.is_HBytes(h), H.is_HBytearray(h), H.is_HBytesIO(h), H.is_HPrim(h))


def nargs(h):
    return sp.ite((H.is_HList(h), z3.IntVal(1)), (H.is_HDict(h), z3.IntVal(2)), (H.is_HOpt(h), z3.IntVal(2)), (H.is_H604(h), z3.IntVal(2)), z3.IntVal(0))


def truthy(t):
    return sp.ite((V.is_Non(t), F), (V.is_Bool(t), V.b(t)), (V.is_Int(t), V.i(t) != 0), (V.is_Float(t), V.r(t) != 0), (V.is_Str(t), V.s(t) != sv("")),
                  (V.is_List(t), VL.is_cons(V.items(t))), (V.is_Tuple(t), VL.is_cons(V.titems(t))), (V.is_Set(t), VL.is_cons(V.sitems(t))),
                  (V.is_Dict(t), KV.is_kcons(V.ents(t))), (V.is_Bytes(t), BIN_NONEMPTY(V.bp(t))), (V.is_Other(t), OTHER_TRUTHY(t)), T)


KIND_OF_TYPE = {"datetime.datetime": (sp.K_DATETIME,), "datetime.date": (sp.K_DATE, sp.K_DATETIME), "datetime.time": (sp.K_TIME,),
                "datetime.timedelta": (sp.K_TIMEDELTA,), "decimal.Decimal": (sp.K_DECIMAL,)}


def type_name_of(t):
    """type(x).__name__ for a value of V."""
    kinds = sp.ite(*[(V.kind(t) == k, sv(n.split(".")[-1])) for k, n in sp.KIND_NAMES.items()], sv("object"))
    return sp.ite((V.is_DC(t), V.cls(t)), (V.is_Non(t), sv("NoneType")), (V.is_Bool(t), sv("bool")), (V.is_Int(t), sv("int")), (V.is_Float(t), sv("float")),
                  (V.is_Str(t), sv("str")), (V.is_Bytes(t), sv("bytes")), (V.is_BytesIO(t), sv("BytesIO")), (V.is_List(t), sv("list")),
                  (V.is_Tuple(t), sv("tuple")), (V.is_Set(t), sv("set")), (V.is_Dict(t), sv("dict")), kinds)


def exact_type_term(t, name):
    """Bool term for `type(<PV t>) is <class name>` or None when the class is not modelled."""
    if name in KIND_OF_TYPE:
        return z3.And(V.is_Other(t), V.kind(t) == KIND_OF_TYPE[name][0])
    n = name.split(".")[-1]
    table = {"BytesIO": V.is_BytesIO(t), "dict": V.is_Dict(t), "list": V.is_List(t), "tuple": V.is_Tuple(t), "set": V.is_Set(t), "str": V.is_Str(t),
             "bool": V.is_Bool(t), "int": V.is_Int(t), "float": V.is_Float(t), "NoneType": V.is_Non(t), "object": F, "type": F, "frozenset": F}
    return table.get(n)      # bytes / bytearray share one kind in V: not decidable exactly -> None


NUMBER_TOWER = {"numbers.Number": lambda t: z3.Or(V.is_Int(t), V.is_Float(t), V.is_Bool(t), z3.And(V.is_Other(t), V.kind(t) == sp.K_DECIMAL)),
                "numbers.Real": lambda t: z3.Or(V.is_Int(t), V.is_Float(t), V.is_Bool(t)), "numbers.Rational": lambda t: z3.Or(V.is_Int(t), V.is_Bool(t)),
                "numbers.Integral": lambda t: z3.Or(V.is_Int(t), V.is_Bool(t))}


def isinstance_term(t, name):
    """Bool term for isinstance(<PV t>, <class name>) or None when the class is not modelled."""
    n = name.split(".")[-1] if name not in KIND_OF_TYPE else name
    if name in NUMBER_TOWER:
        return NUMBER_TOWER[name](t)
    if name in KIND_OF_TYPE:
        return z3.And(V.is_Other(t), z3.Or([V.kind(t) == k for k in KIND_OF_TYPE[name]]))
    table = {"BytesIO": V.is_BytesIO(t), "bytes": V.is_Bytes(t), "bytearray": V.is_Bytes(t),
             "dict": z3.Or(V.is_Dict(t), z3.And(V.is_DC(t), DICTSUB(V.cls(t)))), "list": V.is_List(t), "tuple": V.is_Tuple(t), "set": V.is_Set(t),
             "frozenset": F, "str": V.is_Str(t), "bool": V.is_Bool(t), "int": z3.Or(V.is_Int(t), V.is_Bool(t)), "float": V.is_Float(t),
             "type": F, "NoneType": V.is_Non(t), "object": T}
    return table.get(n)


def _is_free_const(e):
    return z3.is_const(e) and e.decl().kind() == z3.Z3_OP_UNINTERPRETED and e.sort() in (V, VL, KV, SL, H)


def _occurs(c, e):
    seen, stack = set(), [e]
    while stack:
        x = stack.pop()
        if x.get_id() in seen:
            continue
        seen.add(x.get_id())
        if x.get_id() == c.get_id():
            return True
        stack.extend(x.children())
    return False


def propagate_equalities(pc, goal, rounds=6):
    """Replace a datatype-sorted constant c by t wherever the path condition contains c == t (c not in t), then
    re-normalise: lets the definitional rewriting see through accumulators constrained by a loop invariant."""
    for _ in range(rounds):
        sub = None
        for c in pc:
            if z3.is_eq(c):
                a, b = c.arg(0), c.arg(1)
                if _is_free_const(a) and not _occurs(a, b):
                    sub = (a, b)
                elif _is_free_const(b) and not _occurs(b, a):
                    sub = (b, a)
                if sub is not None and z3.is_const(sub[1]) and sub[1].decl().kind() == z3.Z3_OP_UNINTERPRETED:
                    pass
            if sub is not None:
                break
        if sub is None:
            break
        pc = [sp.norm(z3.substitute(c, sub)) for c in pc]
        pc = [c for c in pc if not z3.is_true(c)]
        goal = sp.norm(z3.substitute(goal, sub))
    return pc, goal


from contracts.etree_model import ETreeMixin


OVERAPPROX = "c05!overapprox"
_MARK_FN = {}
_mark_ids = __import__("itertools").count()


def marker(kind):
    """A fresh atom `kind(k)` of an uninterpreted predicate: unconstrained (assuming it proves nothing) and not ground-evaluable,
    so neither the solver's model nor random instantiation turns a path that carries it into a counter-example."""
    f = _MARK_FN.get(kind)
    if f is None:
        f = _MARK_FN[kind] = z3.Function(kind, z3.IntSort(), z3.BoolSort())
    return f(z3.IntVal(next(_mark_ids)))


STR_TO_STR = {"zfill", "rjust", "ljust", "center", "expandtabs", "swapcase", "title", "capitalize", "casefold", "removeprefix", "removesuffix",
              "translate", "format_map", "lower", "upper", "strip", "lstrip", "rstrip", "replace", "format", "join"}
STR_TO_BOOL = {"isnumeric", "isdecimal", "isidentifier", "isascii", "istitle", "isprintable", "isdigit", "isalpha", "isalnum", "isspace", "isupper", "islower",
               "startswith", "endswith"}
STR_TO_INT = {"count", "index", "rindex", "find", "rfind"}
TEMPORAL_CTORS = {"datetime.datetime": sp.K_DATETIME, "datetime.date": sp.K_DATE, "datetime.time": sp.K_TIME, "datetime.timedelta": sp.K_TIMEDELTA,
                  "decimal.Decimal": sp.K_DECIMAL}


class SerExecutor(ETreeMixin, Executor):
    # ---------------------------------------------------------- worker closures --
    def delegates_to(self, fuc, worker):
        """The function under contract is `def f(p0, ...): [docstring] def worker(x): ...; return worker(p0)` (pure delegation)."""
        body = [b for b in fuc.body if not (isinstance(b, ast.Expr) and isinstance(b.value, ast.Constant))]
        defs = [b for b in body if isinstance(b, ast.FunctionDef)]
        rest = [b for b in body if not isinstance(b, ast.FunctionDef)]
        p0 = (fuc.args.posonlyargs + fuc.args.args)[0].arg if (fuc.args.posonlyargs + fuc.args.args) else None
        return (len(defs) == 1 and defs[0] is worker and len(rest) == 1 and isinstance(rest[0], ast.Return) and isinstance(rest[0].value, ast.Call)
                and isinstance(rest[0].value.func, ast.Name) and rest[0].value.func.id == worker.name and len(rest[0].value.args) == 1
                and isinstance(rest[0].value.args[0], ast.Name) and rest[0].value.args[0].id == p0 and not rest[0].value.keywords
                and len(worker.args.args) == 1 and not worker.args.kwonlyargs)

    def inline_closure(self, st, f, args, kwargs, node):
        fnode = f.a
        if isinstance(fnode, ast.FunctionDef) and any(fnode is x for x in self.cur_fn_stack) and self.contract is not None and self.cur_fn_stack \
                and isinstance(self.cur_fn_stack[0], ast.FunctionDef) and self.delegates_to(self.cur_fn_stack[0], fnode) and len(args) == 1 and not kwargs:
            # recursion of the worker closure the function delegates to: by induction it computes what the function's own
            # contract states for (x, the function's other arguments) -- PY-REC through the contract of the enclosing function
            names = [p[0] for p in self.contract.params]
            kw = {nm: st.frames[0].env[nm] for nm in names[1:] if nm in st.frames[0].env}
            return self.apply_contract(st, self.contract, [args[0]], kw, node)
        return super().inline_closure(st, f, args, kwargs, node)

    def as_bin(self, st, v):
        """Bin term of a bytes-like value in either representation (a `bytes` object produced by a library model, or a PV of
        kind Bytes), else None."""
        if isinstance(v, PTok) and v.what == "bin":
            return v.a
        if isinstance(v, PV) and z3.is_true(sp.norm(V.is_Bytes(v.t))):
            return sp.norm(V.bp(v.t))
        return None

    # results whose KIND is fixed by the language even when the value is not modelled: an opaque value of that kind
    def b_format(self, st, args, kwargs, node):
        self.exc_any(st.fork(), f"{self.loc(node)} format()")
        return [(st, VStr(z3.String(fresh_name("format"))))]

    def b_repr(self, st, args, kwargs, node):
        return [(st, VStr(z3.String(fresh_name("repr"))))]

    b_hex = b_oct = b_bin = b_ascii = b_repr

    def b_round(self, st, args, kwargs, node):
        if args and isinstance(args[0], (VInt, VReal, VBool)):
            if len(args) == 1 or isinstance(args[1], VNoneT):
                return [(st, VInt(z3.Int(fresh_name("round"))))]
            return [(st, VReal(z3.Real(fresh_name("round"))))]
        return self.havoc_call(st, "round", args, node)

    def b_divmod(self, st, args, kwargs, node):
        if len(args) == 2 and all(isinstance(a, (VInt, VBool)) for a in args):
            s2 = self.fork_raise(st, ops.eq_term(args[1], VInt(0)), "ZeroDivisionError")
            return [] if s2 is None else [(s2, VTuple([VInt(z3.Int(fresh_name("div"))), VInt(z3.Int(fresh_name("mod")))]))]
        return self.havoc_call(st, "divmod", args, node)

    # ------------------------------------------------ over-approximation marks --
    # Every over-approximated continuation (EXC-ANY raise, unknown result of an unmodelled call, a loop cut without
    # invariant, an abstracted expression, a merged state) assumes a fresh Bool named c05!overapprox...: proofs are
    # unaffected, a `sat` answer on such a path is not a counter-example (solve.SAT_UNTRUSTED -> `unknown` -> native replay).
    def mark(self, st):
        st.assume(marker(OVERAPPROX))
        return st

    def exc_any(self, st, site, also=()):
        t, c = self.uni.any_exception()
        s2 = self.mark(st.fork().assume(c))
        self.raise_in(s2, VExc(t, {"site": site}))
        self.exc_any_sites.append(site)

    def havoc_call(self, st, what, args, node):
        outs = super().havoc_call(st, what, args, node)
        for (s2, _v) in outs:
            self.mark(s2)
        return outs

    def havoc_everything(self, st):
        super().havoc_everything(st)
        self.mark(st)

    def merge_states(self, states):
        return self.mark(super().merge_states(states))

    def symbolic_for(self, s, st, it):
        spec = self.loop_spec(s)
        cut = spec is None or spec.inv is None or self.seq_view(st, it) is None
        outs = super().symbolic_for(s, st, it)
        if cut:
            for o in outs:
                self.mark(o.st)
        return outs

    def __init__(self, *a, **k):
        super().__init__(*a, **k)
        self.witness_terms = {}

    # ------------------------------------------------------------------ VCs --
    def add_vc(self, kind, label, pc, goal, note="", loc=""):
        if isinstance(goal, VBool):
            goal = goal.t
        if isinstance(goal, bool):
            goal = z3.BoolVal(goal)
        pc, goal = propagate_equalities([sp.norm(c) for c in pc], sp.norm(goal))
        super().add_vc(kind, label, pc, goal, note=note, loc=loc)

    def feasible(self, pc, extra=None):
        return super().feasible([sp.norm(c) for c in pc], sp.norm(extra) if extra is not None else None)

    # ---------------------------------------------------------- conversions --
    def to_pv(self, st, v):
        """z3 term of sort PyV for an engine value, or None."""
        if isinstance(v, PV):
            return v.t
        if isinstance(v, PTok) and v.what == "bin":      # a bytes object
            return V.Bytes(v.a)
        if isinstance(v, VNoneT):
            return V.Non
        if isinstance(v, VBool):
            return V.Bool(v.t)
        if isinstance(v, VInt):
            return V.Int(ops.int_term(v))
        if isinstance(v, VReal):
            return V.Float(v.t)
        if isinstance(v, VStr):
            return V.Str(v.t)
        if isinstance(v, VTuple):
            items = [self.to_pv(st, x) for x in v.items]
            if any(i is None for i in items):
                return None
            acc = VL.nil
            for i in reversed(items):
                acc = VL.cons(i, acc)
            return V.Tuple(acc)
        if isinstance(v, VRef):
            o = st.obj(v.ref)
            if o.kind == "pvkv":
                return V.Dict(o.data)
            if o.kind == "dict" and o.data is not None:
                acc = KV.knil
                for k, x in reversed(list(o.data.items())):
                    xt = self.to_pv(st, x)
                    if xt is None or not isinstance(k, str):
                        return None
                    acc = KV.kcons(sv(k), xt, acc)
                return V.Dict(acc)
            if o.kind == "list" and o.data is not None:
                acc = VL.nil
                for x in reversed(o.data):
                    xt = self.to_pv(st, x)
                    if xt is None:
                        return None
                    acc = VL.cons(xt, acc)
                return V.List(acc)
        return None

    def to_ph(self, st, v):
        if isinstance(v, PH):
            return v.t
        n = tname(v)
        if n is not None:
            short = n.split(".")[-1]
            if n in ("typing.Any", "Any"):
                return H.HAny
            if short == "bytes":
                return H.HBytes
            if short == "bytearray":
                return H.HBytearray
            if short == "BytesIO":
                return H.HBytesIO
            if short in ("str", "int", "float", "bool"):
                return H.HPrim({"str": 1, "int": 2, "float": 3, "bool": 4}[short])
            return H.HCls(sv(short))
        if isinstance(v, PTok) and v.what == "cls":
            return H.HCls(v.a)
        return None

    def eq_values(self, st, a, b):
        """Structural equality of results against spec terms (hook used by pyvc.verify._eq)."""
        if isinstance(a, PH) or isinstance(b, PH):
            ta, tb = self.to_ph(st, a), self.to_ph(st, b)
            return (ta == tb) if ta is not None and tb is not None else z3.BoolVal(False)
        if isinstance(a, PV) or isinstance(b, PV):
            ta, tb = self.to_pv(st, a), self.to_pv(st, b)
            return (ta == tb) if ta is not None and tb is not None else z3.BoolVal(False)
        if isinstance(a, VSeq) and isinstance(b, VSeq):
            i = z3.Int(fresh_name("ix"))
            return z3.And(a.length == b.length, z3.Implies(z3.And(i >= 0, i < a.length), self._eqv(st, a.elem(i), b.elem(i))))
        if isinstance(a, VSeq) or isinstance(b, VSeq):
            return z3.BoolVal(False)
        if isinstance(a, VTuple) and isinstance(b, VTuple) and len(a.items) == len(b.items) and \
                any(isinstance(x, (PV, PH)) for x in a.items + b.items):
            return z3.And([self._eqv(st, x, y) for x, y in zip(a.items, b.items)])
        return None

    def _eqv(self, st, x, y):
        r = self.eq_values(st, x, y)
        if r is not None:
            return r
        try:
            return ops.eq_term(x, y)
        except Unsupported:
            return z3.BoolVal(False)

    # --------------------------------------------------------------- truth --
    def truth(self, st, v):
        if isinstance(v, PV):
            return VBool(sp.norm(truthy(v.t)))
        if isinstance(v, PH):
            return VBool(True)
        if isinstance(v, PTok):
            if v.what == "args":
                return VBool(sp.norm(nargs(v.a) > 0))
            return VBool(True)
        if isinstance(v, VRef) and st.obj(v.ref).kind in ("pvkv", "pvmap"):
            return VBool(z3.Bool(fresh_name("truth")))
        return super().truth(st, v)

    def havoc_like(self, st, v, name):
        if isinstance(v, (PV, PH, PTok)):
            return v
        return super().havoc_like(st, v, name)

    # ------------------------------------------------------------ builtins --
    def b_isinstance(self, st, args, kwargs, node):
        v, t = args
        if isinstance(v, (PV, PH)):
            classes = list(t.items) if isinstance(t, VTuple) else [t]
            terms = []
            for c in classes:
                n = tname(c)
                if n is None:
                    self.unsupported(node, f"isinstance against {c!r}")
                if isinstance(v, PH):
                    terms.append(istype(v.t) if n.split(".")[-1] == "type" else F)
                    continue
                r = isinstance_term(v.t, n)
                if r is None:
                    # a class this pack knows nothing about: an opaque answer on an over-approximated path
                    self.mark(st)
                    r = z3.Bool(fresh_name("isinstance_" + n.split(".")[-1]))
                terms.append(r)
            return [(st, VBool(sp.norm(z3.Or(terms + [F]))))]
        return super().b_isinstance(st, args, kwargs, node)

    def b_type(self, st, args, kwargs, node):
        v = args[0]
        if isinstance(v, VNoneT):
            return [(st, VType("NoneType"))]
        if isinstance(v, PV):
            return [(st, PTok("cls", sp.norm(type_name_of(v.t)), v.t))]       # b = the instance: exact-type tests
        return self.havoc_call(st, "type", args, node)

    def to_str(self, st, v, formatted=False):
        if isinstance(v, PV) and not formatted:          # f"{x}" == str(x)
            r = self.b_str(st, v, None)
            if r is not None:
                return r
        return super().to_str(st, v, formatted)

    def b_str(self, st, v, node):
        if isinstance(v, VStr):
            return v
        if isinstance(v, PV):
            # keys of the mappings in V are strings (registry obligation: every Dict hint has str keys)
            return VStr(sp.norm(z3.If(V.is_Str(v.t), V.s(v.t), sp.STROF(v.t))))
        return None

    def construct(self, st, t, args, kwargs, node):
        name = t.name
        if name == "type" and len(args) == 1:
            return self.b_type(st, args, kwargs, node)
        if name == "object" and not args and not kwargs:
            return [(st, PTok("sentinel", fresh_name("object")))]          # a fresh object: identical only to itself
        if name == "str" and len(args) == 1:
            r = self.b_str(st, args[0], node)
            if r is not None:
                return [(st, r)]
        if name == "str" and len(args) >= 1 and isinstance(args[0], PTok) and args[0].what == "b64":      # str(b64encode(..), "ascii")
            return [(st, VStr(sp.B64(args[0].a)))]
        if name in ("bytes", "memoryview", "bytearray") and len(args) == 1 and self.as_bin(st, args[0]) is not None:
            return [(st, PTok("bin", self.as_bin(st, args[0])))]
        if name == "bytes" and len(args) == 1 and isinstance(args[0], PV):
            ok = self.fork_raise(st, z3.Not(V.is_Bytes(args[0].t)), "TypeError")
            return [] if ok is None else [(ok, PTok("bin", sp.norm(V.bp(args[0].t))))]
        if name in TEMPORAL_CTORS:
            # datetime / date / time / timedelta / Decimal objects: values of a foreign kind (ValueError etc. for bad arguments)
            self.exc_any(st.fork(), f"{self.loc(node)} {name}()")
            return [(st, PV(V.Other(z3.IntVal(TEMPORAL_CTORS[name]))))]
        if name == "dict" and len(args) == 1 and isinstance(args[0], PV):
            ok = self.fork_raise(st, z3.Not(V.is_Dict(args[0].t)), "TypeError")
            return [] if ok is None else [(ok, PV(args[0].t, fresh=True))]
        if name == "bool" and args and isinstance(args[0], PV):
            return [(st, self.truth(st, args[0]))]
        if name == "float" and len(args) == 1 and isinstance(args[0], PV):
            tt = args[0].t
            s2 = self.fork_raise(st, sp.norm(z3.Not(z3.Or(V.is_Int(tt), V.is_Bool(tt), V.is_Float(tt), V.is_Str(tt)))), "TypeError")
            if s2 is None:
                return []
            if self.feasible(s2.pc, V.is_Str(tt)):
                self.raise_in(s2.fork().assume(V.is_Str(tt)), self.mk_exc("ValueError"))
            r = z3.Real(fresh_name("float_of"))
            s2.assume(z3.Implies(V.is_Float(tt), r == V.r(tt)))
            s2.assume(z3.Implies(V.is_Int(tt), r == z3.ToReal(V.i(tt))))
            return [(s2, PV(V.Float(r)))]
        if name == "float" and len(args) == 1 and isinstance(args[0], VStr):
            # float(text): ValueError for text that is not a number, else some float (finite or not: PY-FLOAT-REAL covers finite only)
            self.raise_in(st.fork(), self.mk_exc("ValueError"))
            return [(st, VReal(z3.Real(fresh_name("float_of_text"))))]
        if name == "int" and args and isinstance(args[0], PV):
            tt = args[0].t
            s2 = self.fork_raise(st, sp.norm(z3.Not(z3.Or(V.is_Int(tt), V.is_Bool(tt), V.is_Float(tt), V.is_Str(tt)))), "TypeError")
            if s2 is None:
                return []
            if self.feasible(s2.pc, V.is_Str(tt)):
                self.raise_in(s2.fork().assume(V.is_Str(tt)), self.mk_exc("ValueError"))
            r = z3.Int(fresh_name("int_of"))
            s2.assume(z3.Implies(V.is_Int(tt), r == V.i(tt)))
            s2.assume(z3.Implies(V.is_Float(tt), z3.And(z3.ToReal(r) <= z3.If(V.r(tt) >= 0, V.r(tt), V.r(tt) + 1), True)))
            return [(s2, VInt(r))]
        return super().construct(st, t, args, kwargs, node)

    def call_builtin(self, st, name, args, kwargs, node):
        if name == "type":
            return self.b_type(st, args, kwargs, node)
        if name == "map" and len(args) == 2 and not kwargs and isinstance(args[0], VFunc):
            # map(f, xs) consumed eagerly (as generator expressions are): the calls happen in order, one per element
            items = self.concrete_items(st, args[1])
            if items is not None:
                acc = [(st, [])]
                for it in items:
                    acc = [(s2, vals + [v]) for (s, vals) in acc for (s2, v) in self.call(s, args[0], [it], {}, node)]
                return [(s, VTuple(vals)) for (s, vals) in acc]
            if isinstance(args[1], VSeq):
                r = self._map_over_seq(st, args[0], args[1], node)
                if r is not None:
                    return r
        return super().call_builtin(st, name, args, kwargs, node)

    def _map_over_seq(self, st, f, seq, node):
        """map(f, <index-based sequence>): the index-wise image (same reading as a comprehension over the sequence)."""
        ex = self
        frames0 = [fr.copy() for fr in st.frames]

        def elem_at(i, record=False):
            body = st.fork()
            body.frames = [fr.copy() for fr in frames0]
            if not record:
                ex.sinks.append([])
            try:
                res = ex.call(body, f, [seq.elem(i)], {}, node)
            finally:
                if not record:
                    ex.sinks.pop()
            if len(res) != 1:
                ex.unsupported(node, "mapped function forks")
            if record:
                for fact in res[0][0].pc[len(st.pc):]:
                    st.assume(z3.Implies(z3.And(i >= 0, i < seq.length), fact))
            return res[0][1]

        elem_at(z3.Int(fresh_name("mi")), record=True)
        return [(st, VSeq(seq.length, elem_at, "map"))]

    def call(self, st, f, args, kwargs, node):
        # functools.partial(g, *a, **k): a callable that remembers g and the leading / keyword arguments; calling it is calling g
        # with the remembered arguments first and the call's keywords overriding the remembered ones (documented behaviour)
        if isinstance(f, VFunc) and f.how == "ext" and f.a == "functools.partial" and args and isinstance(args[0], (VFunc, VType)) \
                and "functools.partial" not in self.reg.ext_models:
            return [(st, VFunc("partial", args[0], (tuple(args[1:]), dict(kwargs))))]
        if isinstance(f, VFunc) and f.how == "partial":
            pre_args, pre_kw = f.b
            return self.call(st, f.a, list(pre_args) + list(args), {**pre_kw, **kwargs}, node)
        if isinstance(f, VFunc) and f.how == "repo" and not self.abstract and self.cur_fn_stack and self.reg.get(f"{f.a}::{f.b}") is None \
                and (self.inline_calls or self.local_helper(f)):
            # a helper without contract is executed in place.  When IT is outside the modelled subset, the function under contract is
            # not: the call becomes an unknown call (returns anything, may raise, path tagged -- a VC refuted there is `unknown` and
            # goes to the replayer) instead of taking the whole function out of the subset.
            snap = self._snapshot()
            try:
                return super().call(st.fork(), f, args, kwargs, node)
            except Unsupported as e:
                self._restore(snap)
                self.abstracted.append(f"{self.loc(node)} helper {f.b} outside the subset ({str(e)[:80]}): unknown call")
                return self.havoc_call(st, f"repo:{f.b} (helper outside the modelled subset)", args, node)
        return super().call(st, f, args, kwargs, node)

    def _snapshot(self):
        return ({k: len(o.vcs) for k, o in self.obls.items()}, [len(x) for x in self.sinks], len(self.exc_any_sites), set(self.assumed_used),
                self.paths, len(self.cur_fn_stack), len(self.loop_ord_stack), self.inline_depth, len(self.abstracted))

    def _restore(self, snap):
        vcs, sinks, n_exc, assumed, paths, n_fn, n_loop, depth, n_abs = snap
        for k in list(self.obls):
            if k not in vcs:
                del self.obls[k]
            else:
                del self.obls[k].vcs[vcs[k]:]
        del self.sinks[len(sinks):]
        for lst, n_ in zip(self.sinks, sinks):
            del lst[n_:]
        del self.exc_any_sites[n_exc:]
        self.assumed_used.clear()
        self.assumed_used.update(assumed)
        self.paths = paths
        del self.cur_fn_stack[n_fn:]
        del self.loop_ord_stack[n_loop:]
        self.inline_depth = depth
        del self.abstracted[n_abs:]

    def b_len(self, st, args, kwargs, node):
        v = args[0]
        if isinstance(v, PTok) and v.what == "args":
            return [(st, VInt(sp.norm(nargs(v.a))))]
        return super().b_len(st, args, kwargs, node)

    def b_getattr(self, st, args, kwargs, node):
        obj = args[0]
        if isinstance(obj, PV) and len(args) == 2 and isinstance(args[1], PTok) and args[1].what == "fieldname":
            return [(st, PV(args[1].b))]
        return super().b_getattr(st, args, kwargs, node)

    # -------------------------------------------------------------- compare --
    def compare(self, st, op, a, b, node):
        if op in ("Is", "IsNot", "Eq", "NotEq"):
            r = self._sentinel_identity(a, b)
            if r is not None:
                return [(st, VBool(r if op in ("Is", "Eq") else z3.Not(r)))]
        if op in ("Is", "IsNot"):
            r = self._type_identity(a, b)
            if r is not None:
                return [(st, VBool(r if op == "Is" else z3.Not(r)))]
        if op in ("Is", "IsNot", "Eq", "NotEq") and (isinstance(a, (PH, PTok)) or isinstance(b, (PH, PTok))):
            r = self._identity(st, a, b, node)
            if r is not None:
                return [(st, VBool(sp.norm(r if op in ("Is", "Eq") else z3.Not(r))))]
        if op in ("Is", "IsNot") and (isinstance(a, PV) or isinstance(b, PV)):
            other = b if isinstance(a, PV) else a
            me = a if isinstance(a, PV) else b
            if isinstance(other, VNoneT):
                r = V.is_Non(me.t)
                return [(st, VBool(sp.norm(r if op == "Is" else z3.Not(r))))]
        if op in ("Eq", "NotEq") and (isinstance(a, PV) or isinstance(b, PV)):
            ta, tb = self.to_pv(st, a), self.to_pv(st, b)
            if ta is not None and tb is not None:
                # Python == across int/float/bool compares numerically
                num = lambda t: z3.Or(V.is_Int(t), V.is_Float(t), V.is_Bool(t))
                val = lambda t: sp.ite((V.is_Int(t), z3.ToReal(V.i(t))), (V.is_Float(t), V.r(t)), z3.If(V.b(t), z3.RealVal(1), z3.RealVal(0)))
                r = z3.If(z3.And(num(ta), num(tb)), val(ta) == val(tb), ta == tb)
                return [(st, VBool(sp.norm(r if op == "Eq" else z3.Not(r))))]
        return super().compare(st, op, a, b, node)

    def _identity(self, st, a, b, node):
        if isinstance(b, (PH, PTok)) and not isinstance(a, (PH, PTok)):
            a, b = b, a
        n = tname(b)
        if isinstance(a, PH):
            if isinstance(b, PH):
                return a.t == b.t
            if n is not None:
                hb = self.to_ph(st, b)
                if n.split(".")[-1] == "NoneType":
                    return F          # NoneType occurs only as the second member of Optional (model of H)
                return a.t == hb
            if isinstance(b, VNoneT):
                return F
        if isinstance(a, PTok) and a.what == "origin":
            h = a.a
            if isinstance(b, VNoneT):
                return z3.Not(z3.Or(H.is_HList(h), H.is_HListBare(h), H.is_HDict(h), H.is_HDictBare(h), H.is_HOpt(h), H.is_H604(h)))
            if n is not None:
                short = n.split(".")[-1]
                if short == "list":
                    return z3.Or(H.is_HList(h), H.is_HListBare(h))
                if short == "dict":
                    return z3.Or(H.is_HDict(h), H.is_HDictBare(h))
                if n in ("typing.Union", "Union"):
                    return H.is_HOpt(h)
                if short == "UnionType":
                    return H.is_H604(h)
                return F
        if isinstance(a, PTok) and a.what == "fielddefault" and n in ("dataclasses.MISSING", "MISSING"):
            return z3.Not(FIELD_HAS(z3.StringVal(a.b), a.a if z3.is_expr(a.a) else z3.StringVal(str(a.a))))
        if isinstance(a, PTok) and a.what == "cls" and isinstance(b, PTok) and b.what == "cls":
            return a.a == b.a
        if isinstance(a, PTok) and a.what == "cls" and a.b is not None and n is not None:       # type(x) is <class>
            r = exact_type_term(a.b, n)
            if r is not None:
                return r
        return None

    def _sentinel_identity(self, a, b):
        sa, sb = isinstance(a, PTok) and a.what == "sentinel", isinstance(b, PTok) and b.what == "sentinel"
        if sa and sb:
            return z3.BoolVal(a.a == b.a)
        if (sa or sb) and not isinstance(b if sa else a, VUnk):
            return F
        return None

    def _type_identity(self, a, b):
        na, nb = tname(a), tname(b)
        if na is not None and nb is not None:
            return z3.BoolVal(na.split(".")[-1] == nb.split(".")[-1])
        return None

    def contains(self, st, container, item, node):
        if isinstance(item, (PH, VType)) or (isinstance(item, VFunc) and item.how == "ext") or (isinstance(item, PTok) and item.what in ("origin", "cls")):
            items = self.concrete_items(st, container)
            if items is not None:
                terms = []
                for x in items:
                    r = self._type_identity(item, x)
                    if r is None:
                        r = self._identity(st, item, x, node)
                    terms.append(r if r is not None else F)
                return [(st, VBool(sp.norm(z3.Or(terms + [F]))))]
        if isinstance(container, PV):
            tt = container.t
            if isinstance(item, VStr):
                s2 = self.fork_raise(st, sp.norm(z3.Not(z3.Or(V.is_Dict(tt), V.is_List(tt), V.is_Tuple(tt), V.is_Set(tt), V.is_Str(tt)))), "TypeError")
                if s2 is None:
                    return []
                r = sp.ite((V.is_Dict(tt), sp.HASKEY(V.ents(tt), item.t)), z3.Bool(fresh_name("in")))
                return [(s2, VBool(sp.norm(r)))]
        if isinstance(container, PTok) and container.what == "attrib" and isinstance(item, VStr) and item.const() is not None:
            from contracts.etree_model import HAS_ATTR
            return [(st, VBool(HAS_ATTR(container.a.t, item.t)))]
        if isinstance(container, PTok) and container.what == "registry":
            if isinstance(item, VStr):
                return [(st, VBool(sp.REG(item.t)))]
            if isinstance(item, PV):
                tt = item.t
                s2 = self.fork_raise(st, sp.norm(z3.Or(V.is_List(tt), V.is_Dict(tt), V.is_Set(tt))), "TypeError")   # unhashable
                if s2 is None:
                    return []
                return [(s2, VBool(sp.norm(z3.And(V.is_Str(tt), sp.REG(V.s(tt))))))]
        if isinstance(container, VRef) and st.obj(container.ref).kind == "pvkv" and isinstance(item, VStr):
            return [(st, VBool(sp.norm(sp.HASKEY(st.obj(container.ref).data, item.t))))]
        return super().contains(st, container, item, node)

    # ------------------------------------------------------------ attribute --
    def get_attr(self, st, base, attr, node):
        if isinstance(base, PTok) and base.what == "cls" and attr in ("__name__", "__qualname__"):
            return [(st, VStr(base.a))]
        if isinstance(base, PV) and attr == "__class__":
            return self.b_type(st, [base], {}, node)
        if isinstance(base, PTok) and base.what == "field" and attr == "name" and base.b is None:
            return [(st, VStr(base.a))]
        if isinstance(base, PH) and attr == "__name__":
            s2 = self.fork_raise(st, sp.norm(z3.Not(istype(base.t))), "AttributeError")
            return [] if s2 is None else [(s2, VStr(sp.norm(hname(base.t))))]
        if isinstance(base, PTok) and base.what == "field" and attr == "name":
            return [(st, PTok("fieldname", base.a, base.b))] if base.b is not None else [(st, VStr(base.a))]
        if isinstance(base, PTok) and base.what == "field" and attr in ("default", "default_factory"):
            # dataclasses.Field.default / .default_factory: some object or the MISSING sentinel -- a property of the declaration
            # the model does not know (uninterpreted per field name); only comparable with MISSING by identity
            return [(st, PTok("fielddefault", base.a, attr))]
        if isinstance(base, (PV, PH, PTok)):
            return [(st, VFunc("bound", base, attr))]
        return super().get_attr(st, base, attr, node)

    # -------------------------------------------------------------- methods --
    def call_method(self, st, obj, name, args, kwargs, node):
        if isinstance(obj, PV):
            return self.pv_method(st, obj, name, args, kwargs, node)
        if isinstance(obj, PTok):
            if obj.what == "hints" and name == "get" and isinstance(args[0], VStr):
                # typing.get_type_hints(cls).get(field, default): every dataclass field is annotated
                return [(st, PH(sp.FH(obj.a, args[0].t)))]
            if obj.what == "b64" and name == "decode":
                return [(st, VStr(sp.B64(obj.a)))]
            if obj.what == "registry" and name == "get" and args:
                k = args[0]
                kt = k.t if isinstance(k, VStr) else (sp.norm(V.s(k.t)) if isinstance(k, PV) else None)
                isstr = T if isinstance(k, VStr) else (sp.norm(V.is_Str(k.t)) if isinstance(k, PV) else None)
                if kt is not None:
                    if isinstance(k, PV):
                        s0 = self.fork_raise(st, sp.norm(z3.Or(V.is_List(k.t), V.is_Dict(k.t), V.is_Set(k.t))), "TypeError")
                        if s0 is None:
                            return []
                        st = s0
                    hit = sp.norm(z3.And(isstr, sp.REG(kt)))
                    outs = []
                    if self.feasible(st.pc, hit):
                        outs.append((st.fork().assume(hit), PTok("cls", kt)))
                    if self.feasible(st.pc, z3.Not(hit)):
                        outs.append((st.assume(z3.Not(hit)), args[1] if len(args) > 1 else NONE))
                    return outs
            if obj.what == "attrib" and name == "get":
                from contracts.etree_model import m_get
                return m_get(self, st, obj.a, args, kwargs, node)
            return self.havoc_call(st, f"{obj.what}.{name}", args, node)
        if isinstance(obj, VRef) and st.obj(obj.ref).kind in ("pvkv", "pvmap"):
            return self.havoc_call(st, f"dict.{name}", [obj] + list(args), node)
        return super().call_method(st, obj, name, args, kwargs, node)

    def str_method(self, st, s, name, args, kwargs, node):
        if name == "encode":
            return [(st, PTok("enc", s.t))]
        outs = super().str_method(st, s, name, args, kwargs, node)
        fixed = []
        for (s2, v) in outs:            # the result kind of a str method is fixed even when its value is not modelled
            if isinstance(v, VUnk):
                if name in STR_TO_STR:
                    v = VStr(z3.String(fresh_name(name)))
                elif name in STR_TO_BOOL:
                    v = VBool(z3.Bool(fresh_name(name)))
                elif name in STR_TO_INT:
                    v = VInt(z3.Int(fresh_name(name)))
            fixed.append((s2, v))
        return fixed

    def pv_method(self, st, obj, name, args, kwargs, node):
        tt = obj.t
        if name == "items" and not args:
            s2 = self.fork_raise(st, sp.norm(z3.Not(V.is_Dict(tt))), "AttributeError")
            return [] if s2 is None else [(s2, PTok("items", sp.norm(V.ents(tt))))]
        if name == "get" and args and isinstance(args[0], VStr):
            s2 = self.fork_raise(st, sp.norm(z3.Not(V.is_Dict(tt))), "AttributeError")
            if s2 is None:
                return []
            d = self.to_pv(s2, args[1]) if len(args) > 1 else V.Non
            if d is None:
                self.unsupported(node, "dict.get default")
            k = args[0].t
            return [(s2, PV(sp.norm(z3.If(sp.HASKEY(V.ents(tt), k), sp.GET(V.ents(tt), k), d))))]
        if name == "isoformat":
            s2 = self.fork_raise(st, sp.norm(z3.Not(z3.And(V.is_Other(tt), z3.Or([V.kind(tt) == k for k in (sp.K_DATETIME, sp.K_DATE, sp.K_TIME)])))), "AttributeError")
            return [] if s2 is None else [(s2, VStr(z3.String(fresh_name("iso"))))]
        if name == "encode":
            s2 = self.fork_raise(st, sp.norm(z3.Not(V.is_Str(tt))), "AttributeError")
            return [] if s2 is None else [(s2, PTok("enc", sp.norm(V.s(tt))))]
        if name in ("strftime", "ctime", "__str__", "__format__") :
            s2 = self.fork_raise(st, sp.norm(z3.Not(V.is_Other(tt))), "AttributeError")
            self.exc_any(st.fork(), f"{self.loc(node)} .{name}()")
            return [] if s2 is None else [(s2, VStr(z3.String(fresh_name(name))))]
        if name == "is_integer" and not args:
            s2 = self.fork_raise(st, sp.norm(z3.Not(z3.Or(V.is_Float(tt), V.is_Int(tt)))), "AttributeError")
            return [] if s2 is None else [(s2, VBool(sp.norm(z3.If(V.is_Float(tt), z3.IsInt(V.r(tt)), T))))]
        if name == "total_seconds":
            s2 = self.fork_raise(st, sp.norm(z3.Not(z3.And(V.is_Other(tt), V.kind(tt) == sp.K_TIMEDELTA))), "AttributeError")
            return [] if s2 is None else [(s2, VReal(z3.Real(fresh_name("seconds"))))]
        if z3.is_true(sp.norm(V.is_Str(tt))):                    # a str held as PV: its methods are str methods
            return self.str_method(st, VStr(sp.norm(V.s(tt))), name, args, kwargs, node)
        if name == "iterate_units" and not args:
            # ASSUMED: the units of an extraction result form a finite sequence of (encodable) dataclass instances
            self.exc_any(st.fork(), f"{self.loc(node)} iterate_units")
            n = UNITS_N(tt)
            st.assume(n >= 0)
            i = z3.Int("i!units")
            st.assume(z3.ForAll([i], sp.SEROK(UNIT(tt, i)), patterns=[UNIT(tt, i)]))
            return [(st, VSeq(n, lambda j, tt=tt: PV(UNIT(tt, j)), "unit"))]
        if name == "getvalue" and not args:
            s2 = self.fork_raise(st, sp.norm(z3.Not(V.is_BytesIO(tt))), "AttributeError")
            return [] if s2 is None else [(s2, PTok("bin", sp.norm(V.iop(tt))))]     # whole payload, position untouched
        if name in ("tell", "seek", "read"):
            s2 = self.fork_raise(st, sp.norm(z3.Not(V.is_BytesIO(tt))), "AttributeError")
            if s2 is None:
                return []
            key = ("bytesio_pos", tt.get_id())
            s2.ghost.setdefault("_keep", []).append(tt)
            if key not in s2.ghost:
                p0 = z3.Int(fresh_name("pos"))
                s2.assume(p0 >= 0)
                s2.ghost[key] = p0
            if name == "tell":
                return [(s2, VInt(s2.ghost[key]))]
            if name == "seek":
                s2.ghost[key] = ops.int_term(args[0])
                return [(s2, VInt(s2.ghost[key]))]
            # read(): the bytes from the current position to the end; the whole payload iff the position is 0
            whole = s2.ghost[key] == 0
            s2.ghost[key] = z3.Int(fresh_name("pos_end"))
            if self.feasible(s2.pc, z3.Not(whole)):
                part = s2.fork().assume(z3.Not(whole))
                outs = [(part, PTok("bin", z3.Const(fresh_name("tail"), sp.Bin)))]
            else:
                outs = []
            if self.feasible(s2.pc, whole):
                outs.append((s2.assume(whole), PTok("bin", sp.norm(V.iop(tt)))))
            return outs
        return self.havoc_call(st, f"value.{name}", args, node)

    # ------------------------------------------------------------ subscript --
    def get_index(self, st, base, idx, node):
        if isinstance(base, PV) and isinstance(idx, VStr):
            tt = base.t
            s2 = self.fork_raise(st, sp.norm(z3.Not(V.is_Dict(tt))), "TypeError")
            if s2 is None:
                return []
            s2 = self.fork_raise(s2, sp.norm(z3.Not(sp.HASKEY(V.ents(tt), idx.t))), "KeyError")
            return [] if s2 is None else [(s2, PV(sp.norm(sp.GET(V.ents(tt), idx.t))))]
        if isinstance(base, PTok) and base.what == "args" and isinstance(idx, VInt):
            k = idx.const()
            h = base.a
            s2 = self.fork_raise(st, sp.norm(nargs(h) <= k), "IndexError")
            if s2 is None:
                return []
            if k == 0:
                return [(s2, PH(sp.norm(sp.ite((H.is_HList(h), H.larg(h)), (H.is_HDict(h), H.dkey(h)), (H.is_HOpt(h), H.oarg(h)), H.uarg(h)))))]
            if k == 1:
                if self.feasible(s2.pc, H.is_HDict(h)):
                    return [(s2.assume(H.is_HDict(h)), PH(sp.norm(H.dval(h))))]
                return [(s2, VType("NoneType"))]
        if isinstance(base, PTok) and base.what == "hints" and isinstance(idx, VStr):
            return [(st, PH(sp.FH(base.a, idx.t)))]
        if isinstance(base, PTok) and base.what == "attrib" and isinstance(idx, VStr):
            from contracts.etree_model import m_get
            outs = []
            for (s2, v) in m_get(self, st, base.a, [idx], {}, node):
                if isinstance(v, VNoneT):
                    self.raise_in(s2, self.mk_exc("KeyError"))
                else:
                    outs.append((s2, v))
            return outs
        if isinstance(base, PTok) and base.what == "registry":
            if isinstance(idx, PV):
                idx = VStr(sp.norm(V.s(idx.t)))
            if isinstance(idx, VStr):
                s2 = self.fork_raise(st, z3.Not(sp.REG(idx.t)), "KeyError")
                return [] if s2 is None else [(s2, PTok("cls", idx.t))]
        if isinstance(base, VRef) and st.obj(base.ref).kind == "pvkv" and isinstance(idx, VStr):
            d = st.obj(base.ref).data
            s2 = self.fork_raise(st, sp.norm(z3.Not(sp.HASKEY(d, idx.t))), "KeyError")
            return [] if s2 is None else [(s2, PV(sp.norm(sp.GET(d, idx.t))))]
        return super().get_index(st, base, idx, node)

    def key_term(self, idx):
        if isinstance(idx, VStr):
            return idx.t
        if isinstance(idx, PTok) and idx.what == "fieldname":
            return idx.a
        return None

    def store_index(self, st, base, idx, v, node):
        k = self.key_term(idx)
        if isinstance(base, VRef) and k is not None:
            o = st.obj(base.ref)
            if o.kind in ("dict", "pvkv", "pvmap"):
                sym = not (isinstance(idx, VStr) and idx.const() is not None)
                if o.kind == "dict" and not sym:
                    return super().store_index(st, base, idx, v, node)
                vt = self.to_pv(st, v)
                if vt is None:
                    self.unsupported(node, f"dict store of {v!r}")
                if o.kind == "pvmap" or (o.kind == "dict" and not o.data and st.ghost.get(("kwargs_like", base.ref))):
                    has, val = o.data if o.kind == "pvmap" else (z3.K(sp.S, F), z3.K(sp.S, V.Non))
                    st.heap[base.ref] = HeapObj("pvmap", (z3.Store(has, k, T), z3.Store(val, k, vt)), None, o.fresh)
                    return [st]
                cur = self.to_pv(st, base)
                if cur is None:
                    self.unsupported(node, "symbolic-key store into a dict with unconvertible values")
                st.heap[base.ref] = HeapObj("pvkv", sp.norm(sp.DSET(V.ents(cur), k, vt)), None, o.fresh)
                return [st]
        return super().store_index(st, base, idx, v, node)

    def assign(self, tgt, v, st):
        # d[k] = x on a *fresh copy* held in a local variable (dict(data)): value semantics
        if isinstance(tgt, ast.Subscript) and isinstance(tgt.value, ast.Name) and not isinstance(tgt.slice, ast.Slice):
            cur = st.lookup(tgt.value.id)
            if isinstance(cur, PV):
                if not cur.fresh:
                    self.unsupported(tgt, "store into a mapping that is not a local copy (would mutate the caller's object)")
                outs = []
                for (s2, idx) in self.ev(tgt.slice, st):
                    k = self.key_term(idx)
                    vt = self.to_pv(s2, v)
                    if k is None or vt is None:
                        self.unsupported(tgt, "store into mapping copy")
                    s3 = self.fork_raise(s2, sp.norm(z3.Not(V.is_Dict(cur.t))), "TypeError")
                    if s3 is not None:
                        s3.bind(tgt.value.id, PV(sp.norm(V.Dict(sp.DSET(V.ents(cur.t), k, vt))), fresh=True))
                        outs.append(s3)
                return outs
        return super().assign(tgt, v, st)

    # ------------------------------------------------------- comprehensions --
    def _iter_view(self, st, it):
        """('list', VL term) | ('kv', KV term) | ('seq', VSeq) | None for the iterable of a comprehension."""
        if isinstance(it, PV):
            tt = it.t
            for rec, acc in ((V.is_List, V.items), (V.is_Tuple, V.titems), (V.is_Set, V.sitems)):
                if z3.is_true(sp.norm(rec(tt))):
                    return ("list", sp.norm(acc(tt)))
            return ("pv?", tt)
        if isinstance(it, PTok) and it.what == "items":
            return ("kv", it.a)
        if isinstance(it, PTok) and it.what == "clsfields":
            return ("clsfields", it.a)
        if isinstance(it, PTok) and it.what == "nameset":
            return ("nameset", it.a)
        if isinstance(it, VSeq):
            return ("seq", it)
        return None

    def _comp_generic(self, n, st, kind):
        """Element-wise evaluation of a single-generator comprehension over a spec-level list / mapping.
        -> [(state, result value)] or None when the iterable is an ordinary engine value."""
        if len(n.generators) != 1:
            return None
        g = n.generators[0]
        outs = []
        handled = False
        for (s2, it) in self.ev(g.iter, st.fork()):
            view = self._iter_view(s2, it)
            if view is None:
                if handled:
                    self.unsupported(n, "comprehension iterable of mixed kinds")
                return None
            handled = True
            if view[0] == "nameset":
                outs.extend(self._comp_over_nameset(n, g, s2, view[1], kind))
                continue
            if g.ifs:
                self.unsupported(n, "filtered comprehension over a symbolic collection")
            outs.extend(self._comp_over(n, g, s2, view, kind))
        return outs

    def _comp_over(self, n, g, st, view, kind):
        from pyvc.state import Frame
        what, coll = view
        if what == "pv?":
            self.unsupported(n, "iteration over a value whose kind is not fixed on this path")
        if what == "seq":
            return self._comp_over_seq(n, g, st, coll, kind)
        if what == "clsfields":
            if kind == "dict" or ast.unparse(n.elt) != f"{ast.unparse(g.target)}.name":
                self.unsupported(n, "comprehension over fields(cls) other than the collection of field names")
            return [(st, PTok("nameset", coll))]
        # arbitrary element
        if what == "list":
            e = z3.Const(fresh_name("elem"), V)
            item = PV(e)
        else:
            ek, ev_ = z3.String(fresh_name("ekey")), z3.Const(fresh_name("eval"), V)
            item = VTuple([VStr(ek), PV(ev_)])
        body = st.fork()
        body.frames.append(Frame({}, len(body.frames) - 1, body.frame.fnode))
        spec0 = self.comp_spec(st, n, kind, what)
        if spec0 is not None:
            # the element is a member of the collection; instances of proved membership lemmas
            els = (e,) if what == "list" else (ek, ev_)
            if "mem" in spec0:
                body.assume(spec0["mem"](*els, coll))
            for fct in spec0.get("facts", []):
                body.assume(fct(*els, coll))
        res = []
        for s3 in self.assign(g.target, item, body):
            if kind == "dict":
                for (s4, kv_) in self.ev(n.key, s3):
                    for (s5, vv) in self.ev(n.value, s4):
                        res.append((s5, (kv_, vv)))
            else:
                for (s4, vv) in self.ev(n.elt, s3):
                    res.append((s4, vv))
        if len(res) != 1:
            self.unsupported(n, "element expression of a comprehension forks")
        s_el, r = res[0]
        spec = self.comp_spec(st, n, kind, what)
        if spec is None:
            self.unsupported(n, "no spec map registered for this comprehension")
        if what == "list":
            rt = self.to_pv(s_el, r)
            goal = (rt == spec["elem"](e)) if rt is not None else F
            if kind not in ("list", "gen"):
                self.unsupported(n, "set/dict comprehension over a list value")
            result = PV(sp.norm(V.List(spec["map"](coll))))
        else:
            if kind != "dict":
                self.unsupported(n, "non-dict comprehension over mapping items")
            kk, vv = r
            vt = self.to_pv(s_el, vv)
            goal = z3.And(kk.t == spec["key"](ek), vt == spec["elem"](ev_)) if isinstance(kk, VStr) and vt is not None else F
            result = PV(sp.norm(V.Dict(spec["map"](coll))))
        # keys of V mappings are strings: str(key) == key
        self.add_vc("comp-elementwise", "list-elements" if what == "list" else "mapping-entries", s_el.pc, goal,
                    note=f"{self.loc(n)} element expression differs from the element function of the specified map", loc=self.loc(n))
        return [(st, result)]

    def _comp_over_nameset(self, n, g, st, cn, kind):
        """{name: E(name) for name in <field names of cn> [if C(name)]}: a keyword map characterised pointwise."""
        from pyvc.state import Frame
        if kind != "dict":
            self.unsupported(n, "non-dict comprehension over a set of field names")
        nm = z3.String(fresh_name("fname"))
        body = st.fork()
        body.frames.append(Frame({}, len(body.frames) - 1, body.frame.fnode))
        body.assume(sp.MEMS(sp.FIELDS(cn), nm))
        live = self.assign(g.target, VStr(nm), body)
        if len(live) != 1:
            self.unsupported(n, "comprehension target")
        cur, conds = live[0], []
        for cond in g.ifs:
            r = self.ev(cond, cur)
            if len(r) != 1:
                self.unsupported(n, "forking filter of a comprehension over field names")
            cur, cv = r[0]
            t = self.truth(cur, cv).t
            conds.append(t)
            cur.assume(t)
        rk = self.ev(n.key, cur)
        if len(rk) != 1 or not isinstance(rk[0][1], VStr) or not rk[0][1].t.eq(nm):
            self.unsupported(n, "key of a comprehension over field names is not the name itself")
        rv = self.ev(n.value, rk[0][0])
        if len(rv) != 1:
            self.unsupported(n, "forking value of a comprehension over field names")
        vt = self.to_pv(rv[0][0], rv[0][1])
        if vt is None:
            self.unsupported(n, "value of a comprehension over field names")
        cond = sp.norm(z3.And(conds + [T]))
        has = z3.Const(fresh_name("has"), z3.ArraySort(sp.S, sp.B))
        val = z3.Const(fresh_name("val"), z3.ArraySort(sp.S, V))
        hook = getattr(self.contract, "nameset_comp", None) if self.contract is not None else None
        if hook is None or not hook(self, st, cn, nm, cond, sp.norm(vt), has, val):
            q = z3.String("q!kwc")
            sub = lambda e: z3.substitute(e, (nm, q))
            st.assume(z3.ForAll([q], z3.And(z3.Select(has, q) == z3.And(sp.MEMS(sp.FIELDS(cn), q), sub(cond)),
                                            z3.Implies(z3.Select(has, q), z3.Select(val, q) == sub(vt))), patterns=[z3.Select(has, q)]))
        ref = st.alloc(HeapObj("pvmap", (has, val)), self.refs)
        return [(st, VRef(ref))]

    def _comp_over_seq(self, n, g, st, seq, kind):
        """Comprehension over an index-based symbolic sequence (CLI result lists): result is the index-wise map."""
        from pyvc.state import Frame
        if kind not in ("list", "gen"):
            self.unsupported(n, "non-list comprehension over a sequence")
        ex = self
        # the element expression is evaluated lazily (when an element is read): by then the live state may be inside another
        # (inlined) function whose frame hides this function's locals -- its lexical frames are those of *now*
        frames0 = [f.copy() for f in st.frames]

        def elem_at(i, record=False):
            body = st.fork()
            body.frames = [f.copy() for f in frames0]
            body.frames.append(Frame({}, len(body.frames) - 1, body.frame.fnode))
            res = []
            if not record:
                ex.sinks.append([])      # exceptional continuations were recorded by the probe below
            try:
                for s3 in ex.assign(g.target, seq.elem(i), body):
                    res.extend(ex.ev(n.elt, s3))
            finally:
                if not record:
                    ex.sinks.pop()
            if len(res) != 1:
                ex.unsupported(n, "element expression of a comprehension forks")
            if record:
                # what held on the normal path of the (arbitrary, in-range) element holds after the comprehension
                for fact in res[0][0].pc[len(st.pc):]:
                    st.assume(z3.Implies(z3.And(i >= 0, i < seq.length), fact))
            return res[0][1]

        probe = z3.Int(fresh_name("ci"))
        elem_at(probe, record=True)      # raises / EXC-ANY sites of the element expression are recorded once
        return [(st, VSeq(seq.length, elem_at, "comp"))]

    def comp_ordinal(self, node):
        fnode = self.cur_fn_stack[-1] if self.cur_fn_stack else None
        if fnode is None:
            return 0
        comps = [x for x in ast.walk(fnode) if isinstance(x, (ast.ListComp, ast.DictComp, ast.SetComp, ast.GeneratorExp))]
        comps.sort(key=lambda x: (x.lineno, x.col_offset))
        return comps.index(node) if node in comps else 0

    def comp_spec(self, st, n, kind, what):
        """Spec map for a comprehension of the function under contract (set by the pack)."""
        f = getattr(self.contract, "comp_specs", None) if self.contract is not None else None
        if f is None:
            return None
        return f(self, st, n, kind, what)

    def e_ListComp(self, n, st):
        r = self._comp_generic(n, st, "list")
        return r if r is not None else super().e_ListComp(n, st)

    def e_GeneratorExp(self, n, st):
        r = self._comp_generic(n, st, "gen")
        return r if r is not None else super().e_GeneratorExp(n, st)

    def e_DictComp(self, n, st):
        r = self._comp_generic(n, st, "dict")
        return r if r is not None else super().e_DictComp(n, st)

    def e_SetComp(self, n, st):
        r = self._comp_generic(n, st, "set")
        return r if r is not None else super().e_SetComp(n, st)

    def _stores_loop(self, comp, acc_name):
        """`for <targets> in <iter>: acc[<key>] = <value>` -- what merging the dict comprehension into acc does (PY-ORDER)."""
        if len(comp.generators) != 1 or comp.generators[0].ifs:
            return None
        g = comp.generators[0]
        tgt = ast.Subscript(value=ast.Name(id=acc_name, ctx=ast.Load()), slice=comp.key, ctx=ast.Store())
        loop = ast.For(target=g.target, iter=g.iter, body=[ast.Assign(targets=[tgt], value=comp.value)], orelse=[])
        ast.copy_location(loop, comp)
        ast.fix_missing_locations(loop)
        return loop

    def e_Dict(self, n, st):
        if any(k is None for k in n.keys) and all(k is not None or isinstance(v, ast.DictComp) for k, v in zip(n.keys, n.values)):
            # {k0: v0, ..., **{K: E for x in C}, ...}: the display filled left to right
            tmp = f"acc!{n.lineno}!{n.col_offset}"
            base = ast.Dict(keys=[], values=[])
            ast.copy_location(base, n)
            states = [(s2, v) for (s2, v) in super().e_Dict(base, st)]
            for k, v in zip(n.keys, n.values):
                nxt = []
                for (cur, ref) in states:
                    cur.frame.env[tmp] = ref
                    if k is None:
                        loop = self._stores_loop(v, tmp)
                        if loop is None:
                            self.unsupported(n, "dict ** unpacking of a filtered / nested comprehension")
                        for o in self.exec_stmt(loop, cur):
                            if o.kind == "fall":
                                nxt.append((o.st, o.st.frame.env[tmp]))
                            elif o.kind == "raise":
                                self.raise_in(o.st, o.val)
                            else:
                                self.unsupported(n, "control flow escaping a dict display")
                    else:
                        for (s2, kv) in self.ev(k, cur):
                            for (s3, vv) in self.ev(v, s2):
                                for s4 in self.store_index(s3, s3.frame.env[tmp], kv, vv, n):
                                    nxt.append((s4, s4.frame.env[tmp]))
                states = nxt
            for (cur, _r) in states:
                cur.frame.env.pop(tmp, None)
            return states
        return super().e_Dict(n, st)

    # ---------------------------------------------------------------- loops --
    # -------------------------------------------------- loop == comprehension --
    @staticmethod
    def loop_comp_expr(s, acc_hint=None):
        """(accumulator name, comprehension AST) for a loop of the shape `for x in C: [t = e]* ; acc.append(E) | acc[K] = E`
        (inner `acc2 = [] ; for ...` pairs are folded first), or None."""
        import copy
        if s.orelse or not s.body:
            return None
        body = SerExecutor.fold_accumulations(s.body)
        *temps, last = body
        tmap = {}
        for t in temps:
            if isinstance(t, ast.Assign) and len(t.targets) == 1 and isinstance(t.targets[0], ast.Name):
                name, val = t.targets[0].id, t.value
            elif isinstance(t, ast.AnnAssign) and isinstance(t.target, ast.Name) and t.value is not None:
                name, val = t.target.id, t.value
            else:
                return None
            if name in tmap:
                return None
            tmap[name] = val
        acc = key = elt = None
        if isinstance(last, ast.Expr) and isinstance(last.value, ast.Call) and isinstance(last.value.func, ast.Attribute) \
                and last.value.func.attr == "append" and isinstance(last.value.func.value, ast.Name) and len(last.value.args) == 1 and not last.value.keywords:
            acc, elt = last.value.func.value.id, last.value.args[0]
        elif isinstance(last, ast.Assign) and len(last.targets) == 1 and isinstance(last.targets[0], ast.Subscript) \
                and isinstance(last.targets[0].value, ast.Name) and not isinstance(last.targets[0].slice, ast.Slice):
            acc, key, elt = last.targets[0].value.id, last.targets[0].slice, last.value
        else:
            return None
        if acc_hint is not None and acc != acc_hint:
            return None
        used = {n.id for part in [s.iter, elt] + ([key] if key is not None else []) + list(tmap.values()) for n in ast.walk(part) if isinstance(n, ast.Name)}
        if acc in used or acc in tmap or any(isinstance(n, (ast.Yield, ast.YieldFrom, ast.NamedExpr, ast.Await, ast.Break, ast.Continue))
                                                for part in body for n in ast.walk(part)):
            return None

        class Sub(ast.NodeTransformer):
            def visit_Name(self_, n):
                if isinstance(n.ctx, ast.Load) and n.id in tmap:
                    return self_.visit(copy.deepcopy(tmap[n.id]))
                return n
        elt2 = Sub().visit(copy.deepcopy(elt))
        gen = ast.comprehension(target=s.target, iter=s.iter, ifs=[], is_async=0)
        comp = ast.ListComp(elt=elt2, generators=[gen]) if key is None else ast.DictComp(key=Sub().visit(copy.deepcopy(key)), value=elt2, generators=[gen])
        ast.copy_location(comp, s)
        ast.fix_missing_locations(comp)
        return acc, comp, key is not None

    @staticmethod
    def fold_accumulations(stmts):
        """`x = [] / {}` immediately followed by an accumulation loop on x  ==>  `x = <comprehension>` (exact)."""
        out, i = [], 0
        while i < len(stmts):
            a = stmts[i]
            nxt = stmts[i + 1] if i + 1 < len(stmts) else None
            name = val = None
            if isinstance(a, ast.Assign) and len(a.targets) == 1 and isinstance(a.targets[0], ast.Name):
                name, val = a.targets[0].id, a.value
            elif isinstance(a, ast.AnnAssign) and isinstance(a.target, ast.Name) and a.value is not None:
                name, val = a.target.id, a.value
            empty_list = isinstance(val, ast.List) and not val.elts or (isinstance(val, ast.Call) and getattr(val.func, "id", None) == "list" and not val.args and not val.keywords)
            empty_dict = isinstance(val, ast.Dict) and not val.keys or (isinstance(val, ast.Call) and getattr(val.func, "id", None) == "dict" and not val.args and not val.keywords)
            if name and (empty_list or empty_dict) and isinstance(nxt, ast.For):
                r = SerExecutor.loop_comp_expr(nxt, acc_hint=name)
                if r is not None and r[2] == bool(empty_dict):
                    new = ast.Assign(targets=[ast.Name(id=name, ctx=ast.Store())], value=r[1])
                    ast.copy_location(new, a)
                    ast.fix_missing_locations(new)
                    out.append(new)
                    i += 2
                    continue
            out.append(a)
            i += 1
        return out

    def exec_block(self, stmts, st):
        key = id(stmts)
        cache = self.__dict__.setdefault("_fold_cache", {})
        if key not in cache:
            try:
                folded = self.fold_accumulations(list(stmts))
            except Exception:  # noqa  (an unexpected AST shape: leave the block as it is)
                folded = list(stmts)
            cache[key] = (stmts, folded if len(folded) != len(stmts) else stmts)
        return super().exec_block(cache[key][1], st)

    def loop_as_comprehension(self, s, st, it):
        """Accumulation loop over a symbolic collection into a fresh, unaliased, still empty accumulator == comprehension."""
        if self._iter_view(st, it) is None:
            return None
        r = self.loop_comp_expr(s)
        if r is None:
            return None
        acc, comp, is_dict = r
        cur = st.frame.env.get(acc)
        if not isinstance(cur, VRef):
            return None
        o = st.obj(cur.ref)
        if not ((o.kind == "list" and not is_dict and o.data == []) or (o.kind == "dict" and is_dict and o.data == {})) or not o.fresh:
            return None
        for fr in st.frames:                       # no alias of the accumulator
            for nm, v in fr.env.items():
                if isinstance(v, VRef) and v.ref == cur.ref and not (fr is st.frame and nm == acc):
                    return None
        outs = []
        for (s2, v) in self.ev(comp, st):
            s2.bind(acc, v)
            outs.append(Outcome("fall", s2))
        return outs

    def s_For(self, s, st):
        outs = []
        for (s2, it) in self.ev(s.iter, st):
            as_comp = self.loop_as_comprehension(s, s2, it)
            if as_comp is not None:
                outs.extend(as_comp)
                continue
            if isinstance(it, PTok) and it.what == "clsfields":
                outs.extend(self.for_nameset(s, s2, it.a, as_field=True))
                continue
            if isinstance(it, PTok) and it.what == "fields":
                outs.extend(self.for_fields(s, s2, it.a, it.b))
            elif isinstance(it, PTok) and it.what == "nameset":
                outs.extend(self.for_nameset(s, s2, it.a))
            else:
                items = self.concrete_items(s2, it)
                if items is not None:
                    outs.extend(self.unrolled_for(s, s2, items))
                else:
                    outs.extend(self.symbolic_for(s, s2, it))
        return outs

    def kind_loop_spec(self, s, kind):
        """Invariant of a loop identified by WHAT it iterates (fields of an instance / a set of field names), wherever the
        loop lives (the function under contract or a helper executed in place) -- not by its ordinal or by local names."""
        spec = self.loop_spec(s)
        if spec is not None and spec.inv is not None:
            return spec
        return getattr(self.contract, kind + "_loop", None) if self.contract is not None else None

    def for_fields(self, s, st, fs, obj=None):
        """for f in fields(obj): prefix induction over the field list fs.
        The invariant sees lc.extra['done'] (KV term: the processed prefix), lc.extra['all'] and lc.extra['obj']."""
        spec = self.kind_loop_spec(s, "fields")
        if spec is None or spec.inv is None:
            self.unsupported(s, "loop over the fields of a dataclass instance needs an invariant")
        entry = st.fork()
        label = spec.label or f"L{s.lineno}"
        self.add_vc("inv-init", label, st.pc, self._b(spec.inv(LoopCtx(self, st, None, entry, extra={"done": KV.knil, "all": fs, "obj": obj}))), loc=self.loc(s))
        outs = []
        body = st.fork()
        before = dict(body.heap)
        self.havoc_loop_state(body, s.body, spec)
        self._havoc_pv_refs(body, s.body, before)
        after = body.fork()
        done = z3.Const(fresh_name("done"), KV)
        fk, fv = z3.String(fresh_name("fname")), z3.Const(fresh_name("fval"), V)
        rest = z3.Const(fresh_name("rest"), KV)
        body.assume(fs == sp.APP(done, KV.kcons(fk, fv, rest)))
        body.assume(self._b(spec.inv(LoopCtx(self, body, None, entry, extra={"done": done, "all": fs, "obj": obj}))))
        lf = getattr(self.contract, "loop_facts", None)
        if lf is not None:
            for fct in lf(self, body, entry, (done, fk, fv, rest)):
                body.assume(fct)
        for s3 in self.assign(s.target, PTok("field", fk, fv), body):
            for o in self.exec_block(s.body, s3):
                if o.kind in ("fall", "continue"):
                    d2 = sp.APP(done, KV.kcons(fk, fv, KV.knil))
                    self.add_vc("inv-preserve", label, o.st.pc, self._b(spec.inv(LoopCtx(self, o.st, None, entry, extra={"done": d2, "all": fs, "obj": obj, "step": (done, fk, fv, rest)}))),
                                loc=self.loc(s))
                elif o.kind == "break":
                    self.unsupported(s, "break in a loop over dataclass fields")
                else:
                    outs.append(o)
        after.assume(self._b(spec.inv(LoopCtx(self, after, None, entry, extra={"done": fs, "all": fs, "obj": obj}))))
        if s.orelse:
            outs.extend(self.exec_block(s.orelse, after))
        else:
            outs.append(Outcome("fall", after))
        return outs

    def _havoc_pv_refs(self, st, stmts, before=None):
        for ref in sorted(self.mutated_refs(stmts, st)):
            o = st.heap.get(ref)
            if before is not None and ref in before:
                o = before[ref]
            if o is not None and o.kind in ("dict", "pvkv"):
                st.heap[ref] = HeapObj("pvkv", z3.Const(fresh_name("acc"), KV), None, o.fresh)
            elif o is not None and o.kind == "pvmap":
                st.heap[ref] = HeapObj("pvmap", (z3.Const(fresh_name("has"), z3.ArraySort(sp.S, sp.B)), z3.Const(fresh_name("val"), z3.ArraySort(sp.S, V))), None, o.fresh)

    def for_nameset(self, s, st, cls, as_field=False):
        """for name in {f.name for f in fields(cls)}: every field name exactly once, in arbitrary order.
        Invariant sees lc.extra['seen'] (Array String->Bool: processed names)."""
        spec = self.kind_loop_spec(s, "nameset")
        if spec is None or spec.inv is None:
            self.unsupported(s, "loop over a set of field names needs an invariant")
        entry = st.fork()
        label = spec.label or f"L{s.lineno}"
        # dictionaries created empty before the loop and filled inside it are keyword maps
        for ref in self.mutated_refs(s.body, st):
            o = st.heap.get(ref)
            if o is not None and o.kind == "dict" and not o.data:
                st.heap[ref] = HeapObj("pvmap", (z3.K(sp.S, F), z3.K(sp.S, V.Non)), None, o.fresh)
        isfield = lambda nm: sp.MEMS(sp.FIELDS(cls), nm)
        empty = z3.K(sp.S, F)
        self.add_vc("inv-init", label, st.pc, self._b(spec.inv(LoopCtx(self, st, None, entry, extra={"seen": empty, "cls": cls}))), loc=self.loc(s))
        outs = []
        body = st.fork()
        before = dict(body.heap)
        self.havoc_loop_state(body, s.body, spec)
        self._havoc_pv_refs(body, s.body, before)
        after = body.fork()
        seen = z3.Const(fresh_name("seen"), z3.ArraySort(sp.S, sp.B))
        nm = z3.String(fresh_name("fname"))
        q = z3.String("q!seen")
        body.assume(z3.ForAll([q], z3.Implies(z3.Select(seen, q), isfield(q)), patterns=[z3.Select(seen, q)]))
        body.assume(z3.And(isfield(nm), z3.Not(z3.Select(seen, nm))))
        body.assume(self._b(spec.inv(LoopCtx(self, body, None, entry, extra={"seen": seen, "cls": cls}))))
        for s3 in self.assign(s.target, PTok("field", nm, None) if as_field else VStr(nm), body):
            for o in self.exec_block(s.body, s3):
                if o.kind in ("fall", "continue"):
                    self.add_vc("inv-preserve", label, o.st.pc, self._b(spec.inv(LoopCtx(self, o.st, None, entry, extra={"seen": z3.Store(seen, nm, T), "cls": cls}))),
                                loc=self.loc(s))
                elif o.kind == "break":
                    self.unsupported(s, "break in a loop over field names")
                else:
                    outs.append(o)
        allseen = z3.Const(fresh_name("allseen"), z3.ArraySort(sp.S, sp.B))
        after.assume(z3.ForAll([q], z3.Select(allseen, q) == isfield(q), patterns=[z3.Select(allseen, q)]))
        after.assume(self._b(spec.inv(LoopCtx(self, after, None, entry, extra={"seen": allseen, "cls": cls}))))
        if s.orelse:
            outs.extend(self.exec_block(s.orelse, after))
        else:
            outs.append(Outcome("fall", after))
        return outs

    # ----------------------------------------------------------------- calls --
    def e_Call(self, n, st):
        if isinstance(n.func, ast.Attribute) and n.func.attr == "update" and isinstance(n.func.value, ast.Name) and len(n.args) == 1 \
                and isinstance(n.args[0], ast.DictComp) and not n.keywords and isinstance(st.lookup(n.func.value.id), VRef):
            loop = self._stores_loop(n.args[0], n.func.value.id)          # acc.update({K: E for x in C}) == the loop of item stores
            if loop is not None:
                outs = []
                for o in self.exec_stmt(loop, st):
                    if o.kind == "fall":
                        outs.append((o.st, NONE))
                    elif o.kind == "raise":
                        self.raise_in(o.st, o.val)
                    else:
                        self.unsupported(n, "control flow escaping dict.update")
                return outs
        if any(k.arg is None for k in n.keywords) and not n.args and len(n.keywords) == 1:
            outs = []
            for (s, f) in self.ev(n.func, st):
                for (s2, kw) in self.ev(n.keywords[0].value, s):
                    outs.extend(self.construct_from_kwargs(s2, f, kw, n))
            return outs
        return super().e_Call(n, st)

    def construct_from_kwargs(self, st, f, kw, node):
        """cls(**kwargs) for a dataclass: every declared field from kwargs or its default (ASSUMED: @dataclass
        __init__; raises TypeError for a missing field without default or an unexpected keyword)."""
        cn = cls_name(f)
        if cn is None or not isinstance(kw, VRef):
            self.unsupported(node, "**kwargs call")
        o = st.obj(kw.ref)
        if o.kind == "dict" and not o.data:
            has, val = z3.K(sp.S, F), z3.K(sp.S, V.Non)
        elif o.kind == "pvmap":
            has, val = o.data
        else:
            self.unsupported(node, f"**kwargs of a dictionary that is not a keyword map ({o.kind}, {type(o.data).__name__})")
        self.raise_in(st.fork(), self.mk_exc("TypeError"))
        self.exc_any(st.fork(), f"{self.loc(node)} dataclass __init__/__post_init__")
        cf = getattr(self.contract, "construct_facts", None)
        if cf is not None and self.inline_depth == 0:
            for fct in cf(self, st, cn, has, val):
                st.assume(fct)
        return [(st, PV(V.DC(cn, sp.BUILDM(sp.FIELDS(cn), has, val, cn))))]
