"""Shared contract on sharepoint2text/__init__.py::read_file (used by C07: dispatch,
C12: explicit size limit, C01: failure surface)."""
import z3

from pyvc.contracts import FnContract, Raises
from pyvc.symex import Executor
from pyvc.values import NONE, VBool, VExt, VInt, VStr, VTuple, VUnk, ext_sort, fresh_name
from pyvc.verify import p_int, p_str
from pyvc import ops

INIT = "sharepoint2text/__init__.py"
PathS = ext_sort("Path")
S = z3.StringSort()
PSRC = z3.Function("path_source", PathS, S)     # the string a Path object was built from
PSTR = z3.Function("path_str", PathS, S)        # str(path_object)
FSIZE = z3.Function("file_size_on_disk", PathS, z3.IntSort())


def new_path(ex, st, args, kwargs, node):
    a = args[0] if args else VStr("")
    p = VExt("Path")
    if isinstance(a, VStr):
        st.assume(PSRC(p.t) == a.t)
        st.ghost["paths_from_param"] = st.ghost.get("paths_from_param", frozenset()) | {p.t.get_id()}
    elif isinstance(a, VExt) and a.sort == "Path":
        return [(st, a)]
    return [(st, p)]


def m_stat(ex, st, obj, args, kwargs, node):
    """Path.stat(): ASSUMED -- raises OSError family or returns an object whose st_size is the file's size (>= 0)."""
    bad = st.fork()
    t = z3.Int(fresh_name("exc"))
    bad.assume(z3.And(t >= 0, t < len(ex.uni.names), ex.uni.subclass_term(t, "OSError")))
    from pyvc.values import VExc
    ex.raise_in(bad, VExc(t, {"site": "Path.stat"}))
    st.assume(FSIZE(obj.t) >= 0)
    r = VExt("StatResult")
    st.ghost[("stat_of", r.t.get_id())] = obj.t
    return [(st, r)]


def a_st_size(ex, st, obj):
    p = st.ghost.get(("stat_of", obj.t.get_id()))
    return VInt(FSIZE(p)) if p is not None else VUnk("st_size")


def with_file(ex, st, cm, phase):
    if phase == "enter":
        return [(st, cm)]


def install(reg):
    reg.ext_models[("with", "File")] = with_file
    reg.ext_models[("new", "pathlib.Path")] = new_path
    reg.ext_models[("new", "Path")] = new_path
    reg.method_models[("Path", "stat")] = m_stat
    reg.attr_models[("StatResult", "st_size")] = a_st_size


class ReadFileExecutor(Executor):
    """str(Path) is the uninterpreted PSTR; calling the value returned by
    get_extractor records the dispatch (ghost) and yields unknown results."""

    def construct(self, st, t, args, kwargs, node):
        if t.name == "str" and args and isinstance(args[0], VExt) and args[0].sort == "Path":
            return [(st, VStr(PSTR(args[0].t)))]
        return super().construct(st, t, args, kwargs, node)

    def b_open(self, st, args, kwargs, node):
        """open(path, 'rb'): ASSUMED to raise only the OSError family."""
        from pyvc.values import VExc
        bad = st.fork()
        t = z3.Int(fresh_name("exc"))
        bad.assume(z3.And(t >= 0, t < len(self.uni.names), self.uni.subclass_term(t, "OSError")))
        self.raise_in(bad, VExc(t, {"site": "open"}))
        st.ghost["opened"] = st.ghost.get("opened", 0) + 1
        return [(st, VExt("File"))]

    def call(self, st, f, args, kwargs, node):
        if isinstance(f, VTuple) and len(f.items) == 2 and all(isinstance(x, VStr) for x in f.items):
            st.ghost["dispatch"] = st.ghost.get("dispatch", ()) + ((f, tuple(args)),)
            # keyword arguments of the same calls, index-aligned with "dispatch" (added for C07's archive member site)
            st.ghost["dispatch_kw"] = st.ghost.get("dispatch_kw", ()) + (dict(kwargs or {}),)
            self.exc_any(st.fork(), f"{self.loc(node)} extractor call")
            return [(st, VUnk("results"))]
        return super().call(st, f, args, kwargs, node)

    def b_getattr(self, st, args, kwargs, node):
        a0 = args[0]
        if isinstance(a0, VTuple) and len(a0.items) == 2 and isinstance(a0.items[0], VStr) and a0.items[0].const() == "<module>":
            return [(st, VTuple([a0.items[1], args[1]]))]
        return super().b_getattr(st, args, kwargs, node)
