"""PY-RE contracts *derived from the pattern text* found in the real module AST.

For a module-level `NAME = re.compile(<literal>, flags...)` the pattern literal is parsed with CPython's own
regex parser (re._parser); per capturing group we derive
  * mandatory: the group participates in every successful match (not under `?`, `*`, `{0,..}` or an alternation);
  * width:     (min, max) number of characters of the group's text (max None = unbounded);
  * ascii_hex / ascii_dec / signed_dec: every character of the group is an ASCII hex digit / ASCII decimal digit /
    the group is an optional '-' followed by \\d+ (Unicode decimal digits: int() accepts them).
These are facts about `re` semantics (assumption PY-RE), not about the repository code.
"""
import ast
import re

_P = re._parser
_C = re._constants


def pattern_literal(mod, name):
    """(pattern string, flags source) of `NAME = re.compile("...")` in module `mod`, else None."""
    node = mod.assigns.get(name)
    if not isinstance(node, ast.Call) or ast.unparse(node.func) not in ("re.compile", "compile"):
        return None
    if not node.args or not isinstance(node.args[0], ast.Constant) or not isinstance(node.args[0].value, str):
        return None
    return node.args[0].value


def _only_ascii_set(items, allowed):
    """IN-set consisting only of literals/ranges inside `allowed` (a set of code points)."""
    for op, av in items:
        if op is _C.LITERAL:
            if av not in allowed:
                return False
        elif op is _C.RANGE:
            lo, hi = av
            if hi - lo > 200 or any(c not in allowed for c in range(lo, hi + 1)):
                return False
        else:
            return False
    return True


HEX = set(map(ord, "0123456789abcdefABCDEF"))
DEC = set(map(ord, "0123456789"))


def _is_digit_atom(sub):
    if len(sub) != 1 or sub[0][0] is not _C.IN:
        return False
    av = sub[0][1]
    return (len(av) == 1 and av[0] == (_C.CATEGORY, _C.CATEGORY_DIGIT)) or _only_ascii_set(av, DEC)


def _body_class(body):
    """'hex' | 'dec' | 'udec' (\\d: Unicode decimals) | 'signed-udec' | None for a group's body."""
    def atom_class(op, av):
        if op is _C.IN:
            if _only_ascii_set(av, DEC):
                return "dec"
            if _only_ascii_set(av, HEX):
                return "hex"
            if len(av) == 1 and av[0] == (_C.CATEGORY, _C.CATEGORY_DIGIT):
                return "udec"
            return None
        if op is _C.LITERAL:
            if av in DEC:
                return "dec"
            if av in HEX:
                return "hex"
        return None
    items = list(body)
    # <digits> [ "." <digits> ]  -- a non-negative decimal numeral (float() accepts it; the value is finite or +inf)
    if len(items) == 2 and items[0][0] is _C.MAX_REPEAT and items[0][1][0] >= 1 and _is_digit_atom(list(items[0][1][2])) \
            and items[1][0] is _C.MAX_REPEAT and items[1][1][0] == 0 and items[1][1][1] == 1:
        tail = list(items[1][1][2])
        if len(tail) == 2 and tail[0] == (_C.LITERAL, ord(".")) and tail[1][0] is _C.MAX_REPEAT and tail[1][1][0] >= 1 \
                and _is_digit_atom(list(tail[1][1][2])):
            return "decimal"
    signed = False
    if items and items[0][0] is _C.MAX_REPEAT and items[0][1][0] == 0 and items[0][1][1] == 1 \
            and list(items[0][1][2]) == [(_C.LITERAL, ord("-"))]:
        signed = True
        items = items[1:]
    classes = set()
    for op, av in items:
        if op in (_C.MAX_REPEAT, _C.MIN_REPEAT):
            sub = list(av[2])
            if len(sub) != 1:
                return None
            c = atom_class(*sub[0])
        else:
            c = atom_class(op, av)
        if c is None:
            return None
        classes.add(c)
    if not classes:
        return None
    order = ["dec", "hex", "udec"]
    if "udec" in classes and "hex" in classes:
        return None
    c = max(classes, key=order.index)
    return ("signed-" + c) if signed else c


def groups(pattern: str):
    """{group number: {"mandatory": bool, "width": (lo, hi|None), "cls": str|None}}"""
    try:
        tree = _P.parse(pattern)
    except re.error:
        return {}
    out = {}

    def walk(sub, optional):
        for op, av in sub:
            if op is _C.SUBPATTERN:
                gid, _a, _b, body = av
                lo, hi = body.getwidth()
                if gid is not None:
                    out[gid] = {"mandatory": not optional, "width": (lo, None if hi >= _C.MAXREPEAT or hi > 1 << 20 else hi), "cls": _body_class(body)}
                walk(body, optional)
            elif op in (_C.MAX_REPEAT, _C.MIN_REPEAT, _C.POSSESSIVE_REPEAT):
                lo, hi, body = av
                walk(body, optional or lo == 0)
            elif op is _C.BRANCH:
                for b in av[1]:
                    walk(b, True)
            elif op in (_C.ASSERT, _C.ASSERT_NOT):
                walk(av[1], True)
            elif op is _C.ATOMIC_GROUP:
                walk(av, optional)
            elif op is _C.GROUPREF_EXISTS:
                for b in av[1:]:
                    if b is not None:
                        walk(b, True)
    walk(tree, False)
    return out


def int_range_of_group(info, base):
    """Range (lo, hi) of int(<group text>, base) for a matched group, or None when unbounded / not derivable."""
    if info is None or info["cls"] is None:
        return None
    lo_w, hi_w = info["width"]
    cls = info["cls"]
    signed = cls.startswith("signed-")
    core = cls[7:] if signed else cls
    if base == 16 and core not in ("hex", "dec"):
        return None
    if base == 10 and core not in ("dec", "udec"):
        return None
    if hi_w is None:
        return ("unbounded", signed)
    digits = hi_w - (0 if not signed else 0)
    top = base ** digits - 1
    return (-top if signed else 0, top)
