"""C19 -- the call sites that turn the formulas of a document part into a list:
  pptx_extractor._extract_formulas_from_element(elem)      -> [(latex, is_display)]
  docx_extractor._extract_formulas_from_context(ctx)       -> [DocxFormula(latex, is_display)]

Contract (from the functions' docstrings and the property: the converter's result for every formula reaches
the document; an exception or a dropped formula fails it):
  * every m:oMath that `root.iter(m:oMath)` yields is converted exactly once, nothing else is converted;
  * its LaTeX is listed exactly once iff it is not blank;
  * it is listed as a display equation iff it is the (first) m:oMath child of an m:oMathPara that
    `root.iter(m:oMathPara)` yields;  no exception.
The order of the list (display equations first) is only checked natively (BOUNDED, replay/C19.py).

Ghost state, all as SMT arrays over the abstract element sort (so the VCs are about *all* elements):
  CNT[x]  number of omml_to_latex(x) calls          (heap object of kind "cnt", updated at every call)
  APP[x]  number of list entries whose latex is omml_to_latex(x);  FLG[x] the is_display of that entry
  INP[x]  id(x) is in the `set()` the code keeps     (ASSUMED PY-ID: id() is injective on live objects)
`Element.iter(tag)` is ASSUMED to yield the element itself/its descendants with that tag, each once
(ITERPOS is the inverse of ITERITEM on the yielded range).
"""
import ast

import z3

from pyvc import loader
from pyvc.contracts import FnContract, LoopSpec
from pyvc.ops import Unsupported
from pyvc.state import HeapObj
from pyvc.values import NONE, V, VBool, VExt, VFunc, VNoneT, VRef, VStr, VTuple, VType
from pyvc.verify import p_ext, p_obj, p_opt

from contracts import C19 as B
from contracts import c19_push as _push

El, S = B.El, B.S
PPTX = "sharepoint2text/parsing/extractors/ms_modern/pptx_extractor.py"
DOCX = "sharepoint2text/parsing/extractors/ms_modern/docx_extractor.py"


def _calls(fn, name):
    return [n for n in ast.walk(fn) if isinstance(n, ast.Call) and (
        (isinstance(n.func, ast.Name) and n.func.id == name) or (isinstance(n.func, ast.Attribute) and n.func.attr == name))]


def _discover():
    """the call-site functions, found by what they do when they no longer carry their historical names:
    pptx: the function that calls omml_to_latex; docx: the recursive caller (text assembly) and the caller that
    builds DocxFormula records"""
    names = {"pptx": "_extract_formulas_from_element", "docx": "_extract_formulas_from_context", "pte": "_process_text_element"}
    try:
        pm, dm = loader.module(PPTX), loader.module(DOCX)
        top = lambda m: {q: f for q, f in m.functions.items() if "." not in q}
        pc = [q for q, f in top(pm).items() if B.converter_calls(pm, f)]
        if names["pptx"] not in pc and len(pc) == 1:
            names["pptx"] = pc[0]
        dc = {q: f for q, f in top(dm).items() if B.converter_calls(dm, f)}
        rec = [q for q, f in dc.items() if _calls(f, q)]
        rec_ = [q for q in rec]
        if names["pte"] not in dc and len(rec_) == 1:
            names["pte"] = rec_[0]
        mk = [q for q, f in dc.items() if _calls(f, "DocxFormula") and q not in rec]
        if names["docx"] not in dc and len(mk) == 1:
            names["docx"] = mk[0]
    except Exception:  # noqa
        pass
    return names


_N = _discover()
T_PPTX = f"{PPTX}::{_N['pptx']}"
T_DOCX = f"{DOCX}::{_N['docx']}"
SITES = (T_PPTX, T_DOCX)
T_PTE = f"{DOCX}::{_N['pte']}"      # docx text assembly: $..$ / $$..$$ inserted into the paragraph text
OIDS = {T_PPTX: "_extract_formulas_from_element", T_DOCX: "_extract_formulas_from_context", T_PTE: "_process_text_element"}
ArrB, ArrI = z3.ArraySort(El, z3.BoolSort()), z3.ArraySort(El, z3.IntSort())


class VElemId(V):
    """id(element): only membership in / insertion into an id set is modelled"""
    kind = "elemid"
    __slots__ = ("t",)

    def __init__(self, t):
        self.t = t


def T1():
    return B.sval(B.Q("oMathPara"))


def T2():
    return B.sval(B.Q("oMath"))


def nonblank(x):
    return z3.Length(B.STRIP(B.OML(x))) > 0


def only(st, kind):
    objs = [o for o in st.heap.values() if o.kind == kind]
    return objs[0] if len(objs) == 1 else None


def cnt_of(st):
    r = st.ghost.get("cnt_ref")
    return st.heap[r].data["arr"] if r is not None else None


# ---- quantifier-free VCs: skolemised goal, hypotheses instantiated on the VC's ground terms -----------
MARK = z3.Bool("c19!hypotheses-instantiated")


def has_q(e):
    # (not pyvc.symex._has_quantifier: its cache is keyed by AST ids, which are reused once a term is freed)
    seen, stack = set(), [e]
    while stack:
        x = stack.pop()
        i = x.get_id()
        if i in seen:
            continue
        seen.add(i)
        if z3.is_quantifier(x):
            return True
        stack.extend(x.children())
    return False


def skolemize(e):
    """goal with its (positive) universal quantifiers replaced by fresh constants; None when a quantifier
    sits where that is not valid"""
    if not has_q(e):
        return e
    if z3.is_quantifier(e):
        if not e.is_forall():
            return None
        cs = [z3.Const(B.fresh_name("sk!" + e.var_name(j)), e.var_sort(j)) for j in range(e.num_vars())]
        return skolemize(z3.substitute_vars(e.body(), *reversed(cs)))
    if z3.is_and(e):
        parts = [skolemize(a) for a in e.children()]
        return None if any(p_ is None for p_ in parts) else z3.And(parts)
    if z3.is_implies(e) and not has_q(e.arg(0)):
        b = skolemize(e.arg(1))
        return None if b is None else z3.Implies(e.arg(0), b)
    return None


def ground_terms(exprs, cap=80):
    out, seen, stack = {}, set(), list(exprs)
    while stack:
        x = stack.pop()
        i = x.get_id()
        if i in seen or z3.is_quantifier(x):
            continue
        seen.add(i)
        if z3.is_app(x):
            srt = x.sort()
            if srt == El or srt == z3.IntSort():
                lst = out.setdefault(srt.name(), [])
                if len(lst) < cap:
                    lst.append(x)
            stack.extend(x.children())
    return out


def instances(h, ground):
    """quantifier-free consequences of hypothesis h: its universal conjuncts instantiated on `ground`"""
    if not has_q(h):
        return [h]
    if z3.is_and(h):
        return [y for a in h.children() for y in instances(a, ground)]
    if z3.is_quantifier(h) and h.is_forall() and h.num_vars() == 1:
        out = []
        for t in ground.get(h.var_sort(0).name(), []):
            b = z3.substitute_vars(h.body(), t)
            if not has_q(b):
                out.append(b)
        return out
    return []            # not recognised: dropped (hypotheses only get weaker)


def qf_vc(pc, goal):
    g = skolemize(goal)
    if g is None:
        return None
    qf = [p_ for p_ in pc if not has_q(p_)]
    qs = [p_ for p_ in pc if has_q(p_)]
    inst = []
    for _round in range(2):          # instances mention new ground terms (parents, positions): one more round
        gt = ground_terms(qf + [g] + inst)
        inst = [y for h in qs for y in instances(h, gt)]
    return qf + inst + [MARK], g


def _untrusted(pc, goal):
    return any(p_.eq(MARK) for p_ in pc)


from pyvc import solve as _solve  # noqa: E402

import os as _os  # noqa: E402

if not _os.environ.get("PYVC_TIMEOUT_MS"):
    # every C19 VC that is valid is proved in well under a second; a failing site VC is handed to the native
    # replayer anyway, so the quick tier does not wait 30 s per VC for a model
    _solve.QUICK_TIMEOUT_MS = min(_solve.QUICK_TIMEOUT_MS, 8000)
if _untrusted not in _solve.SAT_UNTRUSTED:
    _solve.SAT_UNTRUSTED.append(_untrusted)      # a model of the *instantiated* hypotheses is not a counter-model:
                                                  # such a VC becomes `unknown` and the native replayer decides


class SiteExecutor(B.C19Executor):
    def site_mode(self):
        return self.contract is not None and self.contract.target in SITES and self.inline_depth == 0

    def add_vc(self, kind, label, pc, goal, note="", loc=""):
        if self.site_mode():
            g = goal.t if isinstance(goal, VBool) else (z3.BoolVal(goal) if isinstance(goal, bool) else goal)
            if has_q(g) or any(has_q(p_) for p_ in pc):
                r = qf_vc(list(pc), g)
                if r is not None:
                    pc, goal = r
        return super().add_vc(kind, label, pc, goal, note, loc)

    # -- iteration over an uncontracted generator helper of the module: push form (contracts/c19_push.py) ----
    def s_For(self, s, st):
        if self.site_mode():
            stmts = _push.loop_stmts(self, st, s)
            if stmts is not None:
                return self.exec_block(stmts, st)
        return super().s_For(s, st)

    def e_ListComp(self, n, st):
        if self.site_mode():
            r = _push.comp_stmts(self, st, n)
            if r is not None:
                stmts, acc = r
                out = []
                for o in self.exec_block(stmts, st):
                    if o.kind == "fall":
                        out.append((o.st, o.st.lookup(acc)))
                    elif o.kind == "raise":
                        self.raise_in(o.st, o.val)
                    else:
                        self.unsupported(n, f"{o.kind} leaving a comprehension")
                return out
        return super().e_ListComp(n, st)

    def _pushed(self, node):
        hit = self.__dict__.get("_push_labels", {}).get(id(node))
        return hit[1] if hit is not None and hit[0] is node else None

    def loop_spec(self, node):
        if self._pushed(node) is not None and self.contract is not None and self.inline_depth == 0:
            return self.contract.loops.get("*")
        return super().loop_spec(node)

    def loop_label(self, node):
        return self._pushed(node) or super().loop_label(node)

    # -- the id set, the result list, the conversion counter ---------------------------------
    def construct(self, st, t, args, kwargs, node):
        if self.site_mode() and isinstance(t, VType):
            if t.name == "set" and not args and not kwargs:
                return [(st, VRef(st.alloc(HeapObj("idset", {"arr": z3.K(El, z3.BoolVal(False))}), self.refs)))]
            if t.name.split(".")[-1] == "DocxFormula":
                # ASSUMED: the @dataclass constructor stores its fields and does not raise
                fields = dataclass_fields(self.module.repo, "DocxFormula")
                vals = dict(zip([f for f, _ in fields], args))
                vals.update(kwargs)
                if set(vals) - {f for f, _ in fields}:
                    self.raise_in(st, self.mk_exc("TypeError"))
                    return []
                return [(st, VTuple([vals.get(f, d) for f, d in fields]))]
        return super().construct(st, t, args, kwargs, node)

    def b_id(self, st, args, kwargs, node):
        if self.site_mode() and len(args) == 1 and isinstance(args[0], VExt) and args[0].sort == "Element":
            return [(st, VElemId(args[0].t))]
        return super().b_id(st, args, kwargs, node)

    def e_List(self, n, st):
        if self.site_mode() and not n.elts:
            d = {"APP": z3.K(El, z3.IntVal(0)), "FLG": z3.K(El, z3.BoolVal(False)), "foreign": z3.BoolVal(False),
                 "n": z3.IntVal(0)}
            return [(st, VRef(st.alloc(HeapObj("flist", d), self.refs)))]
        return super().e_List(n, st)

    def truth(self, st, v):
        if isinstance(v, VRef) and st.obj(v.ref).kind == "flist":
            return VBool(st.obj(v.ref).data["n"] > 0)
        if isinstance(v, VRef) and st.obj(v.ref).kind == "idset":
            raise Unsupported("truth value of an abstract id set")
        return super().truth(st, v)

    def call_method(self, st, obj, name, args, kwargs, node):
        if isinstance(obj, VRef):
            o = st.obj(obj.ref)
            if st.ghost.get("append_only") == obj.ref and name != "append":
                # the parameter stands for "what this call appends": any other use of the list leaves the model
                raise Unsupported(f"{self.loc(node)} list.{name} on the append-only output parameter")
            if o.kind == "idset":
                if name == "add" and len(args) == 1 and isinstance(args[0], VElemId):
                    w = st.wobj(obj.ref)
                    w.data = {"arr": z3.Store(o.data["arr"], args[0].t, z3.BoolVal(True))}
                    return [(st, NONE)]
                raise Unsupported(f"{self.loc(node)} set.{name} on an id set")
            if o.kind == "flist":
                if name == "append" and len(args) == 1:
                    self.flist_append(st, obj.ref, args[0])
                    return [(st, NONE)]
                raise Unsupported(f"{self.loc(node)} list.{name} on the formula list")
        return super().call_method(st, obj, name, args, kwargs, node)

    def flist_append(self, st, ref, item):
        o = st.obj(ref)
        d = dict(o.data)
        src = None
        if isinstance(item, VTuple) and len(item.items) == 2 and isinstance(item.items[0], VStr) \
                and isinstance(item.items[1], VBool):
            t = item.items[0].t
            if z3.is_app(t) and t.decl().name() == "omml_to_latex_of":
                src = t.arg(0)
        if src is None:
            d["foreign"] = z3.BoolVal(True)          # an entry that is not (omml_to_latex(x), bool)
        else:
            d["APP"] = z3.Store(d["APP"], src, z3.Select(d["APP"], src) + 1)
            d["FLG"] = z3.Store(d["FLG"], src, item.items[1].t)
        d["n"] = d["n"] + 1
        st.wobj(ref).data = d

    def contains(self, st, container, item, node):
        if isinstance(container, VRef) and st.obj(container.ref).kind == "idset":
            if not isinstance(item, VElemId):
                raise Unsupported(f"{self.loc(node)} membership of {item!r} in an id set")
            return [(st, VBool(z3.Select(st.obj(container.ref).data["arr"], item.t)))]
        return super().contains(st, container, item, node)

    def call(self, st, f, args, kwargs, node):
        res = super().call(st, f, args, kwargs, node)
        if self.contract is not None and self.contract.target == T_PTE and self.inline_depth == 0 \
                and isinstance(f, VFunc) and f.how == "repo" and f.b == "omml_to_latex" and f.a == B.OMML:
            for (s2, _v) in res:
                s2.ghost["oml_calls"] = s2.ghost.get("oml_calls", ()) + (args[0] if args else None,)
        if self.site_mode() and isinstance(f, VFunc) and f.how == "repo" and f.b == "omml_to_latex" and f.a == B.OMML:
            if len(args) == 1 and isinstance(args[0], VExt):
                for (s2, _v) in res:
                    r = s2.ghost.get("cnt_ref")
                    if r is not None:
                        a = s2.obj(r).data["arr"]
                        s2.wobj(r).data = {"arr": z3.Store(a, args[0].t, z3.Select(a, args[0].t) + 1)}
        return res

    def b_len(self, st, args, kwargs, node):
        if len(args) == 1 and isinstance(args[0], VRef) and st.obj(args[0].ref).kind == "flist":
            from pyvc.values import VInt
            return [(st, VInt(st.obj(args[0].ref).data["n"]))]
        if args and isinstance(args[0], VRef) and st.ghost.get("append_only") == args[0].ref:
            raise Unsupported(f"{self.loc(node)} len() of the append-only output parameter")
        return super().b_len(st, args, kwargs, node)

    def get_index(self, st, base, idx, node):
        if isinstance(base, VRef) and st.ghost.get("append_only") == base.ref:
            raise Unsupported(f"{self.loc(node)} subscript of the append-only output parameter")
        return super().get_index(st, base, idx, node)

    def converts(self, nodes):
        try:
            cm = loader.module(self.contract.target.split("::")[0])
        except Exception:  # noqa
            return any(_calls(b, "omml_to_latex") for b in nodes)
        return any(B.converter_calls(cm, b) for b in nodes)

    def e_Dict(self, n, st):
        if self.site_mode() and not n.keys:
            # an empty dict in these functions can only become an id-keyed map (`d[id(x)] = x`, `id(x) in d`): modelled as the
            # set of its keys; any other use leaves the model (Unsupported -> bounded stand-in)
            return [(st, VRef(st.alloc(HeapObj("idset", {"arr": z3.K(El, z3.BoolVal(False))}), self.refs)))]
        return super().e_Dict(n, st)

    def store_index(self, st, base, idx, v, node):
        if isinstance(base, VRef) and st.obj(base.ref).kind == "idset":
            if not isinstance(idx, VElemId):
                raise Unsupported(f"{self.loc(node)} id-keyed map with another key")
            st.wobj(base.ref).data = {"arr": z3.Store(st.obj(base.ref).data["arr"], idx.t, z3.BoolVal(True))}
            return [st]
        return super().store_index(st, base, idx, v, node)

    def havoc_loop(self, st, nodes, accs):
        super().havoc_loop(st, nodes, accs)
        r = st.ghost.get("cnt_ref")
        if self.site_mode() and r is not None and self.converts(nodes):
            st.heap[r] = HeapObj("cnt", {"arr": z3.Const(B.fresh_name("CNT"), ArrI)}, None, True)

    def havoc_ref(self, st, ref, o, nodes):
        if o.kind == "idset":
            st.heap[ref] = HeapObj("idset", {"arr": z3.Const(B.fresh_name("INP"), ArrB)}, None, o.fresh)
            return True
        if o.kind == "flist":
            n = z3.Int(B.fresh_name("nformulas"))
            st.assume(n >= 0)
            st.heap[ref] = HeapObj("flist", {"APP": z3.Const(B.fresh_name("APP"), ArrI), "FLG": z3.Const(B.fresh_name("FLG"), ArrB),
                                             "foreign": z3.Bool(B.fresh_name("foreign")), "n": n}, None, o.fresh)
            return True
        if o.kind == "cnt":
            return True
        return False


def dataclass_fields(repo, name):
    m = loader.module("sharepoint2text/parsing/extractors/data_types.py", repo)
    cls = m.classes[name]
    out = []
    for b in cls.body:
        if isinstance(b, ast.AnnAssign) and isinstance(b.target, ast.Name):
            d = ast.literal_eval(b.value) if b.value is not None else None
            out.append((b.target.id, B.ops.lift(d)))
    return out


# ---- spec ------------------------------------------------------------------------------------
def P(r, k):
    return B.ITERITEM(r, T1(), k)


def O(r, k):
    return B.ITERITEM(r, T2(), k)


def seen2(r, x, i):
    p = B.ITERPOS(r, T2(), x)
    return z3.And(p >= 0, p < i, O(r, p) == x)


def first_of_para(r, x, i):
    """x is the first m:oMath child of the m:oMathPara that root.iter yields at a position < i"""
    par = B.PARENT(x)
    p = B.ITERPOS(r, T1(), par)
    return z3.And(p >= 0, p < i, P(r, p) == par, B.TAG(par) == T1(), z3.Not(B.FINDNONE(par, T2())),
                  B.FIND(par, T2()) == x, B.TAG(x) == T2())


def state_arrays(st):
    inp, fl, cnt = only(st, "idset"), only(st, "flist"), cnt_of(st)
    if inp is None or fl is None or cnt is None:
        return None
    return inp.data["arr"], cnt, fl.data["APP"], fl.data["FLG"], fl.data["foreign"]


def root_of(c0):
    a = B.A0(c0)
    if isinstance(a, VRef):          # the docx context object: the body is its attribute
        return c0.entry.obj(a.ref).data["document_body"]
    return a


def common(r, INP, CNT, APP, FLG, foreign, conv):
    """conv(x): x has been converted so far"""
    x = z3.Const("x!site", El)
    return [
        z3.ForAll([x], z3.Select(CNT, x) == z3.If(conv(x), 1, 0)),
        z3.ForAll([x], z3.Select(APP, x) == z3.If(z3.And(conv(x), nonblank(x)), 1, 0)),
        z3.ForAll([x], z3.Implies(z3.Select(APP, x) > 0, z3.Select(FLG, x) == z3.Select(INP, x))),
        z3.ForAll([x], z3.Implies(z3.Select(CNT, x) != 0, B.TAG(x) == T2())),
        z3.Not(foreign),
    ]


def inv1(lc):
    """loop over root.iter(m:oMathPara)"""
    arrs = state_arrays(lc.st)
    rv = root_of(lc.ex.entry_ctx)
    if arrs is None or not isinstance(rv, VExt):
        return z3.BoolVal(False)
    r, i = rv.t, lc.i
    INP, CNT, APP, FLG, foreign = arrs
    x, k = z3.Const("x!site", El), z3.Int("k!site")
    return z3.And([
        z3.ForAll([x], z3.Implies(z3.Select(INP, x), first_of_para(r, x, i))),
        z3.ForAll([k], z3.Implies(z3.And(k >= 0, k < i, z3.Not(B.FINDNONE(P(r, k), T2()))),
                                  z3.Select(INP, B.FIND(P(r, k), T2())))),
    ] + common(r, INP, CNT, APP, FLG, foreign, lambda y: z3.Select(INP, y)))


def inv2(lc):
    """loop over root.iter(m:oMath)"""
    arrs = state_arrays(lc.st)
    rv = root_of(lc.ex.entry_ctx)
    if arrs is None or not isinstance(rv, VExt):
        return z3.BoolVal(False)
    r, i = rv.t, lc.i
    INP, CNT, APP, FLG, foreign = arrs
    return z3.And(common(r, INP, CNT, APP, FLG, foreign, lambda y: z3.Or(z3.Select(INP, y), seen2(r, y, i))))


def post(label):
    def clause(c):
        if not B.verifying(c):
            return z3.BoolVal(True)
        rv = root_of(c.ex.entry_ctx)
        res = c.result
        if not (isinstance(res, VRef) and c.st.obj(res.ref).kind == "flist"):
            return z3.BoolVal(False)
        fl = c.st.obj(res.ref).data
        APP, FLG, foreign = fl["APP"], fl["FLG"], fl["foreign"]
        CNT = cnt_of(c.st)
        x, k = z3.Const("x!site", El), z3.Int("k!site")
        if not isinstance(rv, VExt):          # no body: nothing converted, nothing listed
            return z3.And(z3.ForAll([x], z3.Select(CNT, x) == 0), z3.ForAll([x], z3.Select(APP, x) == 0), z3.Not(foreign))
        r = rv.t
        n1, n2 = B.NITER(r, T1()), B.NITER(r, T2())
        if label == "every-oMath-converted-exactly-once":
            return z3.ForAll([x], z3.Implies(seen2(r, x, n2), z3.Select(CNT, x) == 1))
        if label == "nothing-else-converted":
            return z3.ForAll([x], z3.Implies(z3.Select(CNT, x) != 0,
                                             z3.And(z3.Select(CNT, x) == 1, B.TAG(x) == T2())))
        if label == "listed-once-iff-not-blank":
            return z3.And(z3.Not(foreign),
                          z3.ForAll([x], z3.Select(APP, x) == z3.If(z3.And(z3.Select(CNT, x) == 1, nonblank(x)), 1, 0)))
        if label == "display-flag":
            fx = B.FIND(P(r, k), T2())
            return z3.And(
                # an entry flagged display is the first oMath of a yielded oMathPara ...
                z3.ForAll([x], z3.Implies(z3.And(z3.Select(APP, x) > 0, z3.Select(FLG, x)), first_of_para(r, x, n1))),
                # ... and the first oMath of every yielded oMathPara, when listed, is flagged display
                z3.ForAll([k], z3.Implies(z3.And(k >= 0, k < n1, z3.Not(B.FINDNONE(P(r, k), T2())), z3.Select(APP, fx) > 0),
                                          z3.Select(FLG, fx))))
        raise AssertionError(label)
    return clause


LABELS = ("every-oMath-converted-exactly-once", "nothing-else-converted", "listed-once-iff-not-blank", "display-flag")


def site_hyps(c):
    if B.verifying(c) or getattr(c.ex, "entry_ctx", None) is None:
        if "cnt_ref" not in c.st.ghost:
            c.st.ghost["cnt_ref"] = c.st.alloc(HeapObj("cnt", {"arr": z3.K(El, z3.IntVal(0))}), c.ex.refs)
    fs = []
    for v in c.args.values():
        if isinstance(v, VExt):
            fs += B.elem_hyps(v)
    return z3.And(fs) if fs else z3.BoolVal(True)


# ---- docx text assembly ------------------------------------------------------------------
def p_outlist():
    from pyvc.verify import Maker

    def mk(ex, st, name):
        ref = st.alloc(HeapObj("list", [], fresh=False), ex.refs)
        st.ghost["append_only"] = ref
        return VRef(ref)
    return Maker(mk, desc="list[str] (only what the call appends is modelled)")


def committed_tag(c, e):
    for f in c.st.pc:
        if z3.is_eq(f) and f.num_args() == 2:
            a, b = f.arg(0), f.arg(1)
            if a.eq(B.TAG(e)) and z3.is_string_value(b):
                return B.z3_str_value(b)
            if b.eq(B.TAG(e)) and z3.is_string_value(a):
                return B.z3_str_value(a)
    return None


def pte_frame(ex, st, c):
    """a (recursive) call may append any strings to `parts`"""
    v = list(c.args.values())[1]
    if isinstance(v, VRef):
        d = {k: z3.Int(B.fresh_name(f"parts.{k}")) for k in ("n",) + B.HN}
        for k in d:
            st.assume(d[k] >= 0)
        st.heap[v.ref] = HeapObj("slist", d, None, False)


def pte_formula(which):
    def clause(c):
        if not B.verifying(c):
            return z3.BoolVal(True)
        av = list(c.args.values())
        e, inc = av[0].t, av[2].t
        tag = committed_tag(c, e)
        want_tag = B.Q("oMath") if which == "inline" else B.Q("oMathPara")
        if tag is not None and tag != want_tag:
            return z3.BoolVal(True)              # the path condition commits to another tag
        o = c.st.obj(av[1].ref)
        calls = c.st.ghost.get("oml_calls", ())
        if o.kind != "list" or o.data is None or not all(isinstance(x, VStr) for x in o.data):
            return z3.Implies(B.TAG(e) == B.sval(want_tag), z3.BoolVal(False))
        n = len(o.data)

        def called_exactly(x):
            return z3.BoolVal(len(calls) == 1 and isinstance(calls[0], VExt) and calls[0].t.eq(x))
        none_called = z3.BoolVal(len(calls) == 0)
        if which == "inline":
            x, present, l, r = e, z3.BoolVal(True), "$", "$"
        else:
            x, present, l, r = B.FIND(e, T2()), z3.Not(B.FINDNONE(e, T2())), "$$", "$$"
        conv = z3.And(inc, present)
        listed = z3.And(conv, nonblank(x))
        first = o.data[0].t if n >= 1 else B.sval("")
        body = z3.And(
            z3.If(conv, called_exactly(x), none_called),
            z3.If(listed, z3.And(z3.BoolVal(n == 1), first == B.cat(l, B.OML(x), r)), z3.BoolVal(n == 0)))
        return z3.Implies(B.TAG(e) == B.sval(want_tag), body)
    return clause


def pte_hyps(c):
    fs = []
    v = B.A0(c)
    if isinstance(v, VExt):
        fs += B.elem_hyps(v)
    return z3.And(fs) if fs else z3.BoolVal(True)


def inv_by_sequence(lc):
    """the invariant follows from *what* the loop iterates (root.iter(m:oMathPara) / root.iter(m:oMath)), not from its position"""
    tag = lc.seq.tag.get("iter") if hasattr(lc.seq, "tag") and isinstance(lc.seq.tag, dict) else None
    if tag is None:
        return z3.BoolVal(True)
    if tag[1] == B.Q("oMathPara"):
        return inv1(lc)
    if tag[1] == B.Q("oMath"):
        return inv2(lc)
    return z3.BoolVal(True)


def site_contracts(reg):
    out = []
    from pyvc.verify import p_bool
    pn = lambda rel, tgt, k, d: B.pname(tgt.split("::")[1], k, d, rel)
    out.append(FnContract(
        target=T_PTE, params=[(pn(DOCX, T_PTE, 0, "elem"), p_ext("Element")), (pn(DOCX, T_PTE, 1, "parts"), p_outlist()),
                              (pn(DOCX, T_PTE, 2, "include_formulas"), p_bool())],
        hyps=pte_hyps, total=True, raises=[], modifies=(pn(DOCX, T_PTE, 1, "parts"),), frame=pte_frame,
        decreases=lambda c: B.SIZE(B.A0(c).t),
        ensures=[("inline-formula-as-$latex$", pte_formula("inline")),
                 ("display-formula-as-$$latex$$", pte_formula("display"))],
        note="m:oMath -> '$'+latex+'$', m:oMathPara -> '$$'+latex of its first m:oMath+'$$', each converted once, "
             "only when formulas are included and the rendering is not blank; recursion by contract"))
    ens = [(l, post(l)) for l in LABELS]
    out.append(FnContract(
        target=T_PPTX, params=[(pn(PPTX, T_PPTX, 0, "elem"), p_ext("Element"))], hyps=site_hyps, total=True, raises=[],
        ensures=ens, loops={"*": LoopSpec(inv=inv_by_sequence)},
        note="every oMath of the shape converted and listed exactly once, display iff first oMath of an oMathPara"))
    out.append(FnContract(
        target=T_DOCX, params=[(pn(DOCX, T_DOCX, 0, "ctx"), p_obj("_DocxContext", {"document_body": p_opt(p_ext("Element"))}))],
        hyps=site_hyps, total=True, raises=[],
        ensures=ens, loops={"*": LoopSpec(inv=inv_by_sequence)},
        note="same for the document body (ASSUMED: ctx.document_body is an attribute read, Element or None)"))
    for c in out:
        c.oid_name = OIDS[c.target]
    return out


# ---- the pptx consumer of the formula list, checked on the real loop body -------------------------
def consumer_obligation(repo):
    """-> (ok | None, why).  The body of the loop `for <a>, <b> in <formula list>(...)` of the pptx slide builder is
    executed symbolically for one arbitrary pair (latex, is_display): exactly one PptxFormula(latex, is_display) is
    appended to a list and one entry whose text is "$$"+latex+"$$" for a display equation, "$"+latex+"$" otherwise.
    None = the loop was not found in that shape / left the subset (-> `unknown`, the native end-to-end run decides)."""
    import builtins
    from pyvc import solve, verify
    from pyvc.contracts import Registry
    from pyvc.exctypes import Universe
    from pyvc.verify import Maker, p_bool, p_unk
    try:
        pm = loader.module(PPTX, repo)
    except FileNotFoundError:
        return None, "pptx_extractor.py missing"
    callee = T_PPTX.split("::")[1]
    loops = [n for f in pm.functions.values() for n in ast.walk(f) if isinstance(n, ast.For) and isinstance(n.iter, ast.Call)
             and _calls(ast.Expression(n.iter), callee) and n.iter in _calls(ast.Expression(n.iter), callee)]
    loops = list({id(n): n for n in loops}.values())
    if len(loops) != 1:
        return None, f"{len(loops)} loops directly over {callee}(...)"
    lp = loops[0]
    if not (isinstance(lp.target, ast.Tuple) and len(lp.target.elts) == 2 and all(isinstance(x, ast.Name) for x in lp.target.elts)) \
            or lp.orelse:
        return None, "loop target is not a pair of names"
    a, b = (x.id for x in lp.target.elts)
    stored = {n.id for s_ in lp.body for n in ast.walk(s_) if isinstance(n, ast.Name) and isinstance(n.ctx, ast.Store)}
    known = set(pm.assigns) | set(pm.functions) | set(pm.imports) | set(pm.classes) | set(dir(builtins))
    free = sorted({n.id for s_ in lp.body for n in ast.walk(s_) if isinstance(n, ast.Name) and isinstance(n.ctx, ast.Load)}
                  - stored - {a, b} - known)
    lists = sorted({n.func.value.id for s_ in lp.body for n in ast.walk(s_) if isinstance(n, ast.Call)
                    and isinstance(n.func, ast.Attribute) and n.func.attr == "append" and isinstance(n.func.value, ast.Name)} & set(free))
    fn = ast.FunctionDef(name="_c19_consumer_body", args=ast.arguments(
        posonlyargs=[], args=[ast.arg(arg=x) for x in [a, b] + free], kwonlyargs=[], kw_defaults=[], defaults=[]),
        body=list(lp.body), decorator_list=[], returns=None, lineno=lp.lineno, col_offset=0)
    ast.fix_missing_locations(fn)

    def p_list():
        return Maker(lambda ex, st, name: VRef(st.alloc(HeapObj("list", [], fresh=False), ex.refs)), desc="list")

    def new_formula(ex, st, args, kwargs, node):
        fields = dataclass_fields(repo, "PptxFormula")
        vals = dict(zip([f for f, _ in fields], args))
        vals.update(kwargs)
        return [(st, VTuple([VStr("<PptxFormula>")] + [vals.get(f, d) for f, d in fields]))]
    reg = Registry()
    B.install(reg)
    reg.ext_models[("new", "PptxFormula")] = new_formula
    params = [(a, Maker(lambda ex, st, name: VStr(z3.String(name)), desc="str")), (b, p_bool())] + \
             [(x, p_list() if x in lists else p_unk()) for x in free]

    def finals(c):
        return [c.st.obj(c.args[x].ref).data for x in lists]

    def one_record(c):
        la, fl = c.args[a], c.args[b]
        for d in finals(c):
            if d is not None and len(d) == 1 and isinstance(d[0], VTuple) and len(d[0].items) == 3 \
                    and isinstance(d[0].items[0], VStr) and d[0].items[0].const() == "<PptxFormula>" \
                    and isinstance(d[0].items[1], VStr) and isinstance(d[0].items[2], VBool):
                return z3.And(d[0].items[1].t == la.t, d[0].items[2].t == fl.t)
        return z3.BoolVal(False)

    def one_text(c):
        la, fl = c.args[a], c.args[b]
        want = z3.If(fl.t, B.cat("$$", la.t, "$$"), B.cat("$", la.t, "$"))
        for d in finals(c):
            if d is not None and len(d) == 1 and isinstance(d[0], VTuple) and not (
                    d[0].items and isinstance(d[0].items[0], VStr) and d[0].items[0].const() == "<PptxFormula>"):
                strs = [x for x in d[0].items if isinstance(x, VStr) and x.const() is None]
                if len(strs) == 1:
                    return strs[0].t == want
        return z3.BoolVal(False)
    c = FnContract(target=f"{PPTX}::_c19_consumer_body", params=params, total=True, raises=[], modifies=tuple(lists),
                   ensures=[("record", one_record), ("text", one_text)])
    try:
        ex = B.C19Executor(pm, reg, Universe(repo))
        ex.contract, ex.oid_prefix = c, "C19/pptx_extractor.py::consumer"
        obls, _cov = verify.generate(ex, c, pm, fn)
    except Exception as e:  # noqa  (Unsupported, PathLimit, model errors: the shape is not one the executor handles)
        return None, f"loop body not executable symbolically: {type(e).__name__}: {e}"[:300]
    bad = []
    for ob in obls.values():
        for vc in ob.vcs:
            r = solve.check_vc(vc.pc, vc.goal, 5000, want_model=False, use_cvc5=False)
            if r.status != "proved":
                bad.append(f"{ob.oid.split('/')[-1]}: {r.status}")
                break
    if bad:
        return None, "; ".join(bad)[:300]
    return True, f"loop body at line {lp.lineno}: {len(obls)} obligations on the real statements"
