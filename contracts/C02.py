"""C02 -- main-text fidelity: nothing lost, duplicated, merged or leaked.

What can be expressed (DESIGN 3/C02): GIVEN the parsed tree / cell grid / field lists, the
library's own walker emits exactly the specified text.  Spec functions are written from
the property statement over the abstract tree of contracts/etree_model.py.
"""
import z3

from pyvc.contracts import FnContract, LoopSpec, Raises
from pyvc.values import NONE, VBool, VExt, VInt, VNoneT, VRef, VSeq, VStr, VUnk, ext_sort, fresh_name
from pyvc.verify import Maker, p_bool, p_int, p_obj, p_opt, p_str

from contracts import c02_exec as X
from contracts import c02_text as T
from contracts import etree_model as ET
from contracts.c02_exec import Conj, define, p_strlist, p_strset, p_hnode, EMPTYSET, MEMBER, STRSET
from contracts.c02_text import NW, SQ, S, I, B, lit
from contracts.etree_model import ELEM, TAG, TEXT, TEXT_NONE, TAIL, TAIL_NONE, NCH, CH, ATTR, ATTR_HAS, p_elem

SHARED = "sharepoint2text/parsing/extractors/open_office/_shared.py"
EXECUTOR = X.C02Executor


def cat_of(st, v):
    return st.obj(v.ref).data["cat"]


def sqj_of(st, v):
    return st.obj(v.ref).data["sqj"]


def cc(*ts):
    return T._concat([y for t in ts for y in T._flat(t)])


# =====================================================================================
# (a) ODF recursive text  --  open_office/_shared.py::_append_element_text / element_text
#
# Statement: "ODF recursive text with space/tab/line-break and skipped notes/annotations":
#   odf_text(e)  = text(e) ++ item(c_0) ++ ... ++ item(c_{n-1})
#   item(c)      = body(c) ++ tail(c)
#   body(c)      = ""                     if tag(c) is a skipped tag  (its tail is still document text)
#                = " " * count(c)         if tag(c) == text:s   (count = text:c, 1 when absent / unparsable; nothing when <= 0)
#                = "\t"                   if tag(c) == text:tab
#                = "\n"                   if tag(c) == text:line-break
#                = odf_text(c)            otherwise
# The five configuration values are parameters of the real function and therefore of the spec.
# =====================================================================================
CFG = (S, S, S, S, STRSET)
ODF_TEXT = z3.Function("odf_text", ELEM, *CFG, S)
ODF_KIDS = z3.Function("odf_kids", ELEM, I, *CFG, S)
ODF_ITEM = z3.Function("odf_item", ELEM, *CFG, S)


def odf_count(c, attr):
    raw = z3.If(ATTR_HAS(c, attr), ATTR(c, attr), lit("1"))
    return z3.If(T.INT_OK(raw), T.INT_VAL(raw), z3.IntVal(1))


def _odf_text_def(e, *cfg):
    return [ODF_TEXT(e, *cfg) == cc(TEXT(e), ODF_KIDS(e, NCH(e), *cfg)), z3.Implies(TEXT_NONE(e), TEXT(e) == lit("")), NCH(e) >= 0]


def _odf_kids_def(e, k, *cfg):
    return [ODF_KIDS(e, k, *cfg) == z3.If(k <= 0, lit(""), cc(ODF_KIDS(e, z3.simplify(k - 1), *cfg), ODF_ITEM(CH(e, z3.simplify(k - 1)), *cfg)))]


def _odf_item_def(c, sp, tab, lb, attr, skip):
    n = odf_count(c, attr)
    body = z3.If(MEMBER(skip, TAG(c)), lit(""),
                 z3.If(TAG(c) == sp, z3.If(n > 0, T.REP(lit(" "), n), lit("")),
                       z3.If(TAG(c) == tab, lit("\t"),
                             z3.If(TAG(c) == lb, lit("\n"), ODF_TEXT(c, sp, tab, lb, attr, skip)))))
    return [ODF_ITEM(c, sp, tab, lb, attr, skip) == cc(body, TAIL(c)), z3.Implies(TAIL_NONE(c), TAIL(c) == lit(""))]


define(T.REP, lambda s_, n: [z3.Implies(n == 1, T.REP(s_, n) == s_)])       # x * 1 == x
define(ODF_TEXT, _odf_text_def)
define(ODF_KIDS, _odf_kids_def)
define(ODF_ITEM, _odf_item_def)

ODF_KW = ["text_space_tag", "text_tab_tag", "text_line_break_tag", "attr_text_c"]


def odf_cfg(args):
    sk = args["skip_tags"]
    skt = EMPTYSET if isinstance(sk, VNoneT) else sk.t
    return tuple(args[k].t for k in ODF_KW) + (skt,)


def odf_contracts():
    def inv(lc):
        e = lc["element"].t
        cfg = odf_cfg({k: lc[k] for k in ODF_KW + ["skip_tags"]})
        old = z3.String("parts.cat")            # value at function entry (p_strlist names it)
        return Conj([("parts==old+text+items-of-processed-children",
                      cat_of(lc.st, lc["parts"]) == cc(old, TEXT(e), ODF_KIDS(e, lc.i, *cfg)))])

    append = FnContract(
        target=f"{SHARED}::_append_element_text",
        params=[("element", p_elem()), ("parts", p_strlist())] + [(k, p_str()) for k in ODF_KW] + [("skip_tags", p_strset())],
        ensures=[("parts==old(parts)+odf_text(element)",
                  lambda c: cat_of(c.st, c.args["parts"]) == cc(cat_of(c.entry, c.args["parts"]), ODF_TEXT(c.args["element"].t, *odf_cfg(c.args))))],
        modifies=("parts",),
        loops={0: LoopSpec(inv=inv, label="children")},
        note="modular recursion through this contract; loop invariant over the processed prefix of a child list of symbolic length",
    )
    etext = FnContract(
        target=f"{SHARED}::element_text",
        params=[("element", p_elem())] + [(k, p_str()) for k in ODF_KW] +
               [("skip_tags", Maker(lambda ex, st, name: [(None, NONE)] + p_strset().make(ex, st, name), desc="Optional[set[str]]",
                                    default=lambda ex, st: NONE))],
        returns=lambda c: VStr(ODF_TEXT(c.args["element"].t, *odf_cfg(c.args))),
        note="skip_tags None / empty == no skipped tags",
    )
    return [append, etext]


def contracts(reg):
    X.install(reg)
    out = []
    out += odf_contracts()
    return out


TRUSTED = ["zip / XML / OLE / PDF parsing (bytes -> tree) is outside every contract; the obligations are about the library's own walkers"]
ASSUMED_MODELS = X.ASSUMED_MODELS
ASSUMPTIONS = ["PY-STR", "TREE-FINITE", "WS-CLASS: str.strip, str.split, \\s and str.isspace agree on the whitespace class",
               "DT-TYPED: list[str] fields / parameters hold str items",
               "partial correctness: termination of the recursive walkers is C01's obligation"]
BOUNDED = []
