"""C02 -- main-text fidelity: nothing lost, duplicated, merged or leaked.

What can be expressed (DESIGN 3/C02): GIVEN the parsed tree / cell grid / field lists, the
library's own walker emits exactly the specified text.  Spec functions are written from
the property statement over the abstract tree of contracts/etree_model.py.
"""
import z3

from pyvc.contracts import FnContract, LoopSpec, Raises
from pyvc.values import NONE, VBool, VBytes, VExt, VInt, VNoneT, VRef, VSeq, VStr, VTuple, VUnk, ext_sort, fresh_name
from pyvc.verify import Maker, p_bool, p_int, p_obj, p_opt, p_str

from contracts import c02_exec as X
from contracts import c02_text as T
from contracts import c02_etree_model as ET
from contracts.c02_exec import Conj, define, p_strlist, p_strset, p_hnode, EMPTYSET, MEMBER, STRSET
from contracts.c02_text import NW, SQ, S, I, B, lit
from contracts.c02_etree_model import ELEM, TAG, TEXT, TEXT_NONE, TAIL, TAIL_NONE, NCH, CH, ATTR, ATTR_HAS, p_elem

SHARED = "sharepoint2text/parsing/extractors/open_office/_shared.py"
from contracts import C17 as _C17          # reused: heap model of the html tree builder (open lists, node dicts, frame computation)


class C02FullExecutor(X.C02Executor, _C17.C17Executor):
    """C02's executor plus C17's open-list / parser-object model (only the tree-builder contracts use the latter)."""


EXECUTOR = C02FullExecutor

# z3 budget per VC in the quick tier: every proved VC of this pack takes < 0.5 s; a wrong clause is typically `unknown` for z3's
# sequence solver and `sat` for cvc5 within a second, so waiting the default 10 s per VC only delays refutations (PYVC_TIMEOUT_MS overrides)
import os as _os
if not _os.environ.get("PYVC_TIMEOUT_MS"):
    from pyvc import solve as _solve
    _solve.QUICK_TIMEOUT_MS = 4000
def _retry_under_load(pc, goal, timeout_ms):
    """(round 7) z3 `unknown` on an OVERSUBSCRIBED machine (1-minute load above 1.5 x the core count): one more attempt with four times
    the budget, so that a 0.1 s lemma starved to > 4 s of wall clock does not become `undecided`.  On a quiet machine nothing is
    retried (a wrong VC keeps its quick `unknown` -> cvc5 `sat`).  Registered through solve.EXTRA_PROVERS: a True answer is an `unsat`."""
    try:
        if _os.getloadavg()[0] <= 1.5 * (_os.cpu_count() or 1):
            return False
    except OSError:
        return False
    s = z3.Solver()
    s.set("timeout", int(4 * timeout_ms))
    s.add(*pc)
    s.add(z3.Not(goal))
    return s.check() == z3.unsat


from pyvc import solve as _solve_mod
if not any(getattr(f, "__name__", "") == "_retry_under_load" for f in _solve_mod.EXTRA_PROVERS):
    _solve_mod.EXTRA_PROVERS.append(_retry_under_load)


class _ExecutorKw(dict):
    """Executor options by target; the RTF walker (whatever it is called) runs with cheap feasibility checks."""

    def get(self, target, default=None):
        if target and "/rtf_extractor.py::" in target:
            return {"unknown_items_are_str": True, "feas_timeout_ms": 10}
        return default


EXECUTOR_KW = _ExecutorKw()


def _sl(st, v):
    """(n, cat, lead) of a str list in either representation."""
    o = st.obj(v.ref)
    if o.kind == "slist":
        return o.data["n"], o.data["cat"], o.data["lead"]
    if o.kind == "list" and o.data is not None and all(isinstance(x, VStr) for x in o.data):
        items = [x.t for x in o.data]
        return z3.IntVal(len(items)), cc(*items) if items else lit(""), X.lead_of_items(items)
    raise X.Unsupported(f"not a list of str: {o.kind}")


def _is_strlist(st, v):
    if not isinstance(v, VRef):
        return False
    o = st.heap.get(v.ref)
    return o is not None and (o.kind == "slist" or (o.kind == "list" and o.data is not None and all(isinstance(x, VStr) for x in o.data)))


def acc(lc, hint=None, pick="inner"):
    """The text accumulator of a loop, identified by role, not by name: a str list that exists when the loop is entered
    and is visible from the innermost frame that sees one (a helper executed in place sees it through its own parameter);
    among several, the most recently created one (lists created inside the loop body are not candidates)."""
    st = lc.st
    before = lc.entry.heap if getattr(lc, "entry", None) is not None else st.heap
    for fr in reversed(st.frames):
        cands = {v.ref: v for v in fr.env.values() if _is_strlist(st, v) and v.ref in before}
        if cands:
            return cands[(max if pick == "inner" else min)(cands)]
    raise X.Unsupported("text accumulator not identified")


def grown(lc):
    """((n, cat, lead) at loop entry, (n, cat, lead) now) of the loop's accumulator: invariants are stated as what the loop
    has ADDED, so statements before the loop (and where the list comes from) do not matter."""
    a = acc(lc)
    return _sl(lc.entry, a), _sl(lc.st, a)


def find_fn(rel, name, mentions=(), nparams=None, calls=(), exclude=()):
    """Qualified name of the function that plays the role `name` had when the contract was written: `name` itself when it
    exists; otherwise the unique function of the module with the same arity that mentions the given names / string
    constants and calls the given functions (a renamed helper).  Not found or ambiguous -> `name` (target missing: undecided)."""
    import ast
    from pyvc import loader
    try:
        mod = loader.module(rel)
    except OSError:
        return name
    if name in mod.functions:
        return name
    prefix = name.rsplit(".", 1)[0] + "." if "." in name else ""
    cands = []
    for q, fn in mod.functions.items():
        if "<locals>" in q or (q.rsplit(".", 1)[0] + "." if "." in q else "") != prefix or q in exclude:
            continue
        a = fn.args
        if nparams is not None and len(a.posonlyargs + a.args + a.kwonlyargs) != nparams:
            continue
        names = {x.id for x in ast.walk(fn) if isinstance(x, ast.Name)} | {x.attr for x in ast.walk(fn) if isinstance(x, ast.Attribute)} \
            | {x.value for x in ast.walk(fn) if isinstance(x, ast.Constant) and isinstance(x.value, str)}
        called = {x.func.id for x in ast.walk(fn) if isinstance(x, ast.Call) and isinstance(x.func, ast.Name)} \
            | {x.func.attr for x in ast.walk(fn) if isinstance(x, ast.Call) and isinstance(x.func, ast.Attribute)}
        if all(m in names for m in mentions) and all(c.rsplit(".", 1)[-1] in called for c in calls):
            cands.append(q)
    return cands[0] if len(cands) == 1 else name


def under(rel, role, actual, **kw):
    """FnContract on the function `actual` that keeps its obligation ids under the role name (ids survive a rename)."""
    c = FnContract(target=f"{rel}::{actual}", **kw)
    if actual != role:
        c.oid_qual = role
    return c


class Sig:
    """Parameter names of a real function, by position: contracts name *roles*; the actual names are read from the AST on
    every run, so renaming a parameter does not detach the contract."""

    def __init__(self, rel, qual, roles, drop_self=False):
        from pyvc import loader
        self.roles = list(roles)
        self.name = {r: r for r in roles}
        self.ok = False
        try:
            fn = loader.module(rel).functions.get(qual)
        except OSError:
            fn = None
        if fn is not None:
            a = fn.args
            names = [x.arg for x in a.posonlyargs + a.args + a.kwonlyargs]
            if len(names) == len(roles):
                self.name = dict(zip(roles, names))
                self.ok = True

    def params(self, makers):
        return [(self.name[r], makers[r]) for r in self.roles]

    def __call__(self, ctx, role):
        """Value of the role in a CallCtx (c.args) or a LoopCtx (current local)."""
        n = self.name[role]
        if hasattr(ctx, "args"):
            return ctx.args[n]
        return ctx[n]


def cat_of(st, v):
    return _sl(st, v)[1]


def lead_of(st, v):
    """Leading-blank normal form of the blank-separated sq-join: every item prefixed by one blank."""
    return _sl(st, v)[2]


def prefix_def(fk, k, step):
    """fold(k) == "" if k <= 0 else step  -- as two implications (z3's sequence solver digests them better than an ite)."""
    return [z3.Implies(k <= 0, fk == lit("")), z3.Implies(k > 0, fk == step)]


def cc(*ts):
    return T._concat([y for t in ts for y in T._flat(t if not isinstance(t, str) else lit(t))])


# =====================================================================================
# (a) ODF recursive text  --  open_office/_shared.py::_append_element_text / element_text
#
# Statement: "ODF recursive text with space/tab/line-break and skipped notes/annotations":
#   odf_text(e)  = text(e) ++ item(c_0) ++ ... ++ item(c_{n-1})
#   item(c)      = body(c) ++ tail(c)
#   body(c)      = ""                     if tag(c) is a skipped tag  (its tail is still document text)
#                = " " * count(c)         if tag(c) == text:s   (count = text:c, 1 when absent / unparsable; nothing when <= 0)
#                = "\t"                   if tag(c) == text:tab
#                = "\n"                   if tag(c) == text:line-break
#                = odf_text(c)            otherwise
# The five configuration values are parameters of the real function and therefore of the spec.
# =====================================================================================
CFG = (S, S, S, S, STRSET)
ODF_TEXT = z3.Function("odf_text", ELEM, *CFG, S)
ODF_KIDS = z3.Function("odf_kids", ELEM, I, *CFG, S)
ODF_ITEM = z3.Function("odf_item", ELEM, *CFG, S)


def odf_count(c, attr):
    raw = z3.If(ATTR_HAS(c, attr), ATTR(c, attr), lit("1"))
    return z3.If(T.INT_OK(raw), T.INT_VAL(raw), z3.IntVal(1))


def _odf_text_def(e, *cfg):
    return [ODF_TEXT(e, *cfg) == cc(TEXT(e), ODF_KIDS(e, NCH(e), *cfg)), z3.Implies(TEXT_NONE(e), TEXT(e) == lit("")), NCH(e) >= 0]


def _odf_kids_def(e, k, *cfg):
    return prefix_def(ODF_KIDS(e, k, *cfg), k, cc(ODF_KIDS(e, z3.simplify(k - 1), *cfg), ODF_ITEM(CH(e, z3.simplify(k - 1)), *cfg)))


def _odf_item_def(c, sp, tab, lb, attr, skip):
    n = odf_count(c, attr)
    body = z3.If(MEMBER(skip, TAG(c)), lit(""),
                 z3.If(TAG(c) == sp, z3.If(n > 0, T.REP(lit(" "), n), lit("")),
                       z3.If(TAG(c) == tab, lit("\t"),
                             z3.If(TAG(c) == lb, lit("\n"), ODF_TEXT(c, sp, tab, lb, attr, skip)))))
    return [ODF_ITEM(c, sp, tab, lb, attr, skip) == cc(body, TAIL(c)), z3.Implies(TAIL_NONE(c), TAIL(c) == lit(""))]


# trim on M: idempotent, and a blank at either end is what it removes
define(T.SQTRIM, lambda m: [T.SQTRIM(T.SQTRIM(m)) == T.SQTRIM(m), T.SQTRIM(cc(" ", m)) == T.SQTRIM(m), T.SQTRIM(cc(m, " ")) == T.SQTRIM(m)], aux=True)
define(T.REP, lambda s_, n: [z3.Implies(n == 1, T.REP(s_, n) == s_)], aux=True)       # x * 1 == x
define(ODF_TEXT, _odf_text_def)
define(ODF_KIDS, _odf_kids_def)
define(ODF_ITEM, _odf_item_def, aux=True)

ODF_KW = ["text_space_tag", "text_tab_tag", "text_line_break_tag", "attr_text_c"]
ODF_ROLES = ODF_KW + ["skip_tags"]


def _set_term(v):
    if isinstance(v, VNoneT):
        return EMPTYSET
    if isinstance(v, X.VSetC):
        return X.const_strset(v.items) if v.items else EMPTYSET
    return v.t


def odf_contracts(reg):
    """`element_text` is the interface (its keyword names are what the four ODF extractors use).  The recursive helper it
    delegates to is found by following the call; HOW the five configuration values travel (five keywords, a tuple-like
    object, another order, other names) is read off that call: each component of the helper's arguments that carries one of
    element_text's parameters gets that parameter's role in the specification."""
    import ast
    from pyvc import loader, verify
    from pyvc.contracts import Registry
    from pyvc.exctypes import Universe
    mod = loader.module(SHARED)
    et = mod.functions.get("element_text")
    sig = Sig(SHARED, "element_text", ["element"] + ODF_ROLES)

    def et_cfg(c):
        return tuple(sig(c, k).t for k in ODF_KW) + (_set_term(sig(c, "skip_tags")),)

    etext = FnContract(
        target=f"{SHARED}::element_text",
        params=sig.params(dict({"element": p_elem(), "skip_tags": Maker(lambda ex, st, name: [(None, NONE)] + p_strset().make(ex, st, name),
                                                                        desc="Optional[set[str]]", default=lambda ex, st: NONE)},
                               **{k: p_str() for k in ODF_KW})),
        returns=lambda c: VStr(ODF_TEXT(sig(c, "element").t, *et_cfg(c))),
        note="skip_tags None / empty == no skipped tags",
    )
    if et is None:
        return [etext]
    callees = [n.func.id for n in ast.walk(et) if isinstance(n, ast.Call) and isinstance(n.func, ast.Name)
               and n.func.id in mod.functions and n.func.id != "element_text"]
    callees = [q for q in dict.fromkeys(callees) if any(isinstance(n, ast.Call) and isinstance(n.func, ast.Name) and n.func.id == q
                                                        for n in ast.walk(mod.functions[q]))]          # the recursive walk
    if len(callees) != 1:
        return [etext]          # walk written inside element_text itself (or not recognisable): verified as one function / undecided
    helper = callees[0]
    hf = mod.functions[helper]
    hp = [x.arg for x in hf.args.posonlyargs + hf.args.args + hf.args.kwonlyargs]

    # ---- read the argument layout off the call in element_text (symbolic execution with a recording stand-in) ----
    seen = []

    def record(c):
        seen.append((dict(c.args), c.st))
        return z3.BoolVal(True)
    reg0 = Registry()
    X.install(reg0)
    reg0.add(FnContract(target=f"{SHARED}::{helper}", params=[(n, Maker(lambda ex, st, nm: VUnk(nm), desc="any")) for n in hp], requires=record, assumed=True))
    try:
        ex0 = EXECUTOR(mod, reg0, Universe(loader.REPO))
        ex0.contract = etext
        ex0.oid_prefix = "C02/probe"
        verify.generate(ex0, etext, mod, et)
    except Exception:  # noqa  (layout not readable: the helper stays without contract -> undecided, never a wrong claim)
        return [etext]
    role_of = {z3.String(k).get_id(): k for k in ODF_KW}
    layout = {}          # helper parameter -> "element" | "acc" | ("val", role) | ("obj", cls, {field: role})

    def role(v):
        if isinstance(v, VStr) and v.t.get_id() in role_of:
            return role_of[v.t.get_id()]
        if isinstance(v, (VExt, X.VSetC)) and (isinstance(v, X.VSetC) or v.sort == "StrSet"):
            return "skip_tags"
        return None
    for args, st0 in seen[-1:]:
        for n in hp:
            v = args.get(n)
            if isinstance(v, VExt) and v.sort == "Elem":
                layout[n] = "element"
            elif _is_strlist(st0, v):
                layout[n] = "acc"
            elif isinstance(v, VTuple):
                layout[n] = ("tuple", [role(x) for x in v.items], getattr(v, "names", None), getattr(v, "cls", None))     # a NamedTuple keeps its field names
            elif isinstance(v, VRef) and st0.obj(v.ref).kind == "obj":
                o = st0.obj(v.ref)
                layout[n] = ("obj", o.cls, {f: role(x) for f, x in o.data.items()})
            else:
                layout[n] = ("val", role(v))
    roles_found = [l[1] for l in layout.values() if isinstance(l, tuple) and l[0] == "val"] + \
                  [r for l in layout.values() if isinstance(l, tuple) and l[0] == "tuple" for r in l[1]] + \
                  [r for l in layout.values() if isinstance(l, tuple) and l[0] == "obj" for r in l[2].values()]
    if sorted(r for r in roles_found if r) != sorted(ODF_ROLES) or list(layout.values()).count("element") != 1 or list(layout.values()).count("acc") > 1:
        return [etext]
    e_name = next(n for n, l in layout.items() if l == "element")
    a_name = next((n for n, l in layout.items() if l == "acc"), None)          # None: the walk returns its text instead of appending

    def cfg(get, st):
        """The five configuration terms, in role order, from the helper's own arguments / locals."""
        found = {}
        for n, l in layout.items():
            if isinstance(l, tuple) and l[0] == "val" and l[1]:
                found[l[1]] = get(n)
            elif isinstance(l, tuple) and l[0] == "tuple":
                for r, x in zip(l[1], get(n).items):
                    if r:
                        found[r] = x
            elif isinstance(l, tuple) and l[0] == "obj":
                d = st.obj(get(n).ref).data
                for f, r in l[2].items():
                    if r:
                        found[r] = d[f]
        return tuple(found[k].t for k in ODF_KW) + (_set_term(found["skip_tags"]),)

    def maker(l):
        if l == "element":
            return p_elem()
        if l == "acc":
            return p_strlist()
        if l[0] == "tuple":
            kinds, names, ncls = list(l[1]), (l[2] if len(l) > 2 else None), (l[3] if len(l) > 3 else None)

            def mk_tuple(ex, st, nm):
                items = [(VExt("StrSet", z3.Const(f"{nm}.{i}", STRSET)) if r == "skip_tags" else VStr(z3.String(f"{nm}.{i}"))) for i, r in enumerate(kinds)]
                if names is not None:
                    from pyvc.values import VNamedTuple
                    return VNamedTuple(items, names, ncls)
                return VTuple(items)
            return Maker(mk_tuple, desc="tuple of configuration values")
        if l[0] == "val":
            return p_strset() if l[1] == "skip_tags" else (p_str() if l[1] else Maker(lambda ex, st, nm: VUnk(nm), desc="any"))
        return p_obj(l[1], {f: (p_strset() if r == "skip_tags" else p_str()) for f, r in l[2].items()})

    def inv(lc):
        e = lc.seq.t
        (_n0, c0, _l0), (_n1, c1, _l1) = grown(lc)
        return Conj([("parts==old+text+items-of-processed-children",
                      c1 == cc(c0, ODF_KIDS(e, lc.i, *cfg(lambda n: top(lc, n), lc.st))))])

    if a_name is None:
        append = under(
            SHARED, "_append_element_text", helper,
            params=[(n, maker(layout[n])) for n in hp],
            result_maker=lambda ex, st, ctx: VStr(z3.String(fresh_name("element_text"))),
            ensures=[need_loops("children"), ("parts==old(parts)+odf_text(element)",        # same clause, functional form: result == odf_text(element)
                                              X.robust(lambda c: c.result.t == ODF_TEXT(c.args[e_name].t, *cfg(lambda n: c.args[n], c.entry))))],
            note="functional form of the walk (returns the text); modular recursion through this contract",
        )
    else:
        append = under(
            SHARED, "_append_element_text", helper,
            params=[(n, maker(layout[n])) for n in hp],
            ensures=[need_loops("children"), ("parts==old(parts)+odf_text(element)",
                      X.robust(lambda c: cat_of(c.st, c.args[a_name]) == cc(cat_of(c.entry, c.args[a_name]),
                                                                            ODF_TEXT(c.args[e_name].t, *cfg(lambda n: c.args[n], c.entry))))),],
            modifies=(a_name,),
            note="modular recursion through this contract; loop invariant over the processed prefix of a child list of symbolic length",
        )
    append.loop_match = lambda ex, st, node, it: (matched(ex, LoopSpec(inv=inv, label="children"))
                                                  if isinstance(it, VExt) and it.sort == "Elem" and st.lookup(e_name) is not None
                                                  and it.t.eq(st.lookup(e_name).t) else None)
    return [append, etext]



# =====================================================================================
# (d) DOCX body walk  --  ms_modern/docx_extractor.py
#
# Statement: "each visible leaf once in document order; paragraph / cell / break / tab
# boundaries are whitespace; deletions and comments excluded; content controls transparent".
# Over the abstract tree (tags are the WordprocessingML names of ECMA-376, written here, not read
# from the code):
#   dx(e) =  choice-children                 mc:AlternateContent  (exactly one of Choice / Fallback is rendered: Choice)
#            nothing                         mc:Fallback, w:moveFrom (source of a tracked move = tracked deletion)
#            run items                       w:r :  w:t -> its text;  w:tab | w:br | w:cr -> whitespace;  any other child c -> dx(c)
#            "$latex$" / "$$latex$$"         m:oMath / m:oMathPara (documented decoration), when formulas are requested
#            blank dx-children blank         w:p reached from inside another paragraph (text box): a paragraph boundary
#            dx-children                     everything else (w:ins, w:hyperlink, w:sdt, w:sdtContent, w:smartTag, w:drawing, w:pict ...)
# w:delText / w:instrText / comment and note references are not w:t, so they contribute nothing.
# Two images of dx are specified: dxn = nw(dx) ("nothing lost, duplicated, reordered, leaked") and
# dxs = sq(dx) (boundaries are whitespace).
# =====================================================================================
DOCX = "sharepoint2text/parsing/extractors/ms_modern/docx_extractor.py"
OMML_PY = "sharepoint2text/parsing/extractors/util/omml_to_latex.py"
W_ = "{http://schemas.openxmlformats.org/wordprocessingml/2006/main}"
M_ = "{http://schemas.openxmlformats.org/officeDocument/2006/math}"
MC_ = "{http://schemas.openxmlformats.org/markup-compatibility/2006}"
W_T, W_R, W_P, W_TAB, W_BR, W_CR = (lit(W_ + x) for x in ("t", "r", "p", "tab", "br", "cr"))
W_TBL, W_TR, W_TC, W_SDT, W_SDTCONTENT, W_CUSTOMXML, W_MOVEFROM = (lit(W_ + x) for x in ("tbl", "tr", "tc", "sdt", "sdtContent", "customXml", "moveFrom"))
M_OMATH, M_OMATHPARA, MC_CHOICE = lit(M_ + "oMath"), lit(M_ + "oMathPara"), lit(MC_ + "Choice")
OMML = z3.Function("omml_to_latex", ELEM, S)                   # uninterpreted (C19's subject)

FIND_NONE, FIND_IDX = ET.FIND_NONE, ET.FIND_IDX


def is_ac(t):
    return z3.SuffixOf(lit("}AlternateContent"), t)


def is_fb(t):
    return z3.SuffixOf(lit("}Fallback"), t)


def is_brk(t):
    return z3.Or(t == W_TAB, t == W_BR, t == W_CR)


class Dx:
    """One image (nw or sq) of the DOCX spec function."""

    def __init__(self, name, h, ws, par_pad):
        self.h, self.ws, self.pad = h, lit(ws), lit(par_pad)
        self.F = z3.Function(f"dx_{name}", ELEM, B, S)
        self.KIDS = z3.Function(f"dx_{name}_children", ELEM, I, B, S)
        self.RUN = z3.Function(f"dx_{name}_run_items", ELEM, I, B, S)
        define(self.F, self._f)
        define(self.KIDS, self._kids)
        define(self.RUN, self._run)

    def all_kids(self, e, inc):
        return self.KIDS(e, NCH(e), inc)

    def formula(self, e, inc, d):
        x = OMML(e)
        return z3.If(z3.And(inc, z3.Not(T.blank(x))), cc(lit(d), self.h(x), lit(d)), lit(""))

    def _f(self, e, inc):
        t = TAG(e)
        ch = CH(e, FIND_IDX(e, MC_CHOICE))
        om = CH(e, FIND_IDX(e, M_OMATH))
        body = z3.If(is_ac(t), z3.If(FIND_NONE(e, MC_CHOICE), lit(""), self.all_kids(ch, inc)),
               z3.If(z3.Or(is_fb(t), t == W_MOVEFROM), lit(""),
               z3.If(t == W_R, self.RUN(e, NCH(e), inc),
               z3.If(t == M_OMATH, self.formula(e, inc, "$"),
               z3.If(t == M_OMATHPARA, z3.If(FIND_NONE(e, M_OMATH), lit(""), self.formula(om, inc, "$$")),
               z3.If(t == W_P, cc(self.pad, self.all_kids(e, inc), self.pad),
                     self.all_kids(e, inc)))))))
        return [self.F(e, inc) == body, NCH(e) >= 0]

    def _kids(self, e, k, inc, hint=True):
        k1 = z3.simplify(k - 1)
        c = CH(e, k1)
        tc = TAG(c)
        # consequence of the definition of dx at the child (the definition itself is only unfolded where dx(child) occurs in the
        # VC): an excluded element contributes nothing -- needed by a caller that skips such a child without calling the walker
        excluded = z3.Implies(z3.And(k > 0, z3.Not(is_ac(tc)), z3.Or(is_fb(tc), tc == W_MOVEFROM)), self.F(c, inc) == lit(""))
        return prefix_def(self.KIDS(e, k, inc), k, cc(self.KIDS(e, k1, inc), self.F(c, inc))) + ([excluded] if hint else [])

    def run_item(self, c, inc):
        return z3.If(TAG(c) == W_T, self.h(TEXT(c)), z3.If(is_brk(TAG(c)), self.ws, self.F(c, inc)))

    def _run(self, e, k, inc):
        k1 = z3.simplify(k - 1)
        c = CH(e, k1)
        return prefix_def(self.RUN(e, k, inc), k, cc(self.RUN(e, k1, inc), self.run_item(c, inc))) + [
                z3.Implies(TEXT_NONE(c), TEXT(c) == lit("")),
                z3.Implies(is_brk(TAG(c)), NCH(c) == 0)           # OOXML-SCHEMA: w:tab / w:br / w:cr are empty elements
                ] + self._f(c, inc) + self._kids(c, NCH(c), inc, hint=False)  # (definition instances at the child, so that dx(empty element) == "")


DXN = Dx("nw", NW, "", "")
DXS = Dx("sq", SQ, " ", " ")
DX_IMAGES = (("nw", DXN, NW), ("sq", DXS, SQ))

# case analysis used to give every suspected defect its own obligation id
ELEM_CASES = [
    ("alternate-content", lambda t: is_ac(t)),
    ("fallback", lambda t: z3.And(z3.Not(is_ac(t)), is_fb(t))),
    ("tracked-move-source", lambda t: z3.And(z3.Not(is_ac(t)), z3.Not(is_fb(t)), t == W_MOVEFROM)),
    ("run", lambda t: z3.And(z3.Not(is_ac(t)), z3.Not(is_fb(t)), t == W_R)),
    ("formula", lambda t: z3.And(z3.Not(is_ac(t)), z3.Not(is_fb(t)), z3.Or(t == M_OMATH, t == M_OMATHPARA))),
    ("nested-paragraph", lambda t: z3.And(z3.Not(is_ac(t)), z3.Not(is_fb(t)), t == W_P)),
    ("container", lambda t: z3.And(z3.Not(is_ac(t)), z3.Not(is_fb(t)), t != W_MOVEFROM, t != W_R, t != M_OMATH, t != M_OMATHPARA, t != W_P)),
]
RUN_CHILD_CASES = [
    ("text", lambda t: t == W_T),
    ("tab-break", lambda t: is_brk(t)),
    ("alternate-content", lambda t: z3.And(t != W_T, z3.Not(is_brk(t)), is_ac(t))),
    ("other-child", lambda t: z3.And(t != W_T, z3.Not(is_brk(t)), z3.Not(is_ac(t)))),
]


# ---- block level: the body is a sequence of blocks -------------------------------------------------------
#   block(c) = paragraph text (if not blank) | table text | blocks of a content control (w:sdt/w:sdtContent,
#              w:customXml: transparent) | nothing (w:sectPr, bookmarks, ...)
# nw image: plain concatenation.  sq image in *leading-blank normal form*: every piece is preceded by one blank,
# so that "separated by whitespace" composes through nesting; the final claim is modulo the outer blank.
TBLN = z3.Function("docx_table_nw", ELEM, B, S)        # defined below (round 7); the token-level ground truth is in replay/c02_trees.py (BOUNDED check of _extract_table_text)
TBLS = z3.Function("docx_table_sq", ELEM, B, S)
# (round 7) the table text DEFINED as the fold the statement describes: rows in document order, the cells of each row, in each cell
# the non-blank paragraphs joined by a blank.  "Rows of a table" / "cells of a row" / "paragraphs of a cell" are iter(tag) of the
# etree model (pre-order descendants): for a table without nested tables these are exactly its rows, cells and paragraphs.
TROWS_N, TROWS_S = z3.Function("docx_table_rows_nw", ELEM, I, B, S), z3.Function("docx_table_rows_sq", ELEM, I, B, S)
TCELLS_N, TCELLS_S = z3.Function("docx_row_cells_nw", ELEM, I, B, S), z3.Function("docx_row_cells_sq", ELEM, I, B, S)
TPARS_N, TPARS_S = z3.Function("docx_cell_paragraphs_nw", ELEM, I, B, S), z3.Function("docx_cell_paragraphs_sq", ELEM, I, B, S)


def _iter_fold(F, tag, item):
    def d(e, k, inc):
        k1 = z3.simplify(k - 1)
        return prefix_def(F(e, k, inc), k, cc(F(e, k1, inc), item(ET.ITER_AT(e, tag, k1), inc))) + [ET.ITER_N(e, tag) >= 0]
    return d


def table_nest_shape(rel, qual):
    """The function is a nest of exactly three `for` loops over `.iter(...)` calls with no comprehension / generator / helper loop:
    the shape the verified contract of _extract_table_text is written for (anything else keeps the assumed contract + bounded check)."""
    import ast
    from pyvc import loader
    try:
        fn = loader.module(rel).functions.get(qual)
    except Exception:  # noqa  (unreadable / unparsable source: not the shape)
        return False
    if fn is None:
        return False
    loops = [x for x in ast.walk(fn) if isinstance(x, (ast.For, ast.While, ast.ListComp, ast.GeneratorExp, ast.SetComp, ast.DictComp))]
    return len(loops) == 3 and all(isinstance(x, ast.For) and isinstance(x.iter, ast.Call) and isinstance(x.iter.func, ast.Attribute)
                                   and x.iter.func.attr == "iter" for x in loops)


BODYN = z3.Function("docx_blocks_nw", ELEM, I, B, S)
BODYS = z3.Function("docx_blocks_sq", ELEM, I, B, S)


def _blocks_def(F, par, tbl):
    def d(e, k, inc):
        k1 = z3.simplify(k - 1)
        c = CH(e, k1)
        sc = CH(c, FIND_IDX(c, W_SDTCONTENT))
        item = z3.If(TAG(c) == W_P, par(c, inc),
               z3.If(TAG(c) == W_TBL, tbl(c, inc),
               z3.If(TAG(c) == W_SDT, z3.If(FIND_NONE(c, W_SDTCONTENT), lit(""), F(sc, NCH(sc), inc)),
               z3.If(TAG(c) == W_CUSTOMXML, F(c, NCH(c), inc), lit("")))))
        return prefix_def(F(e, k, inc), k, cc(F(e, k1, inc), item))
    return d


define(BODYN, _blocks_def(BODYN, lambda c, inc: DXN.all_kids(c, inc), TBLN))
define(BODYS, _blocks_def(BODYS, lambda c, inc: z3.If(DXN.all_kids(c, inc) == lit(""), lit(""), cc(" ", DXS.all_kids(c, inc))), TBLS))

define(TPARS_N, _iter_fold(TPARS_N, W_P, lambda p, inc: DXN.all_kids(p, inc)))
define(TPARS_S, _iter_fold(TPARS_S, W_P, lambda p, inc: z3.If(DXN.all_kids(p, inc) == lit(""), lit(""), cc(" ", DXS.all_kids(p, inc)))))
define(TCELLS_N, _iter_fold(TCELLS_N, W_TC, lambda c, inc: TPARS_N(c, ET.ITER_N(c, W_P), inc)))
define(TCELLS_S, _iter_fold(TCELLS_S, W_TC, lambda c, inc: TPARS_S(c, ET.ITER_N(c, W_P), inc)))
define(TROWS_N, _iter_fold(TROWS_N, W_TR, lambda r, inc: TCELLS_N(r, ET.ITER_N(r, W_TC), inc)))
define(TROWS_S, _iter_fold(TROWS_S, W_TR, lambda r, inc: TCELLS_S(r, ET.ITER_N(r, W_TC), inc)))
define(TBLN, lambda t, inc: [TBLN(t, inc) == TROWS_N(t, ET.ITER_N(t, W_TR), inc)])
define(TBLS, lambda t, inc: [TBLS(t, inc) == TROWS_S(t, ET.ITER_N(t, W_TR), inc)])

BODY_CHILD_CASES = [
    ("paragraph", lambda t: t == W_P),
    ("table", lambda t: t == W_TBL),
    ("content-control", lambda t: z3.Or(t == W_SDT, t == W_CUSTOMXML)),
    ("other", lambda t: z3.And(t != W_P, t != W_TBL, t != W_SDT, t != W_CUSTOMXML)),
]


def matched(ex, spec):
    """Record that a loop specification was attached (see need_loops)."""
    if not hasattr(ex, "matched_labels"):
        ex.matched_labels = set()
    ex.matched_labels.add(spec.label)
    return spec


def need_loops(*labels):
    """First postcondition of a contract whose obligations live in loop specifications found by role: when an expected
    loop was not recognised in the (restructured) code, the function is OUT-OF-SUBSET (undecided) -- its obligations must
    not silently disappear."""
    def clause(c):
        if getattr(c.ex, "contract", None) is not clause.owner or c.ex.inline_depth > 0 or getattr(c.ex, "in_apply", 0) > 0:
            return z3.BoolVal(True)            # assumed at a call site: nothing to check there
        missing = [l for l in labels if l not in getattr(c.ex, "matched_labels", set())]
        if missing:
            raise X.Unsupported("loop(s) not recognised: " + ", ".join(missing))
        return z3.BoolVal(True)
    clause.owner = None
    clause.needs_owner = True
    return ("loops-recognised", clause)


def top(lc, name):
    """Value of a parameter of the function under contract, read from its own frame (also from inside a helper executed in place)."""
    v = lc.st.frames[0].env.get(name)
    if v is None:
        raise KeyError(name)
    return v


def elem_loop(it, v):
    return isinstance(it, VExt) and it.sort == "Elem" and isinstance(v, VExt) and v.sort == "Elem" and it.t.eq(v.t)


def docx_contracts():
    PROC = find_fn(DOCX, "_process_text_element", mentions=["W_R", "MC_CHOICE"], nparams=3)
    PARA = find_fn(DOCX, "_extract_paragraph_content", mentions=["join"], calls=[PROC], nparams=2)
    TBL = find_fn(DOCX, "_extract_table_text", mentions=["W_TR", "W_TC"], nparams=2)
    BODY = find_fn(DOCX, "_extract_full_text_from_body", mentions=["W_TBL"], calls=[TBL], nparams=2)
    sp = Sig(DOCX, PROC, ["elem", "parts", "include_formulas"])
    OLD = z3.String(f"{sp.name['parts']}.cat")

    def kids_inv(lc):
        e, inc = lc.seq.t, top(lc, sp.name["include_formulas"]).t
        (_n0, c0, _l0), (_n1, cur, _l1) = grown(lc)
        return Conj([(nm, h(cur) == cc(h(c0), D.KIDS(e, lc.i, inc))) for nm, D, h in DX_IMAGES])

    def run_inv(lc):
        e, inc = lc.seq.t, top(lc, sp.name["include_formulas"]).t
        (_n0, c0, _l0), (_n1, cur, _l1) = grown(lc)
        last = TAG(CH(e, z3.simplify(lc.i - 1)))
        return Conj([(f"{nm}[{cn}]", z3.Implies(g(last), h(cur) == cc(h(c0), D.RUN(e, lc.i, inc))))
                     for nm, D, h in DX_IMAGES for cn, g in RUN_CHILD_CASES])

    def post(nm, D, h, guard):
        def f(c):
            e, inc = sp(c, "elem").t, sp(c, "include_formulas").t
            return z3.Implies(guard(TAG(e)),
                              h(cat_of(c.st, sp(c, "parts"))) == cc(h(cat_of(c.entry, sp(c, "parts"))), D.F(e, inc)))
        return X.robust(f)

    process = under(
        DOCX, "_process_text_element", PROC,
        params=sp.params({"elem": p_elem(), "parts": p_strlist(), "include_formulas": p_bool()}),
        ensures=[need_loops("choice-children", "run-children", "children")]
                + [(f"{nm}(parts)==old+dx_{nm}(elem)[{cn}]", post(nm, D, h, g)) for nm, D, h in DX_IMAGES for cn, g in ELEM_CASES],
        modifies=(sp.name["parts"],),
    )

    def process_loops(ex, st, node, it):
        """children of the element itself: the run-item fold when the element is a run, else the generic fold;
        children of another element (the mc:Choice): the generic fold over that element."""
        e = st.frames[0].env.get(sp.name["elem"])
        if not (isinstance(it, VExt) and it.sort == "Elem"):
            return None
        if not elem_loop(it, e):
            return matched(ex, LoopSpec(inv=kids_inv, label="choice-children"))
        if not ex.feasible(st.pc, TAG(e.t) != W_R):
            return matched(ex, LoopSpec(inv=run_inv, label="run-children"))
        if not ex.feasible(st.pc, TAG(e.t) == W_R):
            return matched(ex, LoopSpec(inv=kids_inv, label="children"))
        return None
    process.loop_match = process_loops
    # guards of ELEM_CASES are exhaustive: at call sites the postcondition is assumed unsplit
    process.compact_ensures = [(f"{nm}(parts)==old+dx_{nm}(elem)", post(nm, D, h, lambda t: z3.BoolVal(True))) for nm, D, h in DX_IMAGES]
    omml = FnContract(target=f"{OMML_PY}::omml_to_latex", params=[("elem", p_elem())], assumed=True,
                      returns=lambda c: VStr(OMML(c.args["elem"].t)), note="uninterpreted: C19 decides what the LaTeX is")

    sq_ = Sig(DOCX, PARA, ["paragraph", "include_formulas"])

    def par_inv(lc):
        e, inc = lc.seq.t, top(lc, sq_.name["include_formulas"]).t
        (_n0, c0, _l0), (_n1, cur, _l1) = grown(lc)
        return Conj([(nm, h(cur) == cc(h(c0), D.KIDS(e, lc.i, inc))) for nm, D, h in DX_IMAGES])

    para = under(
        DOCX, "_extract_paragraph_content", PARA,
        params=sq_.params({"paragraph": p_elem(), "include_formulas": p_bool()}),
        ensures=[need_loops("children")] + [(f"{nm}(result)==dx_{nm}_children(paragraph)",
                  (lambda nm, D, h: X.robust(lambda c: h(c.result.t) == D.all_kids(sq_(c, "paragraph").t, sq_(c, "include_formulas").t)))(nm, D, h))
                 for nm, D, h in DX_IMAGES],
        result_maker=lambda ex, st, ctx: VStr(z3.String(fresh_name("paragraph_text"))),
    )
    para.loop_match = lambda ex, st, node, it: (matched(ex, LoopSpec(inv=par_inv, label="children"))
                                                if elem_loop(it, st.frames[0].env.get(sq_.name["paragraph"])) else None)
    # ---- body level --------------------------------------------------------------------------
    def tbl_result(ex, st, ctx):
        n = z3.Int(fresh_name("table_texts.len"))
        cat, lead = z3.String(fresh_name("table_texts.cat")), z3.String(fresh_name("table_texts.lead"))
        st.assume(X.slist_wf(n, cat, lead))
        return X.mk_slist(ex, st, n, cat, lead, fresh=True)

    st_ = Sig(DOCX, TBL, ["table", "include_formulas"])
    tbl_clauses = [("nw", lambda c: NW(cat_of(c.st, c.result)) == TBLN(st_(c, "table").t, st_(c, "include_formulas").t)),
                   ("sq", lambda c: lead_of(c.st, c.result) == TBLS(st_(c, "table").t, st_(c, "include_formulas").t)),
                   ("pieces-not-blank", lambda c: (_sl(c.st, c.result)[0] == 0) == (NW(cat_of(c.st, c.result)) == lit("")))]
    if table_nest_shape(DOCX, TBL):
        # (round 7) VERIFIED: TBLN / TBLS are now DEFINED (the row / cell / paragraph folds above) and the three loops carry invariants
        def iter_of(seq, tag):
            """The element whose `iter(tag)` the loop runs over (None: another kind of loop)."""
            n = getattr(seq, "length", None)
            if isinstance(seq, VSeq) and seq.ekind == "Elem" and n is not None and z3.is_app(n) and n.decl().name() == ET.ITER_N.name() and n.arg(1).eq(tag):
                return n.arg(0)
            return None

        def fold_inv(tag, FN, FS):
            def inv(lc):
                e, inc = iter_of(lc.seq, tag), top(lc, st_.name["include_formulas"]).t
                (n0, c0, l0), (n, cat, lead) = grown(lc)
                return Conj([("nw", NW(cat) == cc(NW(c0), FN(e, lc.i, inc))),
                             ("sq", lead == cc(l0, FS(e, lc.i, inc))),
                             ("pieces-not-blank", z3.Implies((n0 == 0) == (NW(c0) == lit("")), (n == 0) == (NW(cat) == lit(""))))])
            return inv

        table = under(
            DOCX, "_extract_table_text", TBL,
            params=st_.params({"table": p_elem(), "include_formulas": p_bool()}),
            result_maker=tbl_result,
            ensures=[need_loops("rows", "cells", "paragraphs")] + [(f"{nm}(result)==docx_table_{nm}(table)" if nm != "pieces-not-blank" else nm, X.robust(f))
                                                                    for nm, f in tbl_clauses],
            note="the table text is, by definition, the fold over the rows table.iter(w:tr), their cells row.iter(w:tc) and the non-blank "
                 "paragraphs cell.iter(w:p) of each cell joined by a blank (that iter() also reaches the rows of a NESTED table is the recorded "
                 "finding F20-docx-nested-table, decided by the bounded token check, not by this definition)",
        )
        specs = {"rows": (W_TR, TROWS_N, TROWS_S), "cells": (W_TC, TCELLS_N, TCELLS_S), "paragraphs": (W_P, TPARS_N, TPARS_S)}

        def table_loops(ex, st, node, it):
            for label, (tag, FN, FS) in specs.items():
                if iter_of(it, tag) is not None:
                    return matched(ex, LoopSpec(inv=fold_inv(tag, FN, FS), label=label))
            return None
        table.loop_match = table_loops
    else:
        table = under(
            DOCX, "_extract_table_text", TBL,
            params=st_.params({"table": p_elem(), "include_formulas": p_bool()}),
            assumed=True, result_maker=tbl_result,
            ensures=tbl_clauses,
            note="callee contract used by the body walk (ASSUMED: the function is not the three-loop nest the verified contract is written for); "
                 "the function itself is checked exhaustively over small trees (BOUNDED, replay/C02.py)",
        )
    sb = Sig(DOCX, BODY, ["body", "include_formulas"])

    def body_inv(lc):
        e, inc = lc.seq.t, top(lc, sb.name["include_formulas"]).t
        last = TAG(CH(e, z3.simplify(lc.i - 1)))
        (n0, c0, l0), (n, cat, lead) = grown(lc)
        goals = [("nw", NW(cat) == cc(NW(c0), BODYN(e, lc.i, inc))),
                 ("sq", lead == cc(l0, BODYS(e, lc.i, inc))),
                 ("pieces-not-blank", z3.Implies((n0 == 0) == (NW(c0) == lit("")), (n == 0) == (NW(cat) == lit(""))))]
        return Conj([(f"{nm}[{cn}]", z3.Implies(g(last), t)) for nm, t in goals for cn, g in BODY_CHILD_CASES])

    def body_post_nw(c):
        if isinstance(sb(c, "body"), VNoneT):
            return c.result.t == lit("")
        return NW(c.result.t) == BODYN(sb(c, "body").t, NCH(sb(c, "body").t), sb(c, "include_formulas").t)

    def body_post_sq(c):
        if isinstance(sb(c, "body"), VNoneT):
            return c.result.t == lit("")
        bs = BODYS(sb(c, "body").t, NCH(sb(c, "body").t), sb(c, "include_formulas").t)
        return z3.If(c.result.t == lit(""), bs == lit(""), cc(" ", SQ(c.result.t)) == bs)

    body = under(
        DOCX, "_extract_full_text_from_body", BODY,
        params=sb.params({"body": Maker(lambda ex, st, name: p_elem().make(ex, st, name) + [(None, NONE)], desc="Optional[Element]"),
                          "include_formulas": Maker(lambda ex, st, name: VBool(z3.Bool(name)), desc="bool", default=lambda ex, st: VBool(True))}),
        ensures=[need_loops("blocks"), ("nw(result)==nw-of-blocks-in-order", X.robust(body_post_nw)),
                 ("sq(result)==blocks-separated-by-whitespace", X.robust(body_post_sq)),
                 ("result-empty-iff-no-visible-text", X.robust(lambda c: (c.result.t == lit("")) == (NW(c.result.t) == lit(""))))],
        result_maker=lambda ex, st, ctx: VStr(z3.String(fresh_name("body_text"))),
    )
    body.loop_match = lambda ex, st, node, it: (matched(ex, LoopSpec(inv=body_inv, label="blocks"))
                                                if elem_loop(it, st.frames[0].env.get(sb.name["body"])) else None)
    return [process, omml, para, table, body]



# =====================================================================================
# (b'') (round 7) DrawingML paragraph text  --  pptx_extractor.py::_extract_text_from_paragraphs
#
# Statement: the text of a text body is the text of its paragraphs (a:p, in document order) separated by whitespace; the text of
# a paragraph is EXACTLY the concatenation, in order, of: the a:t text of every run / field child (a:r, a:fld; nothing when it has no
# a:t or the a:t is empty), a vertical tab (whitespace: "line-break boundary") for every a:br, the text of a direct a:t child;
# every other child (a:pPr, a:endParaRPr ...) contributes nothing.  Nothing is lost, duplicated, reordered or invented.
# =====================================================================================
PPTX = "sharepoint2text/parsing/extractors/ms_modern/pptx_extractor.py"
A_ = "{http://schemas.openxmlformats.org/drawingml/2006/main}"
A_P, A_R, A_T, A_BR, A_FLD = (lit(A_ + x) for x in ("p", "r", "t", "br", "fld"))
PXP = z3.Function("pptx_paragraph_text", ELEM, I, S)          # exact text of the first k children of a paragraph
PXN = z3.Function("pptx_paragraphs_nw", ELEM, I, S)
PXS = z3.Function("pptx_paragraphs_sq", ELEM, I, S)


def px_item(c):
    t = CH(c, FIND_IDX(c, A_T))
    return z3.If(z3.Or(TAG(c) == A_R, TAG(c) == A_FLD), z3.If(FIND_NONE(c, A_T), lit(""), TEXT(t)),
                 z3.If(TAG(c) == A_BR, lit("\x0b"), z3.If(TAG(c) == A_T, TEXT(c), lit(""))))


def _pxp_def(p_, k):
    k1 = z3.simplify(k - 1)
    c = CH(p_, k1)
    t = CH(c, FIND_IDX(c, A_T))
    return prefix_def(PXP(p_, k), k, cc(PXP(p_, k1), px_item(c))) + [
        z3.Implies(TEXT_NONE(c), TEXT(c) == lit("")), z3.Implies(TEXT_NONE(t), TEXT(t) == lit("")), NCH(p_) >= 0]


define(PXP, _pxp_def)
define(PXN, lambda e, k: prefix_def(PXN(e, k), k, cc(PXN(e, z3.simplify(k - 1)), NW(PXP(ET.ITER_AT(e, A_P, z3.simplify(k - 1)), NCH(ET.ITER_AT(e, A_P, z3.simplify(k - 1))))))))
define(PXS, lambda e, k: prefix_def(PXS(e, k), k, cc(PXS(e, z3.simplify(k - 1)), " ", SQ(PXP(ET.ITER_AT(e, A_P, z3.simplify(k - 1)), NCH(ET.ITER_AT(e, A_P, z3.simplify(k - 1))))))))

PX_CHILD_CASES = [
    ("run-or-field", lambda t: z3.Or(t == A_R, t == A_FLD)),
    ("line-break", lambda t: z3.And(t != A_R, t != A_FLD, t == A_BR)),
    ("direct-text", lambda t: z3.And(t != A_R, t != A_FLD, t != A_BR, t == A_T)),
    ("other-child", lambda t: z3.And(t != A_R, t != A_FLD, t != A_BR, t != A_T)),
]


def pptx_contracts():
    FN = find_fn(PPTX, "_extract_text_from_paragraphs", mentions=["A_P", "A_BR", "join"], nparams=1)
    sg = Sig(PPTX, FN, ["elem"])

    def iter_elem(seq):
        n = getattr(seq, "length", None)
        if isinstance(seq, VSeq) and seq.ekind == "Elem" and n is not None and z3.is_app(n) and n.decl().name() == ET.ITER_N.name() and n.arg(1).eq(A_P):
            return n.arg(0)
        return None

    def pars_inv(lc):
        e = iter_elem(lc.seq)
        (_n0, c0, l0), (_n1, cat, lead) = grown(lc)
        return Conj([("nw", NW(cat) == cc(NW(c0), PXN(e, lc.i))), ("sq", lead == cc(l0, PXS(e, lc.i)))])

    def kids_inv(lc):
        p_ = lc.seq.t
        (_n0, c0, _l0), (_n1, cat, _l1) = grown(lc)
        last = TAG(CH(p_, z3.simplify(lc.i - 1)))
        return Conj([(f"exact[{cn}]", z3.Implies(g(last), cat == cc(c0, PXP(p_, lc.i)))) for cn, g in PX_CHILD_CASES])

    def post_nw(c):
        e = sg(c, "elem").t
        return NW(c.result.t) == PXN(e, ET.ITER_N(e, A_P))

    def post_sq(c):
        e = sg(c, "elem").t
        return sep_claim(SQ(c.result.t), PXS(e, ET.ITER_N(e, A_P)))

    con = under(
        PPTX, "_extract_text_from_paragraphs", FN,
        params=sg.params({"elem": p_elem()}),
        ensures=[need_loops("paragraphs", "children"), ("nw(result)==nw-of-the-paragraph-texts-in-order", X.robust(post_nw)),
                 ("sq(result)==paragraph-texts-separated-by-whitespace", X.robust(post_sq))],
        result_maker=lambda ex, st, ctx: VStr(z3.String(fresh_name("paragraphs_text"))),
        note="paragraph text exact (inner invariant), paragraphs observed through nw / sq; a:br is a vertical tab, i.e. whitespace",
    )

    def loops(ex, st, node, it):
        if iter_elem(it) is not None:
            return matched(ex, LoopSpec(inv=pars_inv, label="paragraphs"))
        if isinstance(it, VExt) and it.sort == "Elem":
            return matched(ex, LoopSpec(inv=kids_inv, label="children"))
        return None
    con.loop_match = loops
    return [con]


# =====================================================================================
# (c) slide / document assembly  --  data_types.py
#
# Statement: slide text = title, body items, other items (pptx: base text, then every formula between its
# documented delimiters, then -- only when asked for -- image captions), in this order, separated by
# whitespace; speaker notes / comments / footers are not part of it; nothing else is added.
# =====================================================================================
DT = "sharepoint2text/parsing/extractors/data_types.py"
FORMULA, IMAGE = ext_sort("PptxFormula"), ext_sort("PptxImage")
F_AT = z3.Function("slide.formulas.at", I, FORMULA)
F_LATEX = z3.Function("PptxFormula.latex", FORMULA, S)
F_DISPLAY = z3.Function("PptxFormula.is_display", FORMULA, B)
IM_AT = z3.Function("slide.images.at", I, IMAGE)
IM_DESC = z3.Function("PptxImage.description", IMAGE, S)
FN_N = z3.Function("slide_formulas_nw", I, S)
FN_S = z3.Function("slide_formulas_sq", I, S)
IN_N = z3.Function("slide_captions_nw", I, S)
IN_S = z3.Function("slide_captions_sq", I, S)


def formula_text(f):
    return z3.If(F_DISPLAY(f), cc("$$", F_LATEX(f), "$$"), cc("$", F_LATEX(f), "$"))


def caption_text(im):
    return cc("[Image: ", IM_DESC(im), "]")


def _fold(F, item):
    def d(k):
        k1 = z3.simplify(k - 1)
        return prefix_def(F(k), k, cc(F(z3.simplify(k - 1)), item(k1)))
    return d


define(FN_N, _fold(FN_N, lambda k: NW(formula_text(F_AT(k)))))
define(FN_S, _fold(FN_S, lambda k: cc(" ", SQ(formula_text(F_AT(k))))))
define(IN_N, _fold(IN_N, lambda k: z3.If(IM_DESC(IM_AT(k)) == lit(""), lit(""), NW(caption_text(IM_AT(k))))))
define(IN_S, _fold(IN_S, lambda k: z3.If(IM_DESC(IM_AT(k)) == lit(""), lit(""), cc(" ", SQ(caption_text(IM_AT(k)))))))


UNIT = ext_sort("DocUnit")
U_AT = z3.Function("doc.units.at", I, UNIT)
U_TEXT = z3.Function("DocUnit.get_text", UNIT, S)
UN_N = z3.Function("doc_unit_texts_nw", I, S)
UN_S = z3.Function("doc_unit_texts_sq", I, S)
define(UN_N, _fold(UN_N, lambda k: NW(U_TEXT(U_AT(k)))))
define(UN_S, _fold(UN_S, lambda k: cc(" ", SQ(U_TEXT(U_AT(k))))))


def p_objseq(sort, at):
    def mk(ex, st, name):
        n = z3.Int(f"{name}.len")
        st.assume(n >= 0)
        return VSeq(n, lambda i: VExt(sort, at(i)), sort)
    return Maker(mk, desc=f"list[{sort}] of symbolic length")


def sep_claim(result_sq, spec_lead):
    """result == pieces separated by whitespace, pieces given in leading-blank normal form."""
    return z3.Or(z3.And(spec_lead == lit(""), result_sq == lit("")), cc(" ", result_sq) == spec_lead)


def lead_str(x):
    return z3.If(x == lit(""), lit(""), cc(" ", SQ(x)))


def dt_contracts(reg):
    reg.attr_models[("PptxFormula", "latex")] = lambda ex, st, o: VStr(F_LATEX(o.t))
    reg.attr_models[("PptxFormula", "is_display")] = lambda ex, st, o: VBool(F_DISPLAY(o.t))
    reg.attr_models[("PptxImage", "description")] = lambda ex, st, o: VStr(IM_DESC(o.t))
    out = []

    # ---- PptSlideContent / OdpSlide .text_combined -------------------------------------------
    for cls, title in (("PptSlideContent", p_opt(p_str())), ("OdpSlide", p_str())):
        def fields(c):
            d = c.entry.obj(c.args["self"].ref).data
            t = d["title"]
            tt = lit("") if isinstance(t, VNoneT) else t.t
            return tt, d["body_text"], d["other_text"]

        def nw_post(c):
            tt, b, o = fields(c)
            return NW(c.result.t) == cc(NW(tt), NW(cat_of(c.entry, b)), NW(cat_of(c.entry, o)))

        def sq_post(c):
            tt, b, o = fields(c)
            return sep_claim(SQ(c.result.t), cc(lead_str(tt), lead_of(c.entry, b), lead_of(c.entry, o)))

        out.append(FnContract(
            target=f"{DT}::{cls}.text_combined",
            params=[("self", p_obj(cls, {"title": title, "body_text": p_strlist(), "other_text": p_strlist(), "notes": p_strlist()}))],
            ensures=[("nw(result)==title+body+other", X.robust(nw_post)), ("sq(result)==title,body,other-separated-by-whitespace", X.robust(sq_post))],
            note="speaker notes (self.notes) do not occur in the specified text, hence never in the result",
        ))

    # ---- PptxSlide.get_text ------------------------------------------------------------------
    sg = Sig(DT, "PptxSlide.get_text", ["self", "include_image_captions"])

    def base(c):
        return c.entry.obj(sg(c, "self").ref).data["base_text"].t

    def f_inv(lc):
        (_n0, c0, l0), (_n1, c1, l1) = grown(lc)
        return Conj([("nw", NW(c1) == cc(NW(c0), FN_N(lc.i))), ("sq", l1 == cc(l0, FN_S(lc.i)))])

    def i_inv(lc):
        (_n0, c0, l0), (_n1, c1, l1) = grown(lc)
        return Conj([("nw", NW(c1) == cc(NW(c0), IN_N(lc.i))), ("sq", l1 == cc(l0, IN_S(lc.i)))])

    def gt_nw(c):
        b, nf, ni, inc = base(c), z3.Int("self.formulas.len"), z3.Int("self.images.len"), sg(c, "include_image_captions").t
        return NW(c.result.t) == cc(NW(b), FN_N(nf), z3.If(inc, IN_N(ni), lit("")))

    def gt_sq(c):
        b, nf, ni, inc = base(c), z3.Int("self.formulas.len"), z3.Int("self.images.len"), sg(c, "include_image_captions").t
        return sep_claim(SQ(c.result.t), cc(lead_str(b), FN_S(nf), z3.If(inc, IN_S(ni), lit(""))))

    gt = FnContract(
        target=f"{DT}::PptxSlide.get_text",
        params=[(sg.name["self"], Maker(lambda ex, st, name: p_obj("PptxSlide", {"base_text": p_str(), "formulas": p_objseq("PptxFormula", F_AT),
                                                                                 "images": p_objseq("PptxImage", IM_AT), "footer": p_str(),
                                                                                 "text": p_str()}).make(ex, st, "self"), desc="PptxSlide")),
                (sg.name["include_image_captions"], Maker(lambda ex, st, name: VBool(z3.Bool(name)), desc="bool", default=lambda ex, st: VBool(False)))],
        ensures=[need_loops("formulas", "images"), ("nw(result)==base+formulas(+captions)", X.robust(gt_nw)), ("sq(result)==base,formulas(,captions)-separated-by-whitespace", X.robust(gt_sq))],
        note="comments, footer and the comment-bearing field `text` do not occur in the specified text",
    )
    gt.loop_match = lambda ex, st, node, it: (matched(ex, LoopSpec(inv=f_inv, label="formulas")) if isinstance(it, VSeq) and it.ekind == "PptxFormula"
                                              else matched(ex, LoopSpec(inv=i_inv, label="images")) if isinstance(it, VSeq) and it.ekind == "PptxImage" else None)
    out.append(gt)

    # ---- DocContent.get_full_text: the documented title line ------------------------------------
    UNITS = z3.Const("doc.joined_unit_text", S)
    # (round 7) _join_unit_text VERIFIED: the joined text is the texts of the units, in order, separated by whitespace, outer whitespace
    # stripped -- nothing lost, duplicated, reordered or invented between the units and the document text.  (WHICH units there are
    # and what their text is stays C03's subject: `unit.get_text()` is uninterpreted.)  Call sites keep seeing "some string" (implied).
    JU = find_fn(DT, "_join_unit_text", mentions=["get_text", "join"], nparams=1)
    sj = Sig(DT, JU, ["units"])
    reg.method_models[("DocUnit", "get_text")] = lambda ex, st, obj, a, k, n: [(st, VStr(U_TEXT(obj.t)))]
    ju_own = []

    def ju_inv(lc):
        (_n0, c0, l0), (_n1, c1, l1) = grown(lc)
        return Conj([("nw", NW(c1) == cc(NW(c0), UN_N(lc.i))), ("sq", l1 == cc(l0, UN_S(lc.i)))])

    def ju_n(c):
        v = sj(c, "units")
        if not isinstance(v, VSeq):
            raise X.Unsupported("units")
        return v.length

    def ju_clause(f):
        return X.robust(lambda c: z3.BoolVal(True) if _is_call_site(c, ju_own[0]) else f(c))

    ju = under(
        DT, "_join_unit_text", JU,
        params=sj.params({"units": p_objseq("DocUnit", U_AT)}),
        result_maker=lambda ex, st, ctx: VStr(UNITS),
        ensures=[need_loops("units"),
                 ("nw(result)==nw-of-the-unit-texts-in-order", ju_clause(lambda c: NW(c.result.t) == UN_N(ju_n(c)))),
                 ("sq(result)==unit-texts-separated-by-whitespace", ju_clause(lambda c: z3.Implies(ju_n(c) > 0, T.trim(SQ(c.result.t)) == T.trim(UN_S(ju_n(c))))))],
        note="call sites: the result is the constant doc.joined_unit_text (some string; C03 decides which units exist)",
    )
    ju_own.append(ju)
    ju.loop_match = lambda ex, st, node, it: (matched(ex, LoopSpec(inv=ju_inv, label="units")) if isinstance(it, VSeq) and it.ekind == "DocUnit" else None)
    if sj.ok:
        out.append(ju)
    else:
        out.append(FnContract(target=f"{DT}::_join_unit_text", params=[("units", Maker(lambda ex, st, n: VUnk(n), desc="iterator"))], assumed=True,
                              returns=lambda c: VStr(UNITS), note="C03 decides what the joined unit text is"))
    out.append(FnContract(target=f"{DT}::DocContent.iterate_units", params=[("self", Maker(lambda ex, st, n: VUnk(n), desc="DocContent"))], assumed=True,
                          returns=lambda c: VUnk("units"), note="C03"))

    def doc_title(c):
        return c.entry.obj(c.entry.obj(c.args["self"].ref).data["metadata"].ref).data["title"].t

    out.append(FnContract(
        target=f"{DT}::DocContent.get_full_text",
        params=[("self", p_obj("DocContent", {"metadata": p_obj("DocMetadata", {"title": p_str()})}))],
        ensures=[("nw(result)==title+units", lambda c: NW(c.result.t) == cc(NW(doc_title(c)), NW(UNITS))),
                 ("sq(result)==title-line,units", lambda c: T.trim(SQ(c.result.t)) == T.trim(X.SQ_cat(SQ(doc_title(c)), lit(" "), SQ(UNITS))))],
        note="the .doc title line is documented decoration: the result is the title, a line break, the unit text",
    ))
    return out


# =====================================================================================
# (d') HTML tree walk  --  html_extractor.py::_HtmlTextExtractor
#
# Tree = the dict tree built by _HtmlTreeBuilder (C17 proves that no node of a removed tag is ever added).
#   node_text(n)   = text(n) ++ (node_text(c_i) ++ tail(c_i))_i                       (exact)
#   rendered(n)    = documented rendering, observed through nw:
#        table -> the formatted table;  li -> "- " content;  h1..h6 -> node_text;  br -> line break;  hr -> "---";
#        other -> text ++ rendered children (each followed by its tail)
# =====================================================================================
HTML = "sharepoint2text/parsing/extractors/html_extractor.py"
HNODE, H_TAG, H_TEXT, H_TAIL, H_NCH, H_CH = X.HNODE, X.H_TAG, X.H_TEXT, X.H_TAIL, X.H_NCH, X.H_CH
HT = z3.Function("html_node_text", HNODE, S)
HT_KIDS = z3.Function("html_node_text_children", HNODE, I, S)
PN = z3.Function("html_rendered_nw", HNODE, S)
PN_KIDS = z3.Function("html_rendered_children_nw", HNODE, I, S)
TABLE_DATA = ext_sort("HtmlTableData")
TD_OF = z3.Function("html_extract_table", HNODE, TABLE_DATA)
TD_TEXT = z3.Function("html_format_table_as_text", TABLE_DATA, S)
H_REMOVE = ["script", "style", "noscript", "iframe", "object", "embed", "applet"]
H_HEADINGS = ["h1", "h2", "h3", "h4", "h5", "h6"]


def tag_in(t, names):
    return z3.Or([t == lit(k) for k in names])


define(HT, lambda n: [HT(n) == cc(H_TEXT(n), HT_KIDS(n, H_NCH(n))), H_NCH(n) >= 0])
define(HT_KIDS, lambda n, k: prefix_def(HT_KIDS(n, k), k, cc(HT_KIDS(n, z3.simplify(k - 1)), HT(H_CH(n, z3.simplify(k - 1))),
                                                             H_TAIL(H_CH(n, z3.simplify(k - 1))))))


def _pn_def(n):
    t = H_TAG(n)
    kids = PN_KIDS(n, H_NCH(n))
    body = z3.If(t == lit("table"), NW(TD_TEXT(TD_OF(n))),
           z3.If(t == lit("li"), cc("-", NW(H_TEXT(n)), kids),
           z3.If(tag_in(t, H_HEADINGS), NW(HT(n)),
           z3.If(t == lit("br"), lit(""),
           z3.If(t == lit("hr"), lit("---"), cc(NW(H_TEXT(n)), kids))))))
    return [PN(n) == body, H_NCH(n) >= 0]


def _pn_kids_def(n, k):
    k1 = z3.simplify(k - 1)
    c = H_CH(n, k1)
    return prefix_def(PN_KIDS(n, k), k, cc(PN_KIDS(n, k1), PN(c), NW(H_TAIL(c))))


# class invariant of the tree the builder makes (C17: no node of a removed tag is ever added), instantiated at every child term
define(H_CH, lambda n, k: [z3.Implies(z3.And(k >= 0, k < H_NCH(n)), z3.Not(tag_in(H_TAG(H_CH(n, k)), H_REMOVE)))], aux=True)
define(PN, _pn_def)
define(PN_KIDS, _pn_kids_def)


def feeds_text_list(ex, st, node):
    """The loop body appends to / extends a str list that exists before the loop (it accumulates text)."""
    import ast
    for sub in ast.walk(node):
        tgt = None
        if isinstance(sub, ast.Call) and isinstance(sub.func, ast.Attribute) and sub.func.attr in ("append", "extend") and isinstance(sub.func.value, ast.Name):
            tgt = sub.func.value.id
        elif isinstance(sub, ast.AugAssign) and isinstance(sub.target, ast.Name):
            tgt = sub.target.id
        if tgt is not None:
            v = st.lookup(tgt)
            if v is not None and _is_strlist(st, v):
                return True
    return False


def children_of(it, node_v):
    return isinstance(it, VSeq) and it.tag is not None and it.tag[0] == "hn.children" and isinstance(node_v, VExt) and it.tag[1].eq(node_v.t)


def html_contracts(reg):
    reg.module_consts[(HTML, "_RE_WS")] = VExt("RegexWS")
    p_self = p_obj("_HtmlTextExtractor", {})
    p_flag = lambda dflt: Maker(lambda ex, st, name: VBool(z3.Bool(name)), desc="bool", default=lambda ex, st: VBool(dflt))
    PNODE = find_fn(HTML, "_HtmlTextExtractor._process_node", mentions=["li", "BLOCK_TAGS", "REMOVE_TAGS"], nparams=4)
    GNT = find_fn(HTML, "_HtmlTextExtractor._get_node_text", mentions=["text", "children", "tail", "join"], nparams=4, exclude=[PNODE])
    sgn = Sig(HTML, GNT, ["self", "node", "include_children", "include_tail"])

    def gnt_inv(lc):
        n = lc.seq.tag[1]
        (_n0, c0, _l0), (_n1, c1, _l1) = grown(lc)
        return Conj([("parts==text+texts-of-processed-children", c1 == cc(c0, HT_KIDS(n, lc.i)))])

    gnt = under(
        HTML, "_HtmlTextExtractor._get_node_text", GNT,
        params=sgn.params({"self": p_self, "node": p_hnode(), "include_children": p_flag(True), "include_tail": p_flag(False)}),
        returns=lambda c: VStr(cc(z3.If(sgn(c, "include_children").t, HT(sgn(c, "node").t), H_TEXT(sgn(c, "node").t)),
                                  z3.If(sgn(c, "include_tail").t, H_TAIL(sgn(c, "node").t), lit("")))),
        ensures=[need_loops("children")],
    )
    gnt.loop_match = lambda ex, st, node, it: (matched(ex, LoopSpec(inv=gnt_inv, label="children"))
                                               if children_of(it, st.frames[0].env.get(sgn.name["node"])) else None)
    extract_table = FnContract(target=f"{HTML}::_HtmlTextExtractor._extract_table", params=[("self", p_self), ("table_node", p_hnode())],
                               assumed=True, returns=lambda c: VExt("HtmlTableData", TD_OF(c.args["table_node"].t)),
                               note="table content: BOUNDED check html.extract (replay/C02.py)")
    format_table = FnContract(target=f"{HTML}::_HtmlTextExtractor._format_table_as_text",
                              params=[("self", p_self), ("table_data", Maker(lambda ex, st, n: VExt("HtmlTableData"), desc="table data"))],
                              assumed=True, returns=lambda c: VStr(TD_TEXT(c.args["table_data"].t)), note="BOUNDED check html.extract")
    spn = Sig(HTML, PNODE, ["self", "node", "depth", "include_tail"])

    def pn_inv(lc):
        n = lc.seq.tag[1]
        (_n0, c0, _l0), (_n1, c1, _l1) = grown(lc)
        return Conj([("nw", NW(c1) == cc(NW(c0), PN_KIDS(n, lc.i)))])

    pn = under(
        HTML, "_HtmlTextExtractor._process_node", PNODE,
        params=spn.params({"self": p_obj("_HtmlTextExtractor", {"tables": Maker(lambda ex, st, n: VUnk(n), desc="list")}), "node": p_hnode(),
                           "depth": Maker(lambda ex, st, name: VInt(z3.Int(name)), desc="int", default=lambda ex, st: VInt(0)),
                           "include_tail": p_flag(False)}),
        requires=lambda c: z3.Not(tag_in(H_TAG(spn(c, "node").t), H_REMOVE)),
        ensures=[need_loops("li-children", "children"), ("nw(result)==rendered(node)(+tail)",
                  X.robust(lambda c: NW(c.result.t) == cc(PN(spn(c, "node").t), z3.If(spn(c, "include_tail").t, NW(H_TAIL(spn(c, "node").t)), lit("")))))],
        result_maker=lambda ex, st, ctx: VStr(z3.String(fresh_name("rendered"))),
        raises=[Raises("Exception", sub=True)],
        modifies=(spn.name["self"],),
        note="requires: the node is not of a removed tag (class invariant of the tree the builder makes, C17)",
    )

    def pn_loops(ex, st, node, it):
        nv = st.frames[0].env.get(spn.name["node"])
        if not children_of(it, nv):
            return None
        is_li = not ex.feasible(st.pc, H_TAG(nv.t) != lit("li"))
        return matched(ex, LoopSpec(inv=pn_inv, label="li-children" if is_li else "children"))
    pn.loop_match = pn_loops
    return [gnt, extract_table, format_table, pn]


# =====================================================================================
# (b) sheet formatters  --  xls_extractor.py::_format_sheet_as_text  (symbolic, nw image)
#
# Statement: nw(result) == row-major concatenation of nw(display(cell)); the grid is the header row (when there
# is one) followed by the data rows.  Column padding / separators are whitespace, i.e. invisible to nw.  The
# separation image (cells / rows separated by whitespace) and the xlsx / ods formatters are BOUNDED stand-ins.
# =====================================================================================
XLS = "sharepoint2text/parsing/extractors/ms_legacy/xls_extractor.py"
STRROW, RLEN, RCELL = X.STRROW, X.RLEN, X.RCELL
ROWS_AT = z3.Function("rows.at", I, STRROW)
ROW_NW = z3.Function("row_cells_nw", STRROW, I, S)
GRID_NW = z3.Function("grid_rows_nw", STRROW, I, S)          # first argument: the header row (fixed per call)


def grid_row(hdr, k):
    return z3.If(RLEN(hdr) > 0, z3.If(k == 0, hdr, ROWS_AT(z3.simplify(k - 1))), ROWS_AT(k))


define(ROW_NW, lambda r, k: prefix_def(ROW_NW(r, k), k, cc(ROW_NW(r, z3.simplify(k - 1)), NW(RCELL(r, z3.simplify(k - 1))))) + [RLEN(r) >= 0])
define(GRID_NW, lambda h, k: prefix_def(GRID_NW(h, k), k, cc(GRID_NW(h, z3.simplify(k - 1)),
                                                             ROW_NW(grid_row(h, z3.simplify(k - 1)), RLEN(grid_row(h, z3.simplify(k - 1)))))))


def xls_contracts():
    FMT = find_fn(XLS, "_format_sheet_as_text", mentions=["rjust", "join"], nparams=2)
    sx = Sig(XLS, FMT, ["headers", "rows"])

    def row_of(seq):
        """The row a cell loop runs over: `for v in row` / `for i, v in enumerate(row)`."""
        if isinstance(seq, VExt) and seq.sort == "StrRow":
            return seq.t
        if isinstance(seq, VSeq) and seq.tag is not None and seq.tag[-2] == "row.cells":
            return seq.tag[-1]
        return None

    def outer_inv(lc):
        (_n0, c0, _l0), (_n1, c1, _l1) = grown(lc)
        return Conj([("nw", NW(c1) == cc(NW(c0), GRID_NW(top(lc, sx.name["headers"]).t, lc.i)))])

    def inner_inv(lc):
        (_n0, c0, _l0), (_n1, c1, _l1) = grown(lc)
        return Conj([("nw", NW(c1) == cc(NW(c0), ROW_NW(row_of(lc.seq), lc.i)))])

    def post(c):
        h = sx(c, "headers").t
        n = z3.Int(f"{sx.name['rows']}.len")
        return NW(c.result.t) == GRID_NW(h, z3.If(RLEN(h) > 0, n + 1, n))

    fmt = under(
        XLS, "_format_sheet_as_text", FMT,
        params=sx.params({"headers": X.p_strrow(), "rows": X.p_rowseq(ROWS_AT)}),
        ensures=[need_loops("rows", "cells"), ("nw(result)==row-major-nw-of-cells", X.robust(post))],
        raises=[Raises("Exception", sub=True)],
        note="column widths are irrelevant to nw (rjust is whitespace): loops that do not feed a text list (the width pass) are cut with invariant True",
    )

    def loops(ex, st, node, it):
        if not feeds_text_list(ex, st, node):
            return None
        if row_of(it) is not None:
            return matched(ex, LoopSpec(inv=inner_inv, label="cells"))
        if isinstance(it, VSeq) and it.ekind == "StrRow":
            return matched(ex, LoopSpec(inv=outer_inv, label="rows"))
        return None
    fmt.loop_match = loops
    return [fmt]




# =====================================================================================
# (d'') HTML tree builder  --  html_extractor.py::_HtmlTreeBuilder  (order of text around removed markup)
#
# The text walk emits text(n), then the children each followed by its tail.  The builder therefore keeps an
# *insertion point*: data goes to the tail of `last_closed` if there is one, else to the text of the innermost open
# element `stack[-1]`.  Statement ("same relative order as in the source", "content of removed markup never
# appears"): removed markup is invisible -- events inside it move nothing: neither the tree nor the insertion point.
#   skip_depth > 0 at entry  ->  handle_starttag / handle_endtag / handle_data / handle_comment change nothing
#                                 but the skip bookkeeping (skip_depth and the remembered tag)
#   skip_depth == 0          ->  handle_data(d) appends d at the insertion point, and nowhere else
# (The class invariant and the region semantics proper are C17's obligations; heap model reused from contracts/C17.py.)
# =====================================================================================
def epub_roles():
    """{role: attribute name} of _XhtmlTextExtractor, read off the data flow of its handlers: the list that the end-tag
    handler joins is the cell buffer, the list that receives the joined text is the row, the string that handle_data extends
    is the title, the other list handle_data appends to is the running text; the flags are the attributes that guard these."""
    import ast
    from pyvc import loader
    C = _C17
    mod = loader.module(C.EPUB)
    hd, he = mod.functions.get(f"{C.ECLS}.handle_data"), mod.functions.get(f"{C.ECLS}.handle_endtag")
    if hd is None or he is None:
        raise X.Unsupported("epub handlers not found")
    self_attr = lambda e: e.attr if isinstance(e, ast.Attribute) and isinstance(e.value, ast.Name) and e.value.id == "self" else None

    def reach(node, depth=2):
        """Nodes of `node` and of the methods of the same class it calls through self (helpers executed in place)."""
        for x in ast.walk(node):
            yield x
            if depth and isinstance(x, ast.Call) and self_attr(x.func):
                callee = mod.functions.get(f"{C.ECLS}.{x.func.attr}")
                if callee is not None:
                    yield from reach(callee, depth - 1)
    is_app = lambda x: isinstance(x, ast.Call) and isinstance(x.func, ast.Attribute) and x.func.attr == "append" and x.args and self_attr(x.func.value)
    joined = {self_attr(x.args[0]) for x in reach(he) if isinstance(x, ast.Call) and isinstance(x.func, ast.Attribute) and x.func.attr == "join" and x.args} - {None}
    # the row receives a computed text (a local or a call result), not a constant and not another buffer of the parser
    rows = {self_attr(x.func.value) for x in reach(he) if is_app(x) and not isinstance(x.args[0], ast.Constant) and not self_attr(x.args[0])}
    data_sinks = {self_attr(x.func.value) for x in reach(hd) if is_app(x) and isinstance(x.args[0], ast.Name)}
    titles = {self_attr(x.target) for x in reach(hd) if isinstance(x, ast.AugAssign)} - {None}
    if len(joined) != 1 or len(rows) != 1 or len(titles) != 1 or len(data_sinks - joined) != 1 or not (joined <= data_sinks):
        raise X.Unsupported(f"epub parser roles not recognised: joined={sorted(joined)} rows={sorted(rows)} titles={sorted(titles)} sinks={sorted(data_sinks)}")
    cell, row, title, text = next(iter(joined)), next(iter(rows)), next(iter(titles)), next(iter(data_sinks - joined))

    def guard_of(fn, hit):
        for n in reach(fn):
            if isinstance(n, ast.If) and self_attr(n.test) and any(hit(x) for b in n.body for x in reach(b)):
                return self_attr(n.test)
        return None
    in_cell = guard_of(hd, lambda x: is_app(x) and self_attr(x.func.value) == cell)
    in_title = guard_of(hd, lambda x: isinstance(x, ast.AugAssign) and self_attr(x.target) == title)
    in_table = guard_of(he, lambda x: isinstance(x, ast.Call) and isinstance(x.func, ast.Attribute) and x.func.attr == "join")
    if not (in_cell and in_title and in_table):
        raise X.Unsupported("epub parser flags not recognised")
    return {"cell": cell, "row": row, "title": title, "text": text, "in_cell": in_cell, "in_title": in_title, "in_table": in_table}


def epub_walker_contracts(reg, P_STR, P_ATTRS):
    C = _C17
    try:
        R = epub_roles()
    except X.Unsupported:
        R = None
    str_lists = {R["cell"], R["row"], R["text"]} if R else set()

    def self_maker():
        def mk(ex, st, name):
            per_field = []
            for f, ann, val in C.init_fields(C.EPUB, C.ECLS, ex.module.repo):
                if f in str_lists:
                    per_field.append((f, [(None, v) for (_c, v) in p_strlist().make(ex, st, f"{name}.{f}")]))
                elif isinstance(val, __import__("ast").List):
                    per_field.append((f, [(None, VUnk(f"{name}.{f}"))]))
                else:
                    per_field.append((f, C.scalar_alts(ex, st, f"{name}.{f}", ann, val)))
            from pyvc.state import HeapObj
            return [(z3.And(cs) if cs else None, VRef(st.alloc(HeapObj("obj", d, C.ECLS, False), ex.refs))) for cs, d in C.product(per_field)]
        return Maker(mk, desc=C.ECLS)

    def fld(st, c, f):
        return st.obj(c.args["self"].ref).data[f]

    def e_untouched(c):
        sd = fld(c.entry, c, "skip_depth")
        return z3.Implies(sd.t > 0, C.frame(c, C.skip_fields(C.EPUB, C.ECLS, c.ex.module.repo)))

    def sink(st, c, role):
        v = fld(st, c, R[role])
        return _sl(st, v)

    def data_once(c):
        """not skipping: the datum is appended to exactly one sink -- the title while inside <title>, else the open table
        cell, else the running text -- and the other sinks keep their content."""
        if R is None:
            raise X.Unsupported("roles")
        d = c.args["data"].t
        sd = fld(c.entry, c, "skip_depth").t
        in_title, in_cell = fld(c.entry, c, R["in_title"]).t, fld(c.entry, c, R["in_cell"]).t
        t0, t1 = fld(c.entry, c, R["title"]).t, fld(c.st, c, R["title"]).t
        same = lambda role: z3.And(sink(c.st, c, role)[0] == sink(c.entry, c, role)[0], sink(c.st, c, role)[1] == sink(c.entry, c, role)[1])
        grew = lambda role: z3.And(sink(c.st, c, role)[0] == sink(c.entry, c, role)[0] + 1, sink(c.st, c, role)[1] == cc(sink(c.entry, c, role)[1], d),
                                   sink(c.st, c, role)[2] == X.SQ_cat(sink(c.entry, c, role)[2], lit(" "), SQ(d)))
        return z3.Implies(sd <= 0, z3.If(in_title, z3.And(t1 == cc(t0, d), same("cell"), same("text")),
                                         z3.If(in_cell, z3.And(t1 == t0, grew("cell"), same("text")), z3.And(t1 == t0, same("cell"), grew("text")))))

    def closing_cell(c):
        tag = C.LOWER(c.args["tag"].t)
        return z3.And(fld(c.entry, c, "skip_depth").t <= 0, fld(c.entry, c, R["in_table"]).t, z3.Or(tag == lit("td"), tag == lit("th")),
                      tag != lit("title"), tag != lit("table"))

    def cell_nw(c):
        """</td>: the row gains one cell whose text is the buffered data -- nothing lost, duplicated, invented."""
        if R is None:
            raise X.Unsupported("roles")
        (n0, c0, _l0), (n1, c1, _l1) = sink(c.entry, c, "row"), sink(c.st, c, "row")
        return z3.Implies(closing_cell(c), z3.And(n1 == n0 + 1, NW(c1) == cc(NW(c0), NW(sink(c.entry, c, "cell")[1]))))

    def cell_sq(c):
        """</td>: the buffered data chunks stay separated by whitespace in the cell text.  (The buffer does not record which
        chunks a block / line-break boundary separates, so every chunk boundary must be whitespace.)  This clause depends on
        how the parser represents a cell; a `sat` is therefore confirmed natively (epub.tables) before it counts."""
        if R is None:
            raise X.Unsupported("roles")
        c.st.assume(X.ABSTRACTED)
        (_n0, _c0, l0), (_n1, _c1, l1) = sink(c.entry, c, "row"), sink(c.st, c, "row")
        return z3.Implies(closing_cell(c), l1 == X.SQ_cat(l0, lit(" "), T.SQTRIM(sink(c.entry, c, "cell")[2])))

    out = []
    norm = find_fn(C.EPUB, f"{C.ECLS}._normalize_ws", mentions=["split", "join"], nparams=1)
    # (round 7) VERIFIED on the real body, given the assumed models of str.split() / ' '.join / strip: nothing but whitespace
    # changes, inner runs collapse, outer whitespace goes.  Call sites name the result strip(ws_sub(value)): of that term only
    # nw(.) == nw(value), sq(.) == trim(sq(value)) and emptiness <=> blank are ever used, and these are the clauses proved here.
    nv = lambda c: c.args["value"].t
    out.append(under(
        C.EPUB, f"{C.ECLS}._normalize_ws", norm,
        params=[("self", Maker(lambda ex, st, n: VUnk(n), desc="receiver (static method)")), ("value", P_STR)],
        result_maker=lambda ex, st, ctx: VStr(T.STRIP(T.WSSUB(ctx.args["value"].t))),
        ensures=[("nw(result)==nw(value)", X.robust(lambda c: NW(c.result.t) == NW(nv(c)))),
                 ("sq(result)==trim(sq(value))", X.robust(lambda c: z3.Implies(NW(nv(c)) != lit(""), SQ(c.result.t) == T.trim(SQ(nv(c)))))),
                 ("result-empty-iff-value-blank", X.robust(lambda c: (z3.Length(c.result.t) == 0) == (NW(nv(c)) == lit(""))))],
        note="' '.join(v.split()).strip() collapses whitespace runs to one blank and strips the ends (assumed models: str.split(), str.join, str.strip)"))
    for name, extra in (("handle_starttag", [("tag", P_STR), ("attrs", P_ATTRS)]), ("handle_endtag", [("tag", P_STR)]), ("handle_data", [("data", P_STR)])):
        ens = [("inside-removed-markup-text-sinks-and-layout-state-untouched", X.robust(e_untouched))]
        if name == "handle_data":
            ens.append(("visible-data-stored-exactly-once-in-the-sink-of-its-context", X.robust(data_once)))
        if name == "handle_endtag":
            ens.append(("closed-cell-holds-the-buffered-data", X.robust(cell_nw)))
            ens.append(("buffered-chunks-stay-separated-in-the-cell-text", X.robust(cell_sq)))          # last: marks the path (see cell_sq)
        out.append(FnContract(target=f"{C.EPUB}::{C.ECLS}.{name}", params=[("self", self_maker())] + extra, ensures=ens, modifies=("self",),
                              raises=[Raises("Exception", sub=True)]))
    return out


def builder_contracts(reg):
    C = _C17
    reg.ext_models["str.lower"] = C.m_lower
    # split(sep ...) -> C17's opaque list (tree builder); the argument-less split() on a symbolic string -> the words model (round 7)
    reg.ext_models["str.split"] = lambda ex, st, args, kwargs, node: (X.m_split if len(args) == 1 and not kwargs and isinstance(args[0], VStr) else C.m_split)(ex, st, args, kwargs, node)
    reg.method_models[("HTMLParserBase", "__init__")] = lambda ex, st, obj, a, k, n: [(st, NONE)]
    P_STR = Maker(lambda ex, st, name: VStr(z3.String(name)), desc="str")
    P_ATTRS = Maker(lambda ex, st, name: VExt("AttrList"), desc="list of (name, value|None) pairs")

    def sd0(c):
        return c.entry.obj(c.args["self"].ref).data["skip_depth"].t

    def req(c):
        d = c.st.obj(c.args["self"].ref).data
        r0 = frozenset(v.ref for v in (d["root"], d["last_closed"]) if isinstance(v, VRef))
        c.st.ghost["reach0"] = r0
        c.entry.ghost["reach0"] = r0
        return sd0(c) >= 0

    def untouched(c):
        return z3.Implies(sd0(c) > 0, C.frame(c, C.skip_fields(C.HTML, C.HCLS, c.ex.module.repo)))

    def at_insertion_point(c):
        """skip_depth == 0: exactly one slot changes: last_closed.tail (if any) else stack[-1].text, by appending the data."""
        d0 = c.entry.obj(c.args["self"].ref).data
        ch = C.changes(c, C.skip_fields(C.HTML, C.HCLS, c.ex.module.repo))
        if len(ch) != 1:
            return z3.Implies(sd0(c) == 0, z3.BoolVal(False))
        ref, k, a, b = ch[0]
        if not (isinstance(a, VStr) and isinstance(b, VStr)):
            return z3.Implies(sd0(c) == 0, z3.BoolVal(False))
        lc = d0["last_closed"]
        if isinstance(lc, VRef):
            where = ref == lc.ref and k == "tail"
        else:
            so = c.st.heap[d0["stack"].ref]
            top = (so.data["tail"][-1] if so.data["tail"] else so.data["mat"]) if so.kind == "olist" else None
            where = isinstance(top, VRef) and ref == top.ref and k == "text"
        return z3.Implies(sd0(c) == 0, z3.And(z3.BoolVal(bool(where)), b.t == z3.Concat(a.t, c.args["data"].t)))

    out = []
    for name, extra in (("handle_starttag", [("tag", P_STR), ("attrs", P_ATTRS)]), ("handle_endtag", [("tag", P_STR)]),
                        ("handle_data", [("data", P_STR)]), ("handle_comment", [("data", P_STR)])):
        ens = [("inside-removed-markup-tree-and-insertion-point-untouched", X.robust(untouched))]
        if name == "handle_data":
            ens.append(("visible-data-appended-at-the-insertion-point", X.robust(at_insertion_point)))
        if name == "handle_comment":
            ens = [("comments-change-nothing", X.robust(lambda c: C.frame(c, ())))]
        out.append(FnContract(target=f"{HTML}::_HtmlTreeBuilder.{name}", params=[("self", C.html_self())] + extra, requires=req,
                              ensures=ens, modifies=("self",)))

    # EPUB chapter walker: removed-markup discipline, and where visible data goes (running text / title / open table cell;
    # table cells are documented through iterate_tables()).  The parser's fields are found by the role they play.
    out += epub_walker_contracts(reg, P_STR, P_ATTRS)
    return out


# =====================================================================================
# RTF group walker  --  rtf_extractor.py::_RtfParser._strip_rtf_full_with_pages  (destination skipping)
#
# Statement: "content of removed markup never appears" / headers, footers, pictures, objects ... are destinations whose
# whole group is invisible.  Two-state property of ONE iteration of the character loop, from an arbitrary state
# (g = group_depth, on = skip_group, d = skip_depth):
#   a skip starts only on entering a group and targets that group:      not on and on'  ->  g' == g + 1 and d' == g'
#   while skipping, the target is never changed and the skip ends only
#   with the closing brace of the group that started it:                on -> (on' and d' == d) or (not on' and g == d and g' == g - 1)
#   while skipping nothing is emitted:                                   on -> result, current_page unchanged
# =====================================================================================
RTF = "sharepoint2text/parsing/extractors/ms_legacy/rtf_extractor.py"
IS_SKIP = z3.Function("rtf.is_skip_destination", S, B)


# ---- (round 7) the destination test itself under contract ------------------------------------------------
# Statement: "text that the documentation excludes from the default full text (... headers/footers ...) never appears",
# "no text that is neither in the source ..." (font / colour / style tables, document info, picture data are not body
# text) and "nothing lost": a group is skipped ONLY when it is an ignorable destination ({\* ...}) or starts with a
# control word of the class's own destination table.  The table is a class constant; it is read from the source on
# every run (not transcribed here), the always-excluded destinations are written down from the statement.
RTF_EXCLUDED = ("header", "footer", "fonttbl", "colortbl", "stylesheet", "info", "pict")      # (headerl/r/f, footerl/r/f start with header / footer)


def _is_call_site(c, owner):
    return getattr(c.ex, "contract", None) is not owner or c.ex.inline_depth > 0 or getattr(c.ex, "in_apply", 0) > 0


def rtf_skip_table(fn_qual):
    """(attribute name, items) of the class-level table of str the destination test reads through `self`; None when
    there is no single such table or it is not a literal (then the test stays an ASSUMED uninterpreted predicate)."""
    import ast
    from pyvc import loader
    try:
        mod = loader.module(RTF)
        fn = mod.functions.get(fn_qual)
        cls = mod.classes.get(fn_qual.rsplit(".", 1)[0]) if "." in fn_qual else None
        if fn is None or cls is None or not fn.args.args:
            return None
        me = fn.args.args[0].arg
        used = {x.attr for x in ast.walk(fn) if isinstance(x, ast.Attribute) and isinstance(x.value, ast.Name) and x.value.id == me}
        tables = {}
        for node in cls.body:
            tgt = node.targets[0] if isinstance(node, ast.Assign) and len(node.targets) == 1 else (node.target if isinstance(node, ast.AnnAssign) else None)
            if isinstance(tgt, ast.Name) and tgt.id in used and getattr(node, "value", None) is not None:
                v = node.value
                if isinstance(v, ast.Call) and isinstance(v.func, ast.Name) and v.func.id in ("frozenset", "set", "tuple", "list") and len(v.args) == 1 and not v.keywords:
                    v = v.args[0]
                try:
                    items = ast.literal_eval(v)
                except (ValueError, SyntaxError):
                    return None
                if not isinstance(items, (set, frozenset, tuple, list)) or not all(isinstance(x, str) for x in items):
                    return None
                tables[tgt.id] = sorted(set(items))
        if len(tables) != 1:
            return None
        return next(iter(tables.items()))
    except Exception:  # noqa
        return None


def rtf_skip_contract(ISSKIP, sk_):
    """VERIFIED contract of `_RtfParser._is_skip_destination` (None: the table is not a literal; the predicate stays assumed)."""
    from pyvc.values import VSetC
    tab = rtf_skip_table(ISSKIP)
    if tab is None or not sk_.ok:
        return None
    attr, items = tab
    bs = lit("\\")

    def spec(a):
        return z3.Or([z3.PrefixOf(lit("\\*"), a)] + [z3.PrefixOf(cc(bs, lit(k)), a) for k in items])

    own = []

    def returns(c):
        a = sk_(c, "ahead").t
        if _is_call_site(c, own[0]):
            return VBool(IS_SKIP(a))          # call-site view: a function of the lookahead (implied: the table is a constant)
        return VBool(spec(a))

    def excluded(d):
        return lambda c: z3.Implies(z3.PrefixOf(lit("\\" + d), sk_(c, "ahead").t),
                                    z3.BoolVal(True) if _is_call_site(c, own[0]) else (c.result.t if isinstance(c.result, VBool) else z3.BoolVal(False)))

    p_self = p_obj("_RtfParser", {attr: Maker(lambda ex, st, n: VSetC(items, name=attr), desc=f"the class constant {attr} ({len(items)} control words, read from the source)")})
    con = under(
        RTF, "_RtfParser._is_skip_destination", ISSKIP,
        params=sk_.params({"self": p_self, "ahead": p_str()}),
        returns=returns,
        ensures=[(f"excluded-destination-is-skipped[{d}]", X.robust(excluded(d))) for d in RTF_EXCLUDED],
        note="result == (lookahead starts with `\\*` or with `\\` + a control word of the class's destination table); headers, footers and the "
             "non-text destinations of the statement are skipped whatever the table says.  Call sites see the result as an (uninterpreted) "
             "function of the lookahead, which this contract implies",
    )
    own.append(con)
    return con


def rtf_contracts():
    unk = lambda: Maker(lambda ex, st, n: VUnk(n), desc="any")
    p_self = p_obj("_RtfParser", {"pages": unk(), "SPECIAL_CHARS": unk(), "SKIP_DESTINATIONS": unk()})
    ISSKIP = find_fn(RTF, "_RtfParser._is_skip_destination", mentions=["SKIP_DESTINATIONS", "startswith"], nparams=2)
    WALK = find_fn(RTF, "_RtfParser._strip_rtf_full_with_pages", mentions=["SPECIAL_CHARS", "pages"], calls=[ISSKIP], nparams=2)
    sk_ = Sig(RTF, ISSKIP, ["self", "ahead"])
    isskip = FnContract(target=f"{RTF}::{ISSKIP}", params=sk_.params({"self": p_self, "ahead": p_str()}), assumed=True,
                        returns=lambda c: VBool(IS_SKIP(sk_(c, "ahead").t)),
                        note="fallback only (the destination table is not a literal class constant): which control words are destinations is uninterpreted")
    try:
        isskip_v = rtf_skip_contract(ISSKIP, sk_)      # round 7: VERIFIED; its call-site view is the same uninterpreted predicate
    except Exception:  # noqa
        isskip_v = None
    if isskip_v is not None:
        isskip = isskip_v

    def roles():
        """The walker's state variables, found by what they do, not by name: in the branch guarded by the
        `_is_skip_destination(...)` test a flag is set to True and the skip depth is set to the group depth; the output
        lists are the str lists the character loop appends to."""
        import ast
        from pyvc import loader
        fn = loader.module(RTF).functions.get(WALK)
        if fn is None:
            raise X.Unsupported("walker not found")
        for n in ast.walk(fn):
            if isinstance(n, ast.If) and any(isinstance(x, ast.Call) and isinstance(x.func, ast.Attribute) and x.func.attr == ISSKIP.rsplit(".", 1)[-1]
                                             for x in ast.walk(n.test)):
                flag = [x.targets[0].id for x in n.body if isinstance(x, ast.Assign) and isinstance(x.targets[0], ast.Name)
                        and isinstance(x.value, ast.Constant) and x.value.value is True]
                dep = [(x.targets[0].id, x.value.id) for x in n.body if isinstance(x, ast.Assign) and isinstance(x.targets[0], ast.Name)
                       and isinstance(x.value, ast.Name)]
                if len(flag) == 1 and len(dep) == 1:
                    return flag[0], dep[0][0], dep[0][1]
        raise X.Unsupported("walker state variables not recognised")

    def vars_(lc):
        on_n, d_n, g_n = roles()
        g, on, d = lc[g_n], lc[on_n], lc[d_n]
        if not (isinstance(g, VInt) and isinstance(on, VBool) and isinstance(d, VInt)):
            raise X.Unsupported("walker state variables not of the expected kinds")
        from pyvc import ops
        return ops.int_term(g), on.t, ops.int_term(d)

    def outs(lc):
        fr = lc.st.frames[0]
        refs = sorted({v.ref for v in fr.env.values() if _is_strlist(lc.st, v)})
        if not refs:
            raise X.Unsupported("output lists not recognised")
        return [_sl(lc.st, VRef(r))[:2] for r in refs]

    def step(a, b):
        g0, on0, d0 = vars_(a)
        g1, on1, d1 = vars_(b)
        same = z3.And([z3.And(x[0] == y[0], x[1] == y[1]) for x, y in zip(outs(a), outs(b))])
        return Conj([("skip-starts-on-entering-a-group-and-targets-it", z3.Implies(z3.And(z3.Not(on0), on1), z3.And(g1 == g0 + 1, d1 == g1))),
                     ("skip-target-fixed-and-ends-at-its-own-closing-brace",
                      z3.Implies(on0, z3.Or(z3.And(on1, d1 == d0), z3.And(z3.Not(on1), g0 == d0, g1 == g0 - 1)))),
                     ("nothing-emitted-while-skipping", z3.Implies(on0, same))])

    decode = FnContract(target=f"{RTF}::_decode_unicode_run", params=[("run", unk())], assumed=True,
                        result_maker=lambda ex, st, ctx: VStr(z3.String(fresh_name("decoded"))), note="\\uN decoding: some string (C04 decides which)")
    spec = LoopSpec(label="characters")
    spec.step = step
    sw = Sig(RTF, WALK, ["self", "text"])
    walker = under(
        RTF, "_RtfParser._strip_rtf_full_with_pages", WALK,
        params=sw.params({"self": p_self, "text": p_str()}),
        ensures=[need_loops("characters")],
        raises=[Raises("Exception", sub=True)],
        modifies=(sw.name["self"],),
        note="the three state variables of the walker and its output lists are identified by role (see roles())",
    )

    def walker_loops(ex, st, node, it):
        import ast
        if isinstance(node, ast.While) and any(isinstance(x, ast.Call) and isinstance(x.func, ast.Attribute) and x.func.attr == ISSKIP.rsplit(".", 1)[-1]
                                               for x in ast.walk(node)):
            return matched(ex, spec)
        return None
    walker.loop_match = walker_loops
    return [isskip, decode, walker]


def contracts(reg):
    X.install(reg)
    X.register_untrusted()
    out = []
    out += odf_contracts(reg)
    out += docx_contracts()
    out += pptx_contracts()
    out += dt_contracts(reg)
    out += html_contracts(reg)
    out += xls_contracts()
    out += builder_contracts(reg)
    out += rtf_contracts()
    for c_ in out:
        for _l, f_ in c_.ensures:
            if getattr(f_, "needs_owner", False):
                f_.owner = c_
    return out


# =====================================================================================
# Known answers (guard the transcription of the spec functions): the z3 spec, fully unfolded over a concrete
# tree given by ground facts, must equal the text the statement prescribes for that tree (computed by the
# independent Python transcription in replay/c02_trees.py).
# =====================================================================================
def ground_tree(root, find_tags=()):
    """(root term, ground facts, [(node, term)]) describing a concrete replay.c02_trees.Node tree in the etree model."""
    facts, nodes = [], []

    def rec(n):
        e = z3.Const(f"ka{len(nodes) + 1}", ELEM)
        nodes.append((n, e))
        facts.extend([TAG(e) == lit(n.tag), TEXT_NONE(e) == z3.BoolVal(n.text is None), TEXT(e) == lit(n.text or ""),
                      TAIL_NONE(e) == z3.BoolVal(n.tail is None), TAIL(e) == lit(n.tail or ""), NCH(e) == len(n.children)])
        for k, v in n.attrib.items():
            facts.extend([ATTR_HAS(e, lit(k)), ATTR(e, lit(k)) == lit(v)])
        kids = [rec(c) for c in n.children]
        for i, c in enumerate(kids):
            facts.append(CH(e, i) == c)
        for t in find_tags:
            idx = next((i for i, c in enumerate(n.children) if c.tag == t), None)
            facts.append(FIND_NONE(e, lit(t)) == z3.BoolVal(idx is None))
            if idx is not None:
                facts.append(FIND_IDX(e, lit(t)) == idx)
        return e
    r = rec(root)
    return r, facts, nodes


def ground_defs(nodes, per_node, per_prefix):
    """Definition instances at every node and at every child prefix 0..n of a concrete tree."""
    out = []
    for n, e in nodes:
        for f in per_node:
            out.extend(f(e))
        for k in range(len(n.children) + 1):
            for f in per_prefix:
                out.extend(f(e, z3.IntVal(k)))
    return out


def lemmas():
    from replay import c02_trees as TR
    N, W, MC = TR.N, TR.W, TR.MC
    out = []
    # ---- ODF ---------------------------------------------------------------------------------
    cfg = (lit(TR.T_S), lit(TR.T_TAB), lit(TR.T_LB), lit(TR.T_C))
    SK = z3.Const("ka.skip", STRSET)
    odf = {
        "spaces-tab-break": N(TR.T_P, N(TR.T_S, tail="b", **{TR.T_C: "3"}), N(TR.T_TAB, tail="c"), N(TR.T_LB), N(TR.T_S), text="a"),
        "skipped-note-keeps-tail": N(TR.T_P, N(TR.T_NOTE, N(TR.T_P, text="NOTE"), tail="after"), text="before"),
        "nested-span": N(TR.T_P, N(TR.T_SPAN, N(TR.T_SPAN, N(TR.T_TAB), text="in", tail="t1"), text="s", tail="t2")),
        "bad-count-is-one-zero-is-nothing": N(TR.T_P, N(TR.T_S, tail="x", **{TR.T_C: "zz"}), N(TR.T_S, tail="y", **{TR.T_C: "0"})),
    }
    for name, tree in odf.items():
        root, facts, nodes = ground_tree(tree)
        tags = {n.tag for n in tree.walk()}
        facts += [MEMBER(SK, lit(t)) == z3.BoolVal(t == TR.T_NOTE) for t in tags]
        facts += [T.INT_OK(lit("3")), T.INT_VAL(lit("3")) == 3, z3.Not(T.INT_OK(lit("zz"))), T.INT_OK(lit("0")), T.INT_VAL(lit("0")) == 0,
                  T.REP(lit(" "), z3.IntVal(3)) == lit("   "), T.REP(lit(" "), z3.IntVal(1)) == lit(" ")] + T.GLOBAL_AXIOMS
        facts += [z3.Not(ATTR_HAS(e, lit(TR.T_C))) for n, e in nodes if TR.T_C not in n.attrib]
        facts += ground_defs(nodes, [lambda e: _odf_text_def(e, *cfg, SK), lambda e: _odf_item_def(e, *cfg, SK)],
                             [lambda e, k: _odf_kids_def(e, k, *cfg, SK)])
        goal = ODF_TEXT(root, *cfg, SK) == lit(TR.odf_text(tree, skip=frozenset({TR.T_NOTE})))
        out.append((f"C02/spec::odf_text/lemma#known-answer.{name}", facts, goal))
    # ---- DOCX ----------------------------------------------------------------------------------
    wt, wr, wp = TR.wt, TR.wr, TR.wp
    docx = {
        "tab-and-break-are-whitespace": wp(wr(wt("A"), N(W + "tab"), wt("B"), N(W + "br"), wt("C"))),
        "deletion-and-move-source-excluded": wp(wr(wt("K")), N(W + "del", wr(N(W + "delText", text="GONE"))), N(W + "moveFrom", wr(wt("MOVED"))),
                                                N(W + "ins", wr(wt("INS")))),
        "content-control-and-hyperlink-transparent": wp(N(W + "sdt", N(W + "sdtContent", wr(wt("S")))), N(W + "hyperlink", wr(wt("L")))),
        "choice-only-and-nested-paragraphs": wp(wr(wt("H")), wr(N(MC + "AlternateContent",
                                                 N(MC + "Choice", N(W + "txbxContent", TR.wpara("B1"), TR.wpara("B2"))),
                                                 N(MC + "Fallback", N(W + "txbxContent", TR.wpara("B1"), TR.wpara("B2"))))), wr(wt("T"))),
        "vml-text-box-is-visible": wp(wr(N(W + "pict", N(W + "txbxContent", TR.wpara("BOX"))))),
    }
    # the case lists that split clauses into separately identified obligations are exhaustive (otherwise a case would go unchecked)
    tg = z3.String("t!cases")
    for nm, cases in (("element", ELEM_CASES), ("run-child", RUN_CHILD_CASES), ("body-child", BODY_CHILD_CASES)):
        out.append((f"C02/spec::cases/lemma#exhaustive.{nm}", [], z3.Or([g(tg) for _n, g in cases])))
    inc = z3.BoolVal(True)
    for name, tree in docx.items():
        root, facts, nodes = ground_tree(tree, find_tags=(MC + "Choice", M_ + "oMath"))
        facts += T.GLOBAL_AXIOMS
        want = TR.docx_par(tree)
        atoms = sorted({n.text for n in tree.walk() if n.text})
        facts += [T.NWF(lit(a)) == lit(T.nw_lit(a)) for a in atoms] + [T.SQF(lit(a)) == lit(T.sq_lit(a)) for a in atoms]
        # sq image in D-form: every boundary contributes its own blank (leaf texts here contain no whitespace)
        dform = lambda s_: "".join(" " if ch.isspace() else ch for ch in s_)
        for nm, D, h, f in (("nw", DXN, NW, T.nw_lit), ("sq", DXS, SQ, dform)):
            defs = ground_defs(nodes, [lambda e, D=D: D._f(e, inc)], [lambda e, k, D=D: D._kids(e, k, inc, hint=False), lambda e, k, D=D: D._run(e, k, inc)])   # (ground: dx is defined at every node)
            goal = D.all_kids(root, inc) == lit(f(want))
            out.append((f"C02/spec::dx_{nm}/lemma#known-answer.{name}", facts + defs, goal))
    return out


# =====================================================================================
# BOUNDED stand-ins (DESIGN 2.8) and document-level generator: run natively on the real code
# (replay/C02.py under /venv/bin/python).  A counterexample is a refuted obligation with its
# witness; an exhaustive run without counterexample is reported as `bounded-ok`, never as proved.
# =====================================================================================
FUNC_OF_CHECK = {
    "docx.table": "docx_extractor.py::_extract_table_text",
    "odt.body": "odt_extractor.py::_extract_full_text",
    "html.extract": "html_extractor.py::_HtmlTextExtractor.extract",
    "ods.sheet": "ods_extractor.py::_extract_sheet",
    "xlsx.format": "xlsx_extractor.py::_format_sheet_as_text",
    "xls.format": "xls_extractor.py::_format_sheet_as_text",
    "odf.element_text": "_shared.py::element_text",
    "odg.text": "odg_extractor.py::_extract_full_text",
    "pptx.paragraphs": "pptx_extractor.py::_extract_text_from_paragraphs",
    "odp.slide": "odp_extractor.py::_extract_slide",
    "html.source": "html_extractor.py::read_html",
    "rtf.source": "rtf_extractor.py::read_rtf",
    "pptx.shapes": "pptx_extractor.py::read_pptx",
    "plain.decode": "plain_extractor.py::read_plain_text",
    "epub.tables": "epub_extractor.py::read_epub.iterate_tables",
    "odp.tables": "odp_extractor.py::read_odp.iterate_tables",
    "epub.source": "epub_extractor.py::read_epub",
    "rtf.unicode": "rtf_extractor.py::_decode_unicode_run",
    "rtf.skip": "rtf_extractor.py::_RtfParser._is_skip_destination",
    "dt.units": "data_types.py::_join_unit_text",
}

# (round 7) functions whose contract is VERIFIED while their body has the shape the contract is written for and that fall back to
# "assumed at call sites + bounded token check" otherwise: (function, in-subset test, bounded check).  In the fallback the ids of
# the verified contract are reported with the verdict of the bounded check -- status bounded-ok, never counted as discharged.
VERIFIED_OR_BOUNDED = [
    ("docx_extractor.py::_extract_table_text",
     lambda: table_nest_shape(DOCX, find_fn(DOCX, "_extract_table_text", mentions=["W_TR", "W_TC"], nparams=2)), "docx.table"),
]


def _fallback_obligations(res):
    import json
    import os
    out = []
    for fn, in_subset, check in VERIFIED_OR_BOUNDED:
        try:
            if in_subset():
                continue
            root = os.path.dirname(os.path.dirname(os.path.abspath(__file__)))
            lock = json.load(open(os.path.join(root, "obligations.lock.json"))).get("C02", {})
            kf = json.load(open(os.path.join(root, "known_findings.json"))).get("findings", [])
            recorded = {o.split("#tokens[", 1)[1][:-1] for f in kf if f.get("property") == "C02"
                        for o in f.get("covers", [f.get("obligation", "")]) if o.startswith(f"C02/{fn}/bounded#tokens[")}
            cases = [r for case, r in res.get(check, {}).items() if not case.startswith("<") and case not in recorded]
            bad = next((r["witness"] for r in cases if r["failures"]), None)
            for oid in lock:
                if oid.startswith(f"C02/{fn}/") and "/bounded#" not in oid and "/inv-" not in oid:
                    out.append(dict(_ob(oid, bad is None and bool(cases), sum(r["checked"] for r in cases), bad), bounded=True))
        except Exception:  # noqa
            continue
    return out


def run_native(repo, *args, timeout=900):
    import json
    import os
    import subprocess
    root = os.path.dirname(os.path.dirname(os.path.abspath(__file__)))
    p = subprocess.run(["/venv/bin/python", os.path.join(root, "replay", "C02.py")] + list(args), capture_output=True, text=True,
                       timeout=timeout, cwd=root, env=dict(os.environ, VERIF_REPO=repo))
    lines = [l for l in p.stdout.splitlines() if l.startswith("{")]
    if not lines:
        raise RuntimeError("native replayer produced no result: " + (p.stderr or p.stdout)[-800:])
    return json.loads(lines[-1])


def _ob(oid, ok, checked, witness, kind="bounded"):
    w = None
    if witness is not None:
        w = {k: witness.get(k) for k in ("target", "inputs", "expected", "observed", "kinds", "lost", "duplicated", "leaked", "merged", "error") if witness.get(k) is not None}
    return {"id": oid, "kind": kind, "status": "bounded-ok" if ok else "refuted", "vcs": checked, "seconds": 0.0, "backends": {"native-small-scope": 1},
            "witness": w, "reason": "" if ok else "counterexample found by exhaustive small-scope run on the real code: " + ",".join((witness or {}).get("kinds", [])),
            "loc": "replay/C02.py"}


def _native_cache(pid):
    import os
    root = os.path.dirname(os.path.dirname(os.path.abspath(__file__)))
    return os.path.join(root, "out", f"c02_native_{pid}.json")


def bounded_native(repo, tier):
    res = run_native(repo, "bounded")
    try:            # the known-findings hook of the same ./check run (our parent process) replays the same witnesses: hand the results over
        import json
        import os
        os.makedirs(os.path.dirname(_native_cache(0)), exist_ok=True)
        with open(_native_cache(os.getppid()), "w") as fh:
            json.dump({"repo": repo, "res": res}, fh)
    except OSError:
        pass
    obls, errors = [], []
    for check, fn in FUNC_OF_CHECK.items():
        for case, r in res.get(check, {}).items():
            if case == "<error>":
                errors.append({"function": fn, "error": r.get("error", "")[-600:]})
                continue
            if case == "<unresolved>":
                # the function this stand-in exercises is gone (renamed / restructured): its obligations are undecided, not dropped
                import json
                import os
                lock = json.load(open(os.path.join(os.path.dirname(os.path.dirname(os.path.abspath(__file__))), "obligations.lock.json"))).get("C02", {})
                for oid in lock:
                    if oid.startswith(f"C02/{fn}/bounded#"):
                        obls.append({"id": oid, "kind": "bounded", "status": "unknown", "vcs": 0, "seconds": 0.0, "backends": {"native-small-scope": 1},
                                     "witness": None, "reason": "UNKNOWN-SHAPE: " + r.get("error", ""), "loc": "replay/C02.py", "bounded": True})
                continue
            obls.append(_ob(f"C02/{fn}/bounded#tokens[{case}]", r["failures"] == 0, r["checked"], r["witness"]))
    for fmt, feats in res.get("documents", {}).items():
        for feat, r in feats.items():
            if r.get("unsupported"):
                continue
            obls.append(_ob(f"C02/api::{fmt}.get_full_text/document#tokens[{feat}]", bool(r.get("ok")), 1, None if r.get("ok") else r, kind="document"))
    obls.extend(_fallback_obligations(res))
    m = res.get("model", {})
    obls.append(_ob("C02/etree_model::Element/bounded#agrees-with-xml.etree", not m.get("mismatches"), m.get("trees", 0),
                    {"target": "xml.etree.ElementTree", "inputs": str(m.get("mismatches"))[:500], "kinds": ["model"]} if m.get("mismatches") else None))
    return {"obligations": obls, "functions": [], "errors": errors}


# =====================================================================================
# Code fragments under contract (real AST, symbolic execution of one loop iteration).
#
# odp_extractor._extract_slide, text-box paragraph loop.  Statement: every visible paragraph of a slide appears
# exactly once in the slide text (title / body_text / other_text, which text_combined concatenates); comment
# paragraphs and blank ones contribute nothing; speaker notes go to `notes` only.
#   one iteration on paragraph p, text = strip(odf_text(p)):
#     excluded(p) or text == ""  ->  title, body_text, other_text unchanged
#     otherwise exactly one of:    title' == text (only when no title was found before; found_title' holds)
#                                  body_text'  == body_text  + [text]
#                                  other_text' == other_text + [text]          and the other two unchanged
#   coupling kept by every iteration:  found_title  <=>  title != ""
# =====================================================================================
ODP = "sharepoint2text/parsing/extractors/open_office/odp_extractor.py"
_ODF_TEXT_NS = "{urn:oasis:names:tc:opendocument:xmlns:text:1.0}"
_ODF_STD = (_ODF_TEXT_NS + "s", _ODF_TEXT_NS + "tab", _ODF_TEXT_NS + "line-break", _ODF_TEXT_NS + "c")     # ODF 1.2 names, not read from the code
ODP_SKIP = X.const_strset(["{urn:oasis:names:tc:opendocument:xmlns:office:1.0}annotation"])                 # comments are not slide text


def _iter_p_loops(fnode):
    import ast
    out = []
    for n in ast.walk(fnode):
        if isinstance(n, ast.For) and isinstance(n.iter, ast.Call) and isinstance(n.iter.func, ast.Attribute) and n.iter.func.attr in ("iter", "findall", "iterfind") \
                and len(n.iter.args) >= 1 and isinstance(n.target, ast.Name):
            stores = {ast.unparse(x.func.value) for x in ast.walk(n) if isinstance(x, ast.Call) and isinstance(x.func, ast.Attribute) and x.func.attr == "append"}
            stores |= {ast.unparse(t) for x in ast.walk(n) if isinstance(x, ast.Assign) for t in x.targets if isinstance(t, ast.Attribute)}
            out.append((n, stores))
    return out


ODP_BLOCK_IDS = ["slide-text.visible-paragraph-stored-exactly-once", "slide-text.comment-or-blank-paragraph-stored-nowhere", "slide-text.notes-untouched",
                 "slide-text.found_title<=>title-set", "speaker-notes.speaker-notes-never-reach-the-slide-text"]
PPTX_BLOCK_IDS = ["shape-text.visible-shape-text-enters-the-slide-text-exactly-once", "shape-text.footer-date-header-placeholders-stay-out"]


def _unknown(prefix, labels, why, fn):
    """The fragment was not recognised / not executable: its obligations are reported `unknown` under their usual ids (the
    native replayer decides), never dropped and never refuted."""
    return [{"id": prefix + l, "kind": "block", "status": "unknown", "vcs": 0, "seconds": 0.0, "backends": {"shape": 1}, "witness": None,
             "reason": "UNKNOWN-SHAPE: " + why, "loc": fn, "function": fn} for l in labels]


def _flag_names(loop):
    import ast
    return sorted({t.id for x in ast.walk(loop) if isinstance(x, ast.Assign) and isinstance(x.value, ast.Constant) and x.value.value is True
                   for t in x.targets if isinstance(t, ast.Name)})


def _idset_names(loop):
    import ast
    out = set()
    for x in ast.walk(loop):
        if isinstance(x, ast.Compare) and len(x.ops) == 1 and isinstance(x.ops[0], (ast.In, ast.NotIn)) and isinstance(x.comparators[0], ast.Name) \
                and isinstance(x.left, ast.Call) and isinstance(x.left.func, ast.Name) and x.left.func.id == "id":
            out.add(x.comparators[0].id)
    return sorted(out)


def _fragment_hosts(mod, fnode, depth=2):
    """`fnode` and the module-level functions it calls by plain name (transitively, `depth` levels), in call order."""
    import ast
    out, seen, level = [fnode], {fnode.name}, [fnode]
    for _ in range(depth):
        nxt = []
        for f in level:
            for c in ast.walk(f):
                if isinstance(c, ast.Call) and isinstance(c.func, ast.Name) and c.func.id not in seen and c.func.id in mod.functions:
                    seen.add(c.func.id)
                    nxt.append(mod.functions[c.func.id])
        out += nxt
        level = nxt
    return out


def _state_threaded(caller, helper, objs, flags):
    """A loop that lives in `helper` keeps the meaning it had inline only if the state it works on is the caller's: the
    objects `objs` (mutated in place) and the scalars `flags` (updated by assignment) must be parameters of the helper, every
    call passes plain names, and every flag comes back: the helper returns it on every path and each call site stores the
    result in the very name it passed.  Returns None when that is so, else the reason (the caller reports `unknown`)."""
    import ast
    a = helper.args
    if a.vararg or a.kwarg:
        return "star parameters"
    params = [x.arg for x in a.posonlyargs + a.args + a.kwonlyargs]
    for n in list(objs) + list(flags):
        if n not in params:
            return f"{n} is not a parameter"
    if len(flags) > 1:
        return "more than one flag"
    own = [x for x in ast.walk(helper) if isinstance(x, (ast.FunctionDef, ast.AsyncFunctionDef, ast.Lambda)) and x is not helper]
    inner = {id(y) for f in own for y in ast.walk(f)}
    rets = [x for x in ast.walk(helper) if isinstance(x, ast.Return) and id(x) not in inner]
    if any(isinstance(x, (ast.Yield, ast.YieldFrom)) for x in ast.walk(helper)):
        return "generator"
    if flags:
        if not rets or not isinstance(helper.body[-1], ast.Return):
            return "flag not returned at the end"
        if any(not (isinstance(r.value, ast.Name) and r.value.id == flags[0]) for r in rets):
            return "a return does not give the flag back"
    calls = [c for c in ast.walk(caller) if isinstance(c, ast.Call) and isinstance(c.func, ast.Name) and c.func.id == helper.name]
    if not calls:
        return "not called directly"
    stored = {id(s.value): s for s in ast.walk(caller) if isinstance(s, ast.Assign) and len(s.targets) == 1 and isinstance(s.targets[0], ast.Name)}
    for c in calls:
        if any(isinstance(x, ast.Starred) for x in c.args) or any(k.arg is None for k in c.keywords):
            return "star arguments"
        bound = dict(zip([x.arg for x in a.posonlyargs + a.args], c.args))
        bound.update({k.arg: k.value for k in c.keywords})
        for n in list(objs) + list(flags):
            if not isinstance(bound.get(n), ast.Name):
                return f"argument for {n} is not a plain name"
        for fl in flags:
            s = stored.get(id(c))
            if s is None or s.targets[0].id != bound[fl].id:
                return "flag result not stored back into the name that was passed"
    return None


def fragment_obligations(repo, tier):
    from pyvc import loader
    from pyvc.contracts import Registry
    from pyvc.exctypes import Universe
    obls, fns, undecided = [], [], []
    reg = Registry()
    for c in contracts(reg):
        reg.add(c)
    uni = Universe(repo)
    pre = "C02/odp_extractor.py::_extract_slide/block#"
    try:
        r1 = odp_fragment(repo, reg, uni, pre)
    except Exception as e:  # noqa  (pack code met a shape it does not understand: undecided, not an engine error)
        r1 = {"obligations": _unknown(pre, ODP_BLOCK_IDS, f"{type(e).__name__}: {e}", f"{ODP}::_extract_slide"), "functions": []}
    pre2 = "C02/pptx_extractor.py::_process_slide_from_context/block#"
    try:
        r2 = pptx_fragment(repo, reg, uni, pre2)
    except Exception as e:  # noqa
        r2 = {"obligations": _unknown(pre2, PPTX_BLOCK_IDS, f"{type(e).__name__}: {e}", f"{PPTX}::_process_slide_from_context"), "functions": []}
    pre3 = "C02/ods_extractor.py::_extract_sheet/block#"
    try:
        r3 = ods_fragment(repo, reg, uni, pre3)
    except Exception as e:  # noqa
        r3 = {"obligations": _unknown(pre3, ODS_BLOCK_IDS, f"{type(e).__name__}: {e}", f"{ODS}::_extract_sheet"), "functions": []}
    pre4 = "C02/xls_extractor.py::read_xls/block#"
    try:
        r4 = xls_fulltext_fragment(repo, reg, uni, pre4)
    except Exception as e:  # noqa
        r4 = {"obligations": _unknown(pre4, XLS_BLOCK_IDS, f"{type(e).__name__}: {e}", f"{XLS}::read_xls"), "functions": []}
    for r, pfx, ids, fn in ((r1, pre, ODP_BLOCK_IDS, f"{ODP}::_extract_slide"), (r2, pre2, PPTX_BLOCK_IDS, f"{PPTX}::_process_slide_from_context"),
                            (r3, pre3, ODS_BLOCK_IDS, f"{ODS}::_extract_sheet"), (r4, pre4, XLS_BLOCK_IDS, f"{XLS}::read_xls")):
        have = {o["id"] for o in r["obligations"]}
        r["obligations"] += _unknown(pfx, [l for l in ids if pfx + l not in have], "fragment produced no verification condition for this clause", fn)
        obls += r["obligations"]
        fns += r.get("functions", [])
    obls += plain_policy(repo)
    return {"obligations": obls, "functions": fns, "undecided": undecided}


# plain_extractor._detect_and_decode: the decoded text must come from ALL the bytes and from an encoding judged on all of them
# (a detector that sees only a part of the file is blind to the rest: wrong codec -> characters lost / replaced).  Data-flow
# policy on the real AST: every detector call receives the content parameter itself.  Any other shape (a slice, a sample, a
# derived buffer) is not refuted here -- it is `unknown`, and the native search over large files decides.
def plain_policy(repo):
    import ast
    from pyvc import loader
    from pyvc.flow import ground_obligation
    PL = "sharepoint2text/parsing/extractors/plain_extractor.py"
    oid = "C02/plain_extractor.py::_detect_and_decode/policy#encoding-detected-on-the-whole-content"
    try:
        mod = loader.module(PL, repo)
        fn = mod.functions.get(find_fn(PL, "_detect_and_decode", mentions=["from_bytes", "decode"], nparams=1))
        if fn is None:
            return [dict(ground_obligation(oid, False, "decoder not found", PL, definite=False), function=f"{PL}::_detect_and_decode")]
        param = fn.args.args[0].arg
        calls = [n for n in ast.walk(fn) if isinstance(n, ast.Call) and isinstance(n.func, ast.Name) and n.func.id == "from_bytes"]
        rebound = any(isinstance(n, ast.Name) and n.id == param and isinstance(n.ctx, ast.Store) for n in ast.walk(fn))
        # other names of the same object: bound exactly once in the function, by `name = <content or such a name>`
        stores = {}
        for n in ast.walk(fn):
            if isinstance(n, ast.Name) and isinstance(n.ctx, ast.Store):
                stores[n.id] = stores.get(n.id, 0) + 1
        same = {param}
        for _ in range(4):
            for n in ast.walk(fn):
                if (isinstance(n, ast.Assign) and len(n.targets) == 1 and isinstance(n.targets[0], ast.Name) and stores.get(n.targets[0].id) == 1
                        and isinstance(n.value, ast.Name) and n.value.id in same):
                    same.add(n.targets[0].id)

        def subject(c):     # the detector's first positional argument, or its only keyword argument holding the data
            if c.args:
                return c.args[0]
            kw = [k.value for k in c.keywords if k.arg in ("sequences", "sequence", "data", "content")]
            return kw[0] if len(kw) == 1 else None
        ok = bool(calls) and not rebound and all(isinstance(subject(c), ast.Name) and subject(c).id in same for c in calls)
        why = "" if ok else "detector argument(s): " + ", ".join(ast.unparse(subject(c)) if subject(c) is not None else "?" for c in calls)
        return [dict(ground_obligation(oid, ok, why, PL, kind="policy", definite=False), function=f"{PL}::_detect_and_decode")]
    except Exception as e:  # noqa
        return [dict(ground_obligation(oid, False, f"{type(e).__name__}: {e}", PL, definite=False), function=f"{PL}::_detect_and_decode")]


# xls_extractor.read_xls: the expression that assembles the document's full text from the sheets.  Statement: the text of every
# sheet is part of get_full_text() (XlsContent.get_full_text returns this field), once, in sheet order -- whatever else a
# sheet object says about itself (its `data` rows may be empty although its text is not: the first row is the header).
XLS_BLOCK_IDS = ["full-text-holds-every-sheet-text"]


def xls_fulltext_fragment(repo, reg, uni, pre):
    import ast
    import builtins
    import itertools
    from pyvc import loader, verify
    from pyvc.state import Frame, State, HeapObj
    fq = f"{XLS}::read_xls"
    mod = loader.module(XLS, repo)
    fnode = mod.functions.get("read_xls")
    if fnode is None:
        return {"obligations": _unknown(pre, XLS_BLOCK_IDS, "function not found", fq)}
    sites = [k.value for n in ast.walk(fnode) if isinstance(n, ast.Call) for k in n.keywords if k.arg == "full_text"]
    if len(sites) != 1:
        return {"obligations": _unknown(pre, XLS_BLOCK_IDS, f"{len(sites)} full_text= site(s)", fq)}
    expr = sites[0]
    if isinstance(expr, ast.Name):          # assembled earlier: take the (single) assignment to that name
        asg = [n.value for n in ast.walk(fnode) if isinstance(n, ast.Assign) and len(n.targets) == 1 and isinstance(n.targets[0], ast.Name) and n.targets[0].id == expr.id]
        if len(asg) != 1:
            return {"obligations": _unknown(pre, XLS_BLOCK_IDS, "full text assembled in several steps", fq)}
        expr = asg[0]
    bound = {t.id for x in ast.walk(expr) if isinstance(x, ast.comprehension) for t in ast.walk(x.target) if isinstance(t, ast.Name)}
    free = {x.id for x in ast.walk(expr) if isinstance(x, ast.Name) and isinstance(x.ctx, ast.Load)} - bound
    free = sorted(n for n in free if n not in mod.assigns and n not in mod.functions and n not in mod.classes and n not in mod.imports and not hasattr(builtins, n))
    if len(free) != 1:
        return {"obligations": _unknown(pre, XLS_BLOCK_IDS, f"sheet list not recognised ({free})", fq)}
    ex = EXECUTOR(mod, reg, uni)
    ex.oid_prefix = "C02/xls_extractor.py::read_xls"
    for k in (0, 1, 2):
        for empties in itertools.product((True, False), repeat=k):
            st = State()
            texts, objs = [], []
            for i, no_data in enumerate(empties):
                t = z3.String(f"sheet{i}.text")
                texts.append(t)
                data = VRef(st.alloc(HeapObj("list", [] if no_data else [VUnk("row")], None, False), ex.refs))
                objs.append(VRef(st.alloc(HeapObj("obj", {"text": VStr(t), "data": data, "name": VStr(z3.String(f"sheet{i}.name"))}, "XlsSheet", False), ex.refs)))
            env = {free[0]: VRef(st.alloc(HeapObj("list", objs, None, False), ex.refs))}
            st.frames = [Frame(env, None, fnode)]
            ex.cur_fn_stack.append(fnode)
            ex.sinks.append([])
            try:
                res = ex.ev(expr, st)
            except X.Unsupported as e:
                return {"obligations": _unknown(pre, XLS_BLOCK_IDS, "OUT-OF-SUBSET " + str(e), fq)}
            finally:
                ex.sinks.pop()
                ex.cur_fn_stack.pop()
            for (s2, v) in res:
                if not isinstance(v, VStr):
                    s2.assume(X.ABSTRACTED)
                    goal = z3.BoolVal(False)
                else:
                    goal = NW(v.t) == cc(*[NW(t) for t in texts]) if texts else NW(v.t) == lit("")
                ex.add_vc("block", XLS_BLOCK_IDS[0], s2.pc, goal, loc=f"{XLS}:{expr.lineno}")
    obls = [dict(verify.discharge(ob, None, {}), function=fq) for ob in ex.obls.values()]
    return {"obligations": obls, "functions": [dict(mod.fn_info("read_xls"), obligations=len(obls))]}


# ods_extractor._extract_sheet: the places that DROP or COLLAPSE cells / rows (trailing-row trimming, large repeats of blank
# rows / cells).  Statement: nothing visible is lost -- whatever test guards such a place may only hold for rows / cells without
# display text.  A cell is (typed value, display text) as `_extract_cell_value` returns it (assumed: typed is None exactly when
# the display text is empty; typed values are int / float / bool / non-empty str -- 0, 0.0 and False are values).
ODS = "sharepoint2text/parsing/extractors/open_office/ods_extractor.py"
ODS_BLOCK_IDS = ["dropped-rows-are-blank.trailing-rows", "dropped-rows-are-blank.collapsed-row-repeats", "dropped-rows-are-blank.collapsed-cell-repeats"]


def ods_fragment(repo, reg, uni, pre):
    import ast
    import builtins
    import itertools
    from pyvc import loader, verify
    from pyvc.state import Frame, State, HeapObj
    from pyvc.values import VReal
    fq = f"{ODS}::_extract_sheet"
    mod = loader.module(ODS, repo)
    fname = find_fn(ODS, "_extract_sheet", mentions=["raw_rows"], nparams=4) if "_extract_sheet" in mod.functions else \
        find_fn(ODS, "_extract_sheet", mentions=["number-rows-repeated"], nparams=4)
    fnode = mod.functions.get(fname)
    if fnode is None:
        return {"obligations": _unknown(pre, ODS_BLOCK_IDS, "function not found", fq)}

    def calls(n, attr):
        return [x for x in ast.walk(n) if isinstance(x, ast.Call) and isinstance(x.func, ast.Attribute) and x.func.attr == attr and isinstance(x.func.value, ast.Name)]
    sites = {}
    for n in ast.walk(fnode):
        if isinstance(n, ast.While) and calls(n, "pop") and len(n.body) == 1:
            sites.setdefault("trailing-rows", []).append(("rows", n.test, calls(n, "pop")[0].func.value.id, None))
        if isinstance(n, ast.If) and n.orelse:
            ap = [x for b in n.body for x in calls(b, "append")]
            exs = [x for b in n.orelse for x in calls(b, "extend")]
            if len(ap) == 1 and len(exs) == 1 and ap[0].func.value.id == exs[0].func.value.id:
                arg = ap[0].args[0]
                if isinstance(arg, ast.Name):
                    sites.setdefault("collapsed-row-repeats", []).append(("row", n.test, arg.id, None))
                else:
                    tup = [x for x in ast.walk(exs[0].args[0]) if isinstance(x, ast.Tuple) and len(x.elts) == 2 and all(isinstance(e, ast.Name) for e in x.elts)]
                    if tup:
                        sites.setdefault("collapsed-cell-repeats", []).append(("cell", n.test, tup[0].elts[0].id, tup[0].elts[1].id))
    obls = []
    ex = EXECUTOR(mod, reg, uni)
    ex.oid_prefix = "C02/ods_extractor.py::_extract_sheet"

    def cell_alts(k):
        d = z3.String(f"display{k}")
        return [(NONE, d, d == lit("")), (VInt(z3.Int(f"int{k}")), d, d != lit("")), (VBool(z3.Bool(f"bool{k}")), d, d != lit("")),
                (VReal(z3.Real(f"float{k}")), d, d != lit("")), (VStr(d), d, d != lit(""))]
    for label in ("trailing-rows", "collapsed-row-repeats", "collapsed-cell-repeats"):
        found = sites.get(label, [])
        if len(found) != 1:
            obls += _unknown(pre, ["dropped-rows-are-blank." + label], f"{len(found)} site(s) of this shape", fq)
            continue
        kind, test, name1, name2 = found[0]
        free = {x.id for x in ast.walk(test) if isinstance(x, ast.Name) and isinstance(x.ctx, ast.Load)} - {name1, name2}
        free = {n for n in free if n not in mod.assigns and n not in mod.functions and n not in mod.classes and n not in mod.imports and not hasattr(builtins, n)}
        widths = (1,) if kind == "cell" else (1, 2)
        for width in widths:
            for combo in itertools.product(*[cell_alts(k) for k in range(width)]):
                st = State()
                env = {n: VInt(z3.Int(n)) for n in sorted(free)}
                for (_t, _d, coupling) in combo:
                    st.assume(coupling)
                if kind == "cell":
                    env[name1], env[name2] = combo[0][0], VStr(combo[0][1])
                else:
                    row = VRef(st.alloc(HeapObj("list", [VTuple([t, VStr(d)]) for (t, d, _c) in combo], None, False), ex.refs))
                    env[name1] = row if kind == "row" else VRef(st.alloc(HeapObj("list", [row], None, False), ex.refs))
                st.frames = [Frame(env, None, fnode)]
                ex.cur_fn_stack.append(fnode)
                ex.sinks.append([])
                try:
                    res = ex.ev(test, st)
                except X.Unsupported as e:
                    return {"obligations": obls + _unknown(pre, ["dropped-rows-are-blank." + label], "OUT-OF-SUBSET " + str(e), fq)}
                finally:
                    ex.sinks.pop()
                    ex.cur_fn_stack.pop()
                blank = z3.And([d == lit("") for (_t, d, _c) in combo])
                for (s2, v) in res:
                    ex.add_vc("block", "dropped-rows-are-blank." + label, s2.pc, z3.Implies(ex.truth(s2, v).t, blank), loc=f"{ODS}:{test.lineno}")
    for ob in ex.obls.values():
        obls.append(dict(verify.discharge(ob, None, {}), function=fq))
    return {"obligations": obls, "functions": [dict(mod.fn_info(fname), obligations=len(obls))]}


def odp_fragment(repo, reg, uni, pre):
    import ast
    from pyvc import loader, verify
    from pyvc.state import Frame, State, HeapObj
    fq = f"{ODP}::_extract_slide"
    mod = loader.module(ODP, repo)
    fname = find_fn(ODP, "_extract_slide", mentions=["body_text", "other_text", "notes"], nparams=4)
    fnode = mod.functions.get(fname)
    if fnode is None:
        return {"obligations": _unknown(pre, ODP_BLOCK_IDS, "function not found", fq)}
    # the paragraph loops of the slide assembly: in the function itself or in a module-level helper it calls (the loop of one
    # text box / of the notes extracted into a function of its own is the same fragment, executed in the helper's frame)
    loops = []
    for host in _fragment_hosts(mod, fnode):
        loops += [(n, st, host) for n, st in _iter_p_loops(host)]
    loops = [(n, st, h) for n, st, h in loops if not any(m is not n and m in list(ast.walk(n)) for m, _s, _h in loops)]      # innermost only
    owners = lambda stores: {x.split(".")[0] for x in stores if "." in x and x.split(".", 1)[1] in ("body_text", "other_text", "title", "notes")}
    text_loops = [(n, owners(st), h) for n, st, h in loops if any(x.endswith((".body_text", ".other_text", ".title")) for x in st)]
    note_loops = [(n, owners(st), h) for n, st, h in loops if any(x.endswith(".notes") for x in st) and not any(x.endswith((".body_text", ".other_text", ".title")) for x in st)]
    if len(text_loops) != 1 or len(note_loops) != 1 or len(text_loops[0][1]) != 1 or len(note_loops[0][1]) != 1:
        return {"obligations": _unknown(pre, ODP_BLOCK_IDS, f"{len(text_loops)} text loop(s), {len(note_loops)} notes loop(s)", fq)}
    obls = []
    for kind, (loop, own, host) in (("slide-text", text_loops[0]), ("speaker-notes", note_loops[0])):
        slide_name = next(iter(own))
        labels = [l for l in ODP_BLOCK_IDS if l.startswith(kind + ".")]
        flags = _flag_names(loop)
        if kind == "slide-text" and len(flags) != 1:
            obls += _unknown(pre, labels, f"title flag not recognised ({flags})", fq)
            continue
        flag_name = flags[0] if flags else None
        if host is not fnode:
            why = _state_threaded(fnode, host, [slide_name], [flag_name] if flag_name else [])
            if why:
                obls += _unknown(pre, labels, f"paragraph loop in helper {host.name}: {why}", fq)
                continue
        ex = EXECUTOR(mod, reg, uni)
        ex.oid_prefix = "C02/odp_extractor.py::_extract_slide"
        st = State()
        p = z3.Const("p", ELEM)
        title = z3.String("slide.title")
        found = z3.Bool("found_title")
        lists = {}
        for f in ("body_text", "other_text", "notes"):
            n, cat, lead = z3.Int(f"slide.{f}.len"), z3.String(f"slide.{f}.cat"), z3.String(f"slide.{f}.lead")
            st.assume(X.slist_wf(n, cat, lead))
            lists[f] = (X.mk_slist(ex, st, n, cat, lead, fresh=False), n, cat)
        slide = VRef(st.alloc(HeapObj("obj", {"title": VStr(title), "body_text": lists["body_text"][0], "other_text": lists["other_text"][0],
                                              "notes": lists["notes"][0]}, "OdpSlide", False), ex.refs))
        ids = VExt("IdSet", z3.Const("comment_paragraphs", X.IDSET))
        env = {loop.target.id: VExt("Elem", p), slide_name: slide}
        if flag_name:
            env[flag_name] = VBool(found)
        for nm in _idset_names(loop):           # the set of identities the enclosing code computed (comment paragraphs)
            env.setdefault(nm, ids)
        st.frames = [Frame(env, None, host)]
        st.assume(found == (title != lit("")))
        ex.cur_fn_stack.append(host)
        ex.sinks.append([])
        try:
            outs = ex.exec_block(loop.body, st)
        except X.Unsupported as e:
            obls += _unknown(pre, labels, "OUT-OF-SUBSET " + str(e), fq)
            continue
        finally:
            ex.sinks.pop()
            ex.cur_fn_stack.pop()
        text = T.STRIP(ODF_TEXT(p, lit(_ODF_STD[0]), lit(_ODF_STD[1]), lit(_ODF_STD[2]), lit(_ODF_STD[3]), ODP_SKIP))
        excluded = X.ID_MEMBER(ids.t, X.ID_OF(p))
        for o in outs:
            if o.kind not in ("fall", "continue"):
                continue
            ho = o.st.heap.get(slide.ref)
            d = ho.data if ho is not None and ho.kind == "obj" and ho.data is not None else {}
            t1 = d["title"].t if isinstance(d.get("title"), VStr) else None
            f1 = o.st.lookup(flag_name) if flag_name else None
            shape_ok = t1 is not None and all(isinstance(d.get(f), VRef) and _is_strlist(o.st, d[f]) for f in lists) and (kind != "slide-text" or isinstance(f1, VBool))
            if not shape_ok:
                o.st.assume(X.ABSTRACTED)          # the slide object is not in a shape the clauses can read: undecided, not refuted
                for label in labels:
                    ex.add_vc("block", label, o.st.pc, z3.BoolVal(False), loc=f"{ODP}:{loop.lineno}")
                continue
            lst = lambda f: _sl(o.st, d[f])[:2]
            same = lambda f: z3.And(lst(f)[0] == lists[f][1], lst(f)[1] == lists[f][2])
            grew = lambda f: z3.And(lst(f)[0] == lists[f][1] + 1, lst(f)[1] == cc(lists[f][2], text))
            t_same = t1 == title
            if kind == "slide-text":
                once = z3.Or(z3.And(t1 == text, z3.Not(found), same("body_text"), same("other_text")),
                             z3.And(t_same, grew("body_text"), same("other_text")),
                             z3.And(t_same, same("body_text"), grew("other_text")))
                nothing = z3.And(t_same, same("body_text"), same("other_text"))
                hidden = z3.Or(excluded, text == lit(""))
                goals = [("visible-paragraph-stored-exactly-once", z3.Implies(z3.Not(hidden), once)),
                         ("comment-or-blank-paragraph-stored-nowhere", z3.Implies(hidden, nothing)),
                         ("notes-untouched", same("notes")),
                         ("found_title<=>title-set", f1.t == (t1 != lit("")))]
            else:
                goals = [("speaker-notes-never-reach-the-slide-text", z3.And(t_same, same("body_text"), same("other_text")))]
            for label, g in goals:
                ex.add_vc("block", f"{kind}.{label}", o.st.pc, g, loc=f"{ODP}:{loop.lineno}")
        for ob in ex.obls.values():
            obls.append(dict(verify.discharge(ob, None, {}), function=fq))
    return {"obligations": obls, "functions": [dict(mod.fn_info(fname), obligations=len(obls))]}


# pptx_extractor._process_slide_from_context, placeholder classification of a shape's text.  Statement: the text of every
# shape appears exactly once in the slide text (ordered_content, from which base_text is joined), except the documented
# exclusions: footer, date and header placeholders (and the slide-image placeholder of notes pages).
PPTX = "sharepoint2text/parsing/extractors/ms_modern/pptx_extractor.py"
PPTX_EXCLUDED_PH = ["ftr", "dt", "hdr", "sldImg"]


def pptx_fragment(repo, reg, uni, pre):
    import ast
    import builtins
    from pyvc import loader, verify
    from pyvc.state import Frame, State, HeapObj
    fq = f"{PPTX}::_process_slide_from_context"
    mod = loader.module(PPTX, repo)
    fname = find_fn(PPTX, "_process_slide_from_context", mentions=["TITLE_TYPES", "FOOTER_TYPES"], nparams=3)
    fnode = mod.functions.get(fname)
    if fnode is None:
        return {"obligations": _unknown(pre, PPTX_BLOCK_IDS, "function not found", fq)}

    def none_test(t):
        return isinstance(t, ast.Compare) and len(t.ops) == 1 and isinstance(t.ops[0], (ast.Is, ast.IsNot)) and isinstance(t.left, ast.Name) \
            and isinstance(t.comparators[0], ast.Constant) and t.comparators[0].value is None
    # the fragment: inside the loop over shapes, everything from the first statement that consults the placeholder-type
    # tables to the end of the loop body (the classification may be one if-chain or a classify-then-store sequence)
    mentions = lambda n: any(isinstance(x, ast.Name) and x.id == "TITLE_TYPES" for x in ast.walk(n))
    bodies = [l.body for l in ast.walk(fnode) if isinstance(l, (ast.For, ast.While)) and any(mentions(x) for x in l.body)]
    if len(bodies) != 1:
        return {"obligations": _unknown(pre, PPTX_BLOCK_IDS, "placeholder classification not recognised", fq)}
    first = next(i for i, x in enumerate(bodies[0]) if mentions(x))
    block = bodies[0][first:]
    stmt = ast.Module(body=block, type_ignores=[])
    stmt.lineno = block[0].lineno
    tests = [x for x in ast.walk(stmt) if none_test(x)]
    gets = {x.func.value.id for x in ast.walk(stmt) if isinstance(x, ast.Call) and isinstance(x.func, ast.Attribute) and x.func.attr == "get"
            and isinstance(x.func.value, ast.Name)}
    ph_names = sorted({x.left.id for x in tests} & gets)          # the variable that is None-tested and read with .get(): the placeholder element
    if len(ph_names) != 1:
        return {"obligations": _unknown(pre, PPTX_BLOCK_IDS, f"placeholder variable not recognised ({ph_names})", fq)}
    ph_name = ph_names[0]
    appends = [x for x in ast.walk(stmt) if isinstance(x, ast.Call) and isinstance(x.func, ast.Attribute) and x.func.attr == "append"
               and isinstance(x.func.value, ast.Name) and len(x.args) == 1]
    tuple_lists = sorted({x.func.value.id for x in appends if isinstance(x.args[0], ast.Tuple)})
    str_lists = sorted({x.func.value.id for x in appends if isinstance(x.args[0], ast.Name)})
    text_names = sorted({x.args[0].id for x in appends if isinstance(x.args[0], ast.Name)}
                        | {x.args[0].elts[-1].id for x in appends if isinstance(x.args[0], ast.Tuple) and x.args[0].elts and isinstance(x.args[0].elts[-1], ast.Name)})
    if len(tuple_lists) != 1 or len(text_names) != 1:
        return {"obligations": _unknown(pre, PPTX_BLOCK_IDS, f"roles not recognised: tuple lists {tuple_lists}, text {text_names}", fq)}
    text_name, oc_name = text_names[0], tuple_lists[0]
    stored = {t.id for x in ast.walk(stmt) if isinstance(x, (ast.Assign, ast.AnnAssign, ast.NamedExpr))
              for t in (x.targets if isinstance(x, ast.Assign) else [x.target]) if isinstance(t, ast.Name)}
    free = {x.id for x in ast.walk(stmt) if isinstance(x, ast.Name) and isinstance(x.ctx, ast.Load)} - {ph_name, text_name, oc_name} - set(str_lists)
    free = {n for n in free if n not in mod.assigns and n not in mod.functions and n not in mod.classes and n not in mod.imports and not hasattr(builtins, n)}
    obls = []
    ex = EXECUTOR(mod, reg, uni)
    ex.oid_prefix = "C02/pptx_extractor.py::_process_slide_from_context"
    for alt in ("placeholder", "no-placeholder"):
        st = State()
        text = z3.String("text")
        st.assume(z3.Length(text) > 0)
        ph = z3.Const("ph", ELEM)
        env = {ph_name: VExt("Elem", ph) if alt == "placeholder" else NONE, text_name: VStr(text)}
        for f in str_lists:
            n, cat, lead = z3.Int(f"{f}.len"), z3.String(f"{f}.cat"), z3.String(f"{f}.lead")
            st.assume(X.slist_wf(n, cat, lead))
            env[f] = X.mk_slist(ex, st, n, cat, lead, fresh=False)
        oc = VRef(st.alloc(HeapObj("list", [], None, False), ex.refs))
        env[oc_name] = oc
        for n in sorted(free):
            env[n] = VStr(z3.String(n)) if n in stored else VUnk(n)
        st.frames = [Frame(env, None, fnode)]
        ex.cur_fn_stack.append(fnode)
        ex.sinks.append([])
        try:
            outs = ex.exec_block(block, st)
        except X.Unsupported as e:
            return {"obligations": _unknown(pre, PPTX_BLOCK_IDS, "OUT-OF-SUBSET " + str(e), fq)}
        finally:
            ex.sinks.pop()
            ex.cur_fn_stack.pop()
        ptype = z3.If(ATTR_HAS(ph, lit("type")), ATTR(ph, lit("type")), lit(""))
        excluded = z3.BoolVal(False) if alt == "no-placeholder" else z3.Or([ptype == lit(k) for k in PPTX_EXCLUDED_PH])
        for o in outs:
            if o.kind not in ("fall", "continue"):
                continue
            ho = o.st.heap.get(oc.ref)
            items = ho.data if ho is not None and ho.kind == "list" else None
            ok = items is not None and all(isinstance(it, VTuple) and it.items and isinstance(it.items[-1], VStr) for it in items)
            if not ok:
                o.st.assume(X.ABSTRACTED)
                g_once = g_excl = z3.BoolVal(False)
            elif len(items) == 1:
                g_once, g_excl = items[0].items[-1].t == text, z3.Not(excluded)
            elif len(items) == 0:
                g_once, g_excl = excluded, z3.BoolVal(True)
            else:
                g_once = g_excl = z3.BoolVal(False)
            ex.add_vc("block", PPTX_BLOCK_IDS[0], o.st.pc, g_once, loc=f"{PPTX}:{stmt.lineno}")
            ex.add_vc("block", PPTX_BLOCK_IDS[1], o.st.pc, g_excl, loc=f"{PPTX}:{stmt.lineno}")
    for ob in ex.obls.values():
        obls.append(dict(verify.discharge(ob, None, {}), function=fq))
    return {"obligations": obls, "functions": [dict(mod.fn_info(fname), obligations=len(obls))]}


# =====================================================================================
# Empty-element tags (`<x/>`) of the two HTMLParser subclasses (html tree builder, epub chapter walker).
#
# Statement: an empty element has no content, so it cannot change what happens to the text that FOLLOWS it: after
# handle_startendtag the removed-markup state is what it was (skip depth unchanged: `<script src=".."/>` must not swallow the
# rest of the document) and no data context has been opened by it (epub: title / table-cell flags are not switched on).
# The function under contract is the one that RUNS: the class's own override when it has one, else the definition it
# inherits from html.parser.HTMLParser (read from the interpreter's own source); the start / end handlers it calls are
# executed in place (their bodies, not their contracts).
# =====================================================================================
EMPTY_ELEMENT_IDS = ["ensures#empty-element-leaves-the-removed-markup-state-as-it-was", "ensures#empty-element-opens-no-data-context"]


def empty_element_obligations(repo, tier):
    import ast
    import copy
    import inspect
    import textwrap
    from html.parser import HTMLParser
    from pyvc import loader, verify
    from pyvc.contracts import Registry
    from pyvc.exctypes import Universe
    C = _C17
    obls, fns = [], []
    for rel, cls, flags_of in ((C.EPUB, C.ECLS, lambda: [epub_roles()[k] for k in ("in_title", "in_cell")]), (HTML, C.HCLS, lambda: [])):
        short = rel.split("/")[-1]
        pre = f"C02/{short}::{cls}.handle_startendtag/"
        fq = f"{rel}::{cls}.handle_startendtag"
        try:
            reg = Registry()
            for c in contracts(reg):
                reg.add(c)
            mod = loader.module(rel, repo)
            cnode = next((n for n in ast.walk(mod.tree) if isinstance(n, ast.ClassDef) and n.name == cls), None) if hasattr(mod, "tree") else None
            fnode = mod.functions.get(f"{cls}.handle_startendtag")
            if fnode is None:
                bases = [ast.unparse(b) for b in cnode.bases] if cnode is not None else None
                if bases is None or any(b.rsplit(".", 1)[-1] != "HTMLParser" for b in bases):
                    raise X.Unsupported(f"bases of {cls} not recognised ({bases})")
                fnode = ast.parse(textwrap.dedent(inspect.getsource(HTMLParser.handle_startendtag))).body[0]
            start = reg.get(f"{rel}::{cls}.handle_starttag")
            if start is None:
                raise X.Unsupported("start-tag handler has no contract to take the receiver from")
            reg2 = copy.copy(reg)
            reg2.fn = {k: v for k, v in reg.fn.items() if not k.startswith(f"{rel}::{cls}.handle_")}       # handlers run in place
            try:
                flags = flags_of()
            except X.Unsupported:
                flags = None

            def fld(st, c, f):
                return st.obj(c.args["self"].ref).data[f]

            depth = C.need(rel, cls, repo, "depth")["depth"]          # the counter, by role (a renamed field re-verifies)

            def depth_kept(c, depth=depth):
                a, b = fld(c.entry, c, depth), fld(c.st, c, depth)
                if not (isinstance(a, VInt) and isinstance(b, VInt)):
                    raise X.Unsupported("skip depth is not an int")
                return b.t == a.t

            def no_context(c, flags=flags):
                if flags is None:
                    raise X.Unsupported("roles")
                out = []
                for f in flags:
                    a, b = fld(c.entry, c, f), fld(c.st, c, f)
                    if not (isinstance(a, VBool) and isinstance(b, VBool)):
                        raise X.Unsupported(f"{f} is not a bool")
                    out.append(z3.Implies(b.t, a.t))
                return z3.And(out + [z3.BoolVal(True)])
            con = FnContract(target=fq, params=[("self", start.params[0][1])] + [(a.arg, m) for a, (_n, m) in zip(fnode.args.args[1:], start.params[1:])],
                             requires=lambda c, depth=depth: fld(c.st, c, depth).t >= 0,
                             ensures=[(EMPTY_ELEMENT_IDS[0].split("#")[1], X.robust(depth_kept)), (EMPTY_ELEMENT_IDS[1].split("#")[1], X.robust(no_context))],
                             modifies=("self",), raises=[Raises("Exception", sub=True)])
            if len(fnode.args.args) != 3 or fnode.args.args[0].arg != "self":
                raise X.Unsupported("signature of handle_startendtag not recognised")
            con.params[0] = (fnode.args.args[0].arg, con.params[0][1])
            ex = EXECUTOR(mod, reg2, Universe(repo))
            ex.contract = con
            ex.oid_prefix = pre[:-1]
            got, _cov = verify.generate(ex, con, mod, fnode)
            mine = [dict(verify.discharge(ob, None, getattr(ex, "witness_terms", {})), function=fq) for ob in got.values()]
            mine = [o for o in mine if o["id"].split("/")[-1] in EMPTY_ELEMENT_IDS]
            for o in mine:
                o["kind"] = "ensures"
            obls += mine
            have = {o["id"] for o in mine}
            obls += _unknown(pre, [l for l in EMPTY_ELEMENT_IDS if pre + l not in have], "no verification condition for this clause", fq)
            fns.append({"function": fq, "obligations": len(EMPTY_ELEMENT_IDS)})
        except Exception as e:  # noqa  (unrecognised shape / outside the subset: undecided, the native replayer decides)
            obls += _unknown(pre, EMPTY_ELEMENT_IDS, f"{type(e).__name__}: {e}", fq)
    return {"obligations": obls, "functions": [], "undecided": []}


# =====================================================================================
# RTF \\uN escape runs  --  rtf_extractor.py::_decode_unicode_run  (used by both strippers)
#
# Statement: the values N of consecutive \\uN escapes are signed 16-bit UTF-16 code units (RTF 1.9).  With u_i = N_i mod 2^16:
#   text([])            = ""
#   text(h, l, rest..)  = chr(0x10000 + (h - 0xD800) * 0x400 + (l - 0xDC00)) ++ text(rest)   h high surrogate, l low surrogate
#   text(u, rest..)     = U+FFFD ++ text(rest)                                                u a surrogate without partner
#   text(u, rest..)     = chr(u) ++ text(rest)                                                otherwise
# -- one character per pair: a character beyond the BMP is not lost and nothing that is not in the source appears.
# Contract: result == text(units of the run), for runs of 0..3 escapes with ARBITRARY values (every window the definition
# looks at is covered; the count is the bound, stated in the id).  Assumed models: the pattern's findall yields the digit
# groups in order (pattern text checked, any other pattern: unknown), int() of such a group parses, int.to_bytes(2, order),
# bytes.join, and the utf-16 codec with errors="replace" (== the definition above).  Characters are an uninterpreted
# injective `chr` (z3's own characters stop at U+2FFFF).
# =====================================================================================
U16_PATTERNS = {r"\\u(-?\d+)\??"}
CHR = z3.Function("py.chr", I, S)
CODE = z3.Function("py.ord", S, I)
REPLACEMENT = CHR(z3.IntVal(0xFFFD))


def utf16_text(units):
    if not units:
        return lit("")
    u = units[0]
    sur = z3.And(u >= 0xD800, u <= 0xDFFF)
    one = cc(z3.If(sur, REPLACEMENT, CHR(u)), utf16_text(units[1:]))
    if len(units) >= 2:
        v = units[1]
        pair = z3.And(u >= 0xD800, u <= 0xDBFF, v >= 0xDC00, v <= 0xDFFF)
        return z3.If(pair, cc(CHR(0x10000 + (u - 0xD800) * 0x400 + (v - 0xDC00)), utf16_text(units[2:])), one)
    return one


def _chr_facts(terms):
    """Instances of `chr is injective and yields one character` for every chr application in the given terms."""
    seen, out, todo = set(), [], list(terms)
    while todo:
        t = todo.pop()
        if t.get_id() in seen:
            continue
        seen.add(t.get_id())
        if z3.is_app(t):
            if t.decl().eq(CHR):
                out += [z3.Length(t) == 1, CODE(t) == t.arg(0)]
            todo.extend(t.children())
    return out


class RtfUnicodeExecutor(C02FullExecutor):
    """Models needed by the escape decoder (pack-local): x & (2^k - 1) on an unbounded int as x mod 2^k, int.to_bytes,
    bytes.join over parts of known length, bytes.decode('utf-16-le' / 'utf-16-be', errors='replace'), chr as CHR."""
    MAX_RUN = 3

    def add_vc(self, kind, label, pc, goal, note="", loc=""):
        facts = _chr_facts(list(pc) + [goal, REPLACEMENT])
        return super().add_vc(kind, label, list(pc) + facts + [REPLACEMENT == lit("\ufffd")], goal, note=note, loc=loc)

    def binop(self, st, op, a, b, node, inplace=False):
        if op == "BitAnd" and isinstance(a, VInt) and isinstance(b, VInt):
            for x, m in ((a, b), (b, a)):
                mc = m.const()
                if mc is not None and mc > 0 and (mc & (mc + 1)) == 0 and x.const() is None and not z3.is_bv(x.t):
                    return [(st, VInt(x.t % (mc + 1)))]
        return super().binop(st, op, a, b, node, inplace)

    def b_chr(self, st, args, kwargs, node):
        v = args[0]
        if isinstance(v, VInt):
            t = ops_int_term(v)
            st = self.fork_raise(st, z3.Or(t < 0, t > 0x10FFFF), "ValueError")
            return [] if st is None else [(st, VStr(CHR(t)))]
        return super().b_chr(st, args, kwargs, node)

    def call_method(self, st, obj, name, args, kwargs, node):
        if isinstance(obj, VInt) and name == "to_bytes":
            n = (args[0] if args else kwargs.get("length", VInt(1))).const()
            order = (args[1] if len(args) > 1 else kwargs.get("byteorder", VStr("big"))).const()
            if n is None or order not in ("little", "big") or kwargs.get("signed") is not None:
                raise X.Unsupported("int.to_bytes with symbolic length / order")
            t = ops_int_term(obj)
            st = self.fork_raise(st, z3.Or(t < 0, t >= 256 ** n), "OverflowError")
            if st is None:
                return []
            items = [VInt((t / (256 ** k)) % 256) for k in range(n)]
            return [(st, VBytes(items if order == "little" else items[::-1]))]
        return super().call_method(st, obj, name, args, kwargs, node)

    def bytes_method(self, st, obj, name, args, kwargs, node):
        if name == "join" and len(args) == 1:
            parts = self.concrete_items(st, args[0])
            if parts is not None and all(isinstance(x, VBytes) for x in parts):
                out = []
                for k, x in enumerate(parts):
                    out += (list(obj.items) if k else []) + list(x.items)
                return [(st, VBytes(out))]
            raise X.Unsupported("bytes.join over parts of unknown length")
        if name == "decode":
            enc = (args[0] if args else kwargs.get("encoding", VStr("utf-8"))).const()
            err = (args[1] if len(args) > 1 else kwargs.get("errors", VStr("strict"))).const()
            enc = enc.lower().replace("_", "-") if isinstance(enc, str) else None
            if enc in ("utf-16-le", "utf-16-be", "utf-16le", "utf-16be") and err == "replace":
                bs = [ops_int_term(x) for x in obj.items]
                lo, hi = (0, 1) if enc.endswith("le") else (1, 0)
                units = [bs[2 * k + lo] + 256 * bs[2 * k + hi] for k in range(len(bs) // 2)]
                text = utf16_text(units)
                return [(st, VStr(cc(text, REPLACEMENT) if len(bs) % 2 else text))]      # a dangling byte is not a character
            raise X.Unsupported(f"bytes.decode({enc!r}, errors={err!r}) has no model here")
        return super().bytes_method(st, obj, name, args, kwargs, node)


def ops_int_term(v):
    from pyvc import ops
    return ops.int_term(v)


RTF_UNICODE_IDS = ["returns#text-of-the-utf16-code-units[runs<=3]"]


def rtf_unicode_obligations(repo, tier):
    import ast
    import copy
    from pyvc import loader, verify
    from pyvc.contracts import Registry
    from pyvc.exctypes import Universe
    pre = "C02/rtf_extractor.py::_decode_unicode_run/"
    fq = f"{RTF}::_decode_unicode_run"
    try:
        mod = loader.module(RTF, repo)
        fname = find_fn(RTF, "_decode_unicode_run", mentions=["findall"], nparams=1)
        fnode = mod.functions.get(fname)
        if fnode is None:
            return {"obligations": _unknown(pre, RTF_UNICODE_IDS, "function not found", fq), "functions": [], "undecided": []}
        # the pattern whose findall splits the run: a module-level re.compile of the \\uN pattern (any other text: unknown)
        recv = {x.func.value.id for x in ast.walk(fnode) if isinstance(x, ast.Call) and isinstance(x.func, ast.Attribute) and x.func.attr in ("findall", "finditer")
                and isinstance(x.func.value, ast.Name)}
        if len(recv) != 1:
            raise X.Unsupported(f"escape pattern not identified ({sorted(recv)})")
        pat = next(iter(recv))
        src = mod.assigns.get(pat) if hasattr(mod, "assigns") else None
        ok = isinstance(src, ast.Call) and ast.unparse(src.func) in ("re.compile", "compile") and len(src.args) == 1 and not src.keywords \
            and isinstance(src.args[0], ast.Constant) and src.args[0].value in U16_PATTERNS
        if not ok:
            raise X.Unsupported(f"pattern {pat} is not the \\uN pattern the model describes")
        reg = Registry()
        for c in contracts(reg):
            reg.add(c)
        reg = copy.copy(reg)
        reg.fn = {k: v for k, v in reg.fn.items() if not k.startswith(fq)}
        reg.module_consts = dict(reg.module_consts)
        reg.module_consts[(RTF, pat)] = VExt("U16Pattern")
        reg.method_models = dict(reg.method_models)

        def findall(ex, st, obj, args, kwargs, node):
            outs = []
            for n in range(ex.MAX_RUN + 1):
                s2 = st.fork()
                groups = [z3.String(fresh_name(f"escape{k}.digits")) for k in range(n)]
                for g in groups:
                    s2.assume(T.INT_OK(g))
                s2.ghost["u16"] = [T.INT_VAL(g) % 65536 for g in groups]
                outs.append((s2, ex.new_list(s2, [VStr(g) for g in groups])))
            return outs
        reg.method_models[("U16Pattern", "findall")] = findall
        P_STR = Maker(lambda ex, st, name: VStr(z3.String(name)), desc="str")
        con = FnContract(target=fq, params=[(fnode.args.args[0].arg, P_STR)], returns=lambda c: VStr(utf16_text(c.st.ghost.get("u16", []))), raises=[])
        ex = RtfUnicodeExecutor(mod, reg, Universe(repo))
        ex.contract = con
        ex.oid_prefix = pre[:-1]
        got, _cov = verify.generate(ex, con, mod, fnode)
        mine = []
        for ob in got.values():
            d = dict(verify.discharge(ob, None, getattr(ex, "witness_terms", {})), function=fq)
            if d["id"].endswith("/returns"):
                d["id"] = pre + RTF_UNICODE_IDS[0]
                mine.append(d)
            elif d["id"].endswith("/raises"):
                d["id"] = pre + "raises#decoding-never-fails"
                mine.append(d)
        have = {o["id"] for o in mine}
        mine += _unknown(pre, [l for l in RTF_UNICODE_IDS if pre + l not in have], "no verification condition for this clause", fq)
        return {"obligations": mine, "functions": [], "undecided": []}
    except Exception as e:  # noqa  (shape not recognised / outside the modelled subset: undecided, the native scope decides)
        return {"obligations": _unknown(pre, RTF_UNICODE_IDS, f"{type(e).__name__}: {e}", fq), "functions": [], "undecided": []}


# =====================================================================================
# ODT body walk  --  odt_extractor.py::_append_full_text_from_element, container branches (text:list, table:table)
#
# Statement: no paragraph is lost.  A container branch is a nest of loops, each ranging over `x.iter(tag)` (x itself and
# every descendant with that tag) or `x.findall(tag)` / `x.iterfind(tag)` (children with that tag).  The set of paragraphs
# the nest reaches must contain every paragraph the document format places in the container (ODF 1.2, not the code):
#   text:list    -- every text:p below a text:list-item below the list (items of nested lists, tables in items included)
#   table:table  -- every text:p below a table:table-cell that is a child of a table:table-row below the table
# (text:list-header and text:h inside items / cells are the recorded findings F20-odt-list-header / -heading-in-list.)
# VC over an abstract tree (CHILD, strict DESC, transitive; TAG): `placed by the format` -> `reached by the nest`; the
# witnesses of the nest range over the nodes the hypothesis names.  The nest is read off the real AST; a branch that is not a
# plain nest whose innermost body appends the paragraph's text is `unknown` (the native odt scope decides).
# (That a reached paragraph is emitted once too often is a different clause: recorded findings F20-odt-nested-*.)
# =====================================================================================
ODT = "sharepoint2text/parsing/extractors/open_office/odt_extractor.py"
_NS_TEXT, _NS_TABLE = "urn:oasis:names:tc:opendocument:xmlns:text:1.0", "urn:oasis:names:tc:opendocument:xmlns:table:1.0"
ODT_PLACED = {
    "list": ("{%s}list" % _NS_TEXT, [("desc", "{%s}list-item" % _NS_TEXT), ("desc", "{%s}p" % _NS_TEXT)]),
    "table": ("{%s}table" % _NS_TABLE, [("desc", "{%s}table-row" % _NS_TABLE), ("child", "{%s}table-cell" % _NS_TABLE), ("desc", "{%s}p" % _NS_TEXT)]),
}
ODT_COVER_IDS = [f"policy#every-paragraph-placed-in-a-{k}-is-reached" for k in ODT_PLACED]


def _module_strs(mod):
    """Module-level NAME -> str for names bound to string expressions over literal tables (f"{{{NS['text']}}}p")."""
    import ast
    env, out = {}, {}
    for name, node in mod.assigns.items():
        try:
            env[name] = ast.literal_eval(node)
        except Exception:  # noqa
            pass
    for name, node in mod.assigns.items():
        if name in env:
            continue
        try:
            v = eval(compile(ast.Expression(node), "<const>", "eval"), {"__builtins__": {}}, dict(env))   # noqa: S307 (no builtins, literals only)
        except Exception:  # noqa
            continue
        env[name] = v
    for name, v in env.items():
        if isinstance(v, str):
            out[name] = v
    return out


def _emits_text(body, cur, acc, mod, depth):
    """The statements `body` do exactly this with the element named `cur`:  text = f(.. cur ..); [if text.strip():] acc.append(text)
    -- directly, or through a module-level helper called with `cur` and `acc` whose body does (followed `depth` levels).
    Anything else raises Unsupported."""
    import ast
    body = [x for x in body if not (isinstance(x, ast.Expr) and isinstance(x.value, ast.Constant))]          # docstring
    if len(body) == 1 and isinstance(body[0], ast.Expr) and isinstance(body[0].value, ast.Call) and isinstance(body[0].value.func, ast.Name) \
            and mod is not None and body[0].value.func.id in mod.functions and depth > 0:
        call, h = body[0].value, mod.functions[body[0].value.func.id]
        a = h.args
        if a.vararg or a.kwarg or any(isinstance(x, ast.Starred) for x in call.args) or any(k.arg is None for k in call.keywords):
            raise X.Unsupported("helper call with star arguments")
        bound = dict(zip([x.arg for x in a.posonlyargs + a.args], call.args))
        bound.update({k.arg: k.value for k in call.keywords})
        names = {n: v.id for n, v in bound.items() if isinstance(v, ast.Name)}
        pc = [n for n, v in names.items() if v == cur]
        pa = [n for n, v in names.items() if v == acc]
        if len(pc) != 1 or len(pa) != 1 or len(names) != len(bound):
            raise X.Unsupported("helper does not receive the paragraph and the output list as plain names")
        return _emits_text(h.body, pc[0], pa[0], mod, depth - 1)
    texts = set()
    for x in body:
        if isinstance(x, ast.Assign) and len(x.targets) == 1 and isinstance(x.targets[0], ast.Name) and isinstance(x.value, ast.Call) \
                and any(isinstance(y, ast.Name) and y.id == cur for y in ast.walk(x.value)):
            texts.add(x.targets[0].id)
            continue
        stmts = [x]
        if isinstance(x, ast.If) and not x.orelse and {y.id for y in ast.walk(x.test) if isinstance(y, ast.Name)} <= texts \
                and ast.unparse(x.test) in {f"{t}.strip()" for t in texts} | {f"{t}" for t in texts}:
            stmts = x.body
        ok = len(stmts) == 1 and isinstance(stmts[0], ast.Expr) and isinstance(stmts[0].value, ast.Call) and isinstance(stmts[0].value.func, ast.Attribute) \
            and stmts[0].value.func.attr == "append" and isinstance(stmts[0].value.func.value, ast.Name) and stmts[0].value.func.value.id == acc \
            and len(stmts[0].value.args) == 1 and isinstance(stmts[0].value.args[0], ast.Name) and stmts[0].value.args[0].id in texts
        if not ok:
            raise X.Unsupported("innermost body is not `text = f(paragraph); if text.strip(): out.append(text)`")
    if not texts:
        raise X.Unsupported("innermost body does not take the paragraph's text")


def _loop_nest(branch_body, root, acc, strs, mod=None):
    """[(step, tag)] of a plain loop nest over the tree below `root` whose innermost body appends text of the innermost
    loop variable to `acc`; raises Unsupported for any other shape."""
    import ast
    chain, cur, body = [], root, [x for x in branch_body if not (isinstance(x, ast.Return) and x.value is None)]

    def step_of(it, cur):
        if not (isinstance(it, ast.Call) and isinstance(it.func, ast.Attribute) and isinstance(it.func.value, ast.Name) and it.func.value.id == cur
                and it.func.attr in ("iter", "findall", "iterfind") and len(it.args) == 1 and not it.keywords):
            raise X.Unsupported("loop does not range over iter / findall of the enclosing element")
        a = it.args[0]
        tag = strs.get(a.id) if isinstance(a, ast.Name) else (a.value if isinstance(a, ast.Constant) and isinstance(a.value, str) else None)
        if tag is None or (it.func.attr != "iter" and not tag.startswith("{")):
            raise X.Unsupported("tag of a loop not resolved (or a path expression)")
        return ("desc*" if it.func.attr == "iter" else "child", tag)
    # the same nest written as one comprehension:  acc.extend(text for a in root.iter(A) for p in a.iter(P) if <text is not blank>)
    if len(body) == 1 and isinstance(body[0], ast.Expr) and isinstance(body[0].value, ast.Call) and isinstance(body[0].value.func, ast.Attribute) \
            and body[0].value.func.attr == "extend" and isinstance(body[0].value.func.value, ast.Name) and body[0].value.func.value.id == acc \
            and len(body[0].value.args) == 1 and isinstance(body[0].value.args[0], (ast.GeneratorExp, ast.ListComp)):
        comp = body[0].value.args[0]
        for k, g in enumerate(comp.generators):
            if not isinstance(g.target, ast.Name) or g.is_async or (g.ifs and k < len(comp.generators) - 1):
                raise X.Unsupported("comprehension clause with a filter on an outer level")
            chain.append(step_of(g.iter, cur))
            cur = g.target.id
        last = comp.generators[-1]
        elt = ast.unparse(comp.elt)
        uses_cur = lambda n: isinstance(n, ast.Call) and any(isinstance(y, ast.Name) and y.id == cur for y in ast.walk(n))
        okf = not last.ifs
        if len(last.ifs) == 1:
            t = last.ifs[0]
            inner = t.func.value if isinstance(t, ast.Call) and isinstance(t.func, ast.Attribute) and t.func.attr == "strip" and not t.args else t
            if isinstance(inner, ast.NamedExpr) and isinstance(comp.elt, ast.Name) and inner.target.id == comp.elt.id and uses_cur(inner.value):
                okf = True
            elif uses_cur(inner) and ast.unparse(inner) == elt:
                okf = True
        if not okf or not (isinstance(comp.elt, ast.Name) or uses_cur(comp.elt)):
            raise X.Unsupported("comprehension does not yield the paragraph's text under a blank test only")
        return chain
    while True:
        if len(body) != 1 or not isinstance(body[0], ast.For) or body[0].orelse or not isinstance(body[0].target, ast.Name):
            raise X.Unsupported("branch is not a plain loop nest")
        f = body[0]
        chain.append(step_of(f.iter, cur))
        cur, body = f.target.id, f.body
        if not any(isinstance(x, ast.For) for x in body):
            break
    _emits_text(body, cur, acc, mod, 2)
    return chain


def odt_cover_vc(placed, nest):
    """(hypotheses, goal) of `placed by the format -> reached by the nest` over nodes e, s1..sk."""
    NODE = z3.DeclareSort("OdtNode")
    CHILD_, DESC_ = z3.Function("odt.child", NODE, NODE, B), z3.Function("odt.desc", NODE, NODE, B)
    TAG_ = z3.Function("odt.tag", NODE, S)
    e = z3.Const("container", NODE)
    ss = [z3.Const(f"placed{k}", NODE) for k in range(len(placed))]
    nodes = [e] + ss
    hyps = []
    for a in nodes:
        hyps.append(z3.Not(DESC_(a, a)))
        for b in nodes:
            hyps.append(z3.Implies(CHILD_(a, b), DESC_(a, b)))
            for c in nodes:
                hyps.append(z3.Implies(z3.And(DESC_(a, b), DESC_(b, c)), DESC_(a, c)))
    prev = e
    for (step, tag), n in zip(placed, ss):
        hyps += [CHILD_(prev, n) if step == "child" else DESC_(prev, n), TAG_(n) == lit(tag)]
        prev = n
    import itertools
    alts = []
    for combo in itertools.product(nodes, repeat=len(nest)):
        if combo[-1] is not ss[-1]:
            continue
        prev, cs = e, []
        for (step, tag), n in zip(nest, combo):
            cs += [CHILD_(prev, n) if step == "child" else z3.Or(prev == n, DESC_(prev, n)), TAG_(n) == lit(tag)]
            prev = n
        alts.append(z3.And(cs))
    return hyps, z3.Or(alts) if alts else z3.BoolVal(False)


def odt_cover_obligations(repo, tier):
    import ast
    from pyvc import loader, verify
    from pyvc.contracts import Registry
    from pyvc.exctypes import Universe
    pre = "C02/odt_extractor.py::_append_full_text_from_element/"
    fq = f"{ODT}::_append_full_text_from_element"
    try:
        mod = loader.module(ODT, repo)
        fname = find_fn(ODT, "_append_full_text_from_element", mentions=["tag", "append"], nparams=2)
        fnode = mod.functions.get(fname)
        if fnode is None:
            return {"obligations": _unknown(pre, ODT_COVER_IDS, "function not found", fq), "functions": [], "undecided": []}
        params = [a.arg for a in fnode.args.posonlyargs + fnode.args.args]
        root, acc = params[0], params[1]
        strs = _module_strs(mod)
        tagvars = {t.id for x in ast.walk(fnode) if isinstance(x, ast.Assign) and isinstance(x.value, ast.Attribute) and x.value.attr == "tag"
                   and isinstance(x.value.value, ast.Name) and x.value.value.id == root for t in x.targets if isinstance(t, ast.Name)}
        is_tag = lambda n: (isinstance(n, ast.Name) and n.id in tagvars) or (isinstance(n, ast.Attribute) and n.attr == "tag" and isinstance(n.value, ast.Name) and n.value.id == root)
        branches = {}
        nested = {id(y) for f in ast.walk(fnode) if isinstance(f, (ast.For, ast.While, ast.FunctionDef, ast.Lambda)) and f is not fnode for y in ast.walk(f) if y is not f}
        for x in ast.walk(fnode):            # `if tag == T:` statements and the arms of if / elif chains, outside loops
            if isinstance(x, ast.If) and id(x) not in nested and isinstance(x.test, ast.Compare) and len(x.test.ops) == 1 and isinstance(x.test.ops[0], ast.Eq):
                l, r = x.test.left, x.test.comparators[0]
                c = r if is_tag(l) else (l if is_tag(r) else None)
                v = None if c is None else (strs.get(c.id) if isinstance(c, ast.Name) else (c.value if isinstance(c, ast.Constant) else None))
                if isinstance(v, str):
                    if v in branches:
                        branches[v] = None          # two branches for one tag: not the shape described here
                    else:
                        branches[v] = x
        reg = Registry()
        ex = EXECUTOR(mod, reg, Universe(repo))
        ex.oid_prefix = pre[:-1]
        out = []
        for kind, (ctag, placed) in ODT_PLACED.items():
            label = f"every-paragraph-placed-in-a-{kind}-is-reached"
            br = branches.get(ctag)
            try:
                if br is None:
                    raise X.Unsupported(f"no single branch `tag == <{ctag.rsplit('}', 1)[-1]}>` in the function")
                nest = _loop_nest(br.body, root, acc, strs, mod)
            except X.Unsupported as e:
                out += _unknown(pre, ["policy#" + label], str(e), fq)
                continue
            hyps, goal = odt_cover_vc(placed, nest)
            Executor_add = super(X.C02Executor, ex).add_vc          # plain VC: no text axioms needed
            Executor_add("policy", label, hyps, goal, note="nest: " + " / ".join(f"{s} {t.rsplit('}', 1)[-1]}" for s, t in nest), loc=f"{ODT}:{br.lineno}")
        for ob in ex.obls.values():
            out.append(dict(verify.discharge(ob, None, {}), function=fq))
        return {"obligations": out, "functions": [], "undecided": []}
    except Exception as e:  # noqa
        return {"obligations": _unknown(pre, ODT_COVER_IDS, f"{type(e).__name__}: {e}", fq), "functions": [], "undecided": []}


EXTRA = [bounded_native, fragment_obligations, empty_element_obligations, rtf_unicode_obligations, odt_cover_obligations]


def known_findings(kf, violations, repo, tier):
    """Recorded genuine defects: every witness is re-run natively (one batch); a finding that still fails prints
    KNOWN-FINDING and covers exactly the obligation ids listed in it."""
    vio_ids = {v["id"] for v in violations}
    out = []
    try:
        import json
        import os
        res = None
        try:
            with open(_native_cache(os.getpid())) as fh:
                cached = json.load(fh)
            os.unlink(_native_cache(os.getpid()))
            if cached.get("repo") == repo:
                res = cached["res"]          # produced seconds ago by this run's own EXTRA worker on the same tree
        except (OSError, ValueError):
            res = None
        if res is None:
            res = run_native(repo, "bounded", "--with-witness-checks")
    except Exception as e:  # noqa
        return [{"finding": f["id"], "still_fails": False, "line": f"{f['id']}: replay failed: {e}", "covers": []} for f in kf]
    for f in kf:
        w = f.get("witness", {})
        rec = None
        if "check" in w:
            rec = res.get(w["check"], {}).get(w["case"])
            still = bool(rec and rec.get("failures"))
            obs = (rec or {}).get("witness")
        else:
            rec = res.get("documents", {}).get(w.get("format"), {}).get(w.get("feature"))
            still = bool(rec) and rec.get("ok") is False
            obs = rec
        covers = [o for o in f.get("covers", [f["obligation"]]) if o in vio_ids] if still else []
        out.append({"finding": f["id"], "still_fails": still, "line": f"{f['id']}: {f['what']}", "covers": covers,
                    "witness_replay": {k: (obs or {}).get(k) for k in ("inputs", "expected", "observed", "kinds")} if obs else None})
    return out


REPLAY_UNKNOWN = True

TRUSTED = ["zip / XML / OLE / PDF parsing (bytes -> tree) is outside every contract; the obligations are about the library's own walkers"]
ASSUMED_MODELS = X.ASSUMED_MODELS
ASSUMPTIONS = ["OOXML-SCHEMA: w:tab, w:br and w:cr are empty elements (ECMA-376 CT_Empty / CT_Br)", "PY-STR", "TREE-FINITE", "WS-CLASS: str.strip, str.split, \\s and str.isspace agree on the whitespace class",
               "DT-TYPED: list[str] fields / parameters hold str items",
               "partial correctness: termination of the recursive walkers is C01's obligation"]
BOUNDED = [
    "docx _extract_table_text: all tables with <= 2 rows x <= 2 cells, cell content out of {p, p p, sdt(p), p + nested 1x1 table, nested 1x2 table}, "
    "rows / cells optionally inside content controls (replay/c02_trees.py::gen_docx_tables) -- since round 7 this COMPLEMENTS the verified contract "
    "(the fold over iter(w:tr) / iter(w:tc) / iter(w:p) is proved for every tree; the token check decides what that fold means for nested tables "
    "and is the only check when the function is not the three-loop nest: VERIFIED_OR_BOUNDED)",
    "odt _extract_full_text: office:text with <= 2 blocks out of 19 constructs (paragraph, heading, span, s/tab/line-break, note, annotation, list, nested list, "
    "heading in list, list-header, table, nested table, heading in cell, list in cell, header rows, section, tracked deletion, text box, table in list)",
    "html _HtmlTextExtractor.extract: body with <= 2 blocks out of 17 constructs (gen_html_bodies)",
    "ods _extract_sheet text / xlsx, xls _format_sheet_as_text: all grids with <= 3 rows x <= 3 cells (ragged), cells out of {token, empty, two words}; ods also repeated rows / cells",
    "odg _extract_full_text: one page with <= 2 shapes out of 8 constructs; pptx _extract_text_from_paragraphs: txBody with <= 2 paragraphs of <= 3 items (526 bodies; "
    "since round 7 a concrete validation of the PROVED contract, no longer the only check)",
    "data_types _join_unit_text: lists of <= 3 units out of 4 texts: concrete validation of the proved contract",
    "rtf _RtfParser._is_skip_destination: 99 lookaheads (excluded / ignorable destinations, body control words, destination names as plain text): "
    "concrete validation of the proved contract",
    "document level (replay/c02_docs.py): 19 flow features x {docx, odt, html, rtf, txt}, 8 deck features x {pptx, odp}, 8 workbook features x {xlsx, ods} "
    "through the public read_* entry points and get_full_text()",
    "etree model validation: 478 trees (<= 3 levels) against xml.etree",
    "concrete validation of the proved ODF contract: 1640 paragraphs (odf.element_text)",
    "a bounded run without counterexample is reported with status bounded-ok and is never counted as discharged",
]
