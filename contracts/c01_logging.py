"""Assumed model of the `logging` configuration that decides whether a log record of ANY logger (third-party parsers log
warnings on hostile input) can reach stderr / stdout while `cli.main` runs (C01: "one diagnostic line on stderr").

PY-LOGGING (CPython `Logger.callHandlers`): a record walks from its logger up to the ROOT logger and is given to every handler
on the way; when no handler was found on the whole chain, `logging.lastResort` prints WARNING+ records to sys.stderr.  Third-party
loggers are not descendants of the package logger, so only these silence them:
  * the root logger has a handler whose sink is neither stderr nor stdout (NullHandler, FileHandler), or had handlers on entry
    (logging configured by an embedding application: its business);
  * `logging.disable(CRITICAL)`.
A handler on a *named* logger (`getLogger("sharepoint2text")`, `getLogger(__name__)`) silences nothing outside its own subtree.
A StreamHandler on stderr / stdout at the root makes every record visible.

Ghost state: `root_handlers_n` (symbolic number of root handlers on entry), `root_added` ((sink, condition) per handler the code
adds to the root logger; sinks none / file / stderr / stdout / unsure), `named_added`, `maybe_added` (logger whose name the model
cannot read), `log_disabled`, `log_unsure` (a logging API the model does not cover was used on the root / module level).
When the model is unsure the obligation carries MARK and a `sat` answer is `unknown` (solve.SAT_UNTRUSTED): the native
replayer (fresh process, inputs on which third-party parsers log) decides."""
import ast

import z3

from pyvc.values import NONE, VExt, VFunc, VStr, VUnk, VSeq, VNoneT, fresh_name

MARK = z3.Bool("c01!cli-output-model-not-definite")
ROOT = VExt("Logger")            # the value of `logging.root`


def _key(v):
    return v.t.decl().name()


def _mentions_mark(e, seen=None):
    seen = set() if seen is None else seen
    stack = [e]
    while stack:
        x = stack.pop()
        i = x.get_id()
        if i in seen:
            continue
        seen.add(i)
        if z3.is_const(x) and x.decl().kind() == z3.Z3_OP_UNINTERPRETED and x.decl().name() == MARK.decl().name():
            return True
        stack.extend(x.children())
    return False


def untrusted(pc, goal):
    return _mentions_mark(goal)


def logger_kind(st, lg):
    if _key(lg) == _key(ROOT):
        return "root"
    return st.ghost.get(("logger_kind", _key(lg)), "maybe")


def _kind_of_name(args, kwargs, node):
    a = args[0] if args else kwargs.get("name")
    if a is None or isinstance(a, VNoneT):
        return "root"
    if isinstance(a, VStr):
        c = a.const()
        if c is not None:
            return "root" if c in ("", "root") else "named"
    n = node.args[0] if node.args else next((k.value for k in node.keywords if k.arg == "name"), None)
    if isinstance(n, ast.Attribute) and n.attr in ("__name__", "__package__", "__qualname__"):
        return "named"          # a module / class name is never "" or "root"
    if isinstance(n, ast.Name) and n.id in ("__name__", "__package__"):
        return "named"
    return "maybe"


def _stream_sink(v):
    if getattr(v, "how", None) == "ext":
        if v.a == "sys.stderr":
            return "stderr"
        if v.a == "sys.stdout":
            return "stdout"
    return "unsure"


def _add(st, key, item):
    st.ghost[key] = tuple(st.ghost.get(key, ())) + (item,)


def _entry_n(st):
    n = st.ghost.get("root_handlers_n")
    if n is None:
        n = z3.Int(fresh_name("n_root_handlers"))
        st.assume(n >= 0)
        st.ghost["root_handlers_n"] = n
    return n


def _root_has_handlers(st):
    """z3 Bool: the root logger has at least one handler now."""
    added = [c for (_s, c) in st.ghost.get("root_added", ())]
    return z3.Or([_entry_n(st) > 0] + added)


def install(reg):
    def m_get_logger(ex, st, args, kwargs, node):
        kind = _kind_of_name(args, kwargs, node)
        if kind == "root":
            return [(st, ROOT)]
        lg = VExt("Logger")
        st.ghost[("logger_kind", _key(lg))] = kind
        return [(st, lg)]

    def a_handlers(ex, st, obj):
        kind = logger_kind(st, obj)
        if kind == "root":
            n = _entry_n(st)
            for (_s, c) in st.ghost.get("root_added", ()):
                n = n + z3.If(c, 1, 0)
            return VSeq(n, lambda i: VUnk("handler"), "handler")
        n = z3.Int(fresh_name("n_handlers"))
        st.assume(n >= 0)
        return VSeq(n, lambda i: VUnk("handler"), "handler")

    def m_add_handler(ex, st, obj, args, kwargs, node):
        h = args[0] if args else kwargs.get("hdlr")
        sink = st.ghost.get(("handler_sink", _key(h)), "unsure") if isinstance(h, VExt) else "unsure"
        kind = logger_kind(st, obj)
        _add(st, {"root": "root_added", "named": "named_added"}.get(kind, "maybe_added"), (sink, z3.BoolVal(True)))
        return [(st, NONE)]

    def new_handler(sink_of):
        def make(ex, st, args, kwargs, node):
            sink = sink_of(args, kwargs)
            if sink == "file":
                ex.exc_any(st.fork(), f"{ex.loc(node)} log file cannot be opened")
            h = VExt("Handler")
            st.ghost[("handler_sink", _key(h))] = sink
            return [(st, h)]
        return make

    def stream_handler_sink(args, kwargs):
        s = args[0] if args else kwargs.get("stream")
        return "stderr" if s is None or isinstance(s, VNoneT) else _stream_sink(s)

    def m_basic_config(ex, st, args, kwargs, node):
        """basicConfig(): no-op when the root logger has handlers (unless force=); else one handler: FileHandler for filename=,
        else a StreamHandler on stream= (default sys.stderr)."""
        if "force" in kwargs or "handlers" in kwargs or args:
            st.ghost["log_unsure"] = True
            return [(st, NONE)]
        sink = "file" if "filename" in kwargs else stream_handler_sink((), kwargs)
        cond = z3.Not(_root_has_handlers(st))
        if sink == "file":
            ex.exc_any(st.fork(), f"{ex.loc(node)} log file cannot be opened")
        _add(st, "root_added", (sink, cond))
        return [(st, NONE)]

    def m_disable(ex, st, args, kwargs, node):
        n = node.args[0] if node.args else next((k.value for k in node.keywords if k.arg == "level"), None)
        if n is None or ast.unparse(n) in ("logging.CRITICAL", "CRITICAL", "logging.FATAL", "50"):
            st.ghost["log_disabled"] = True
        else:
            st.ghost["log_unsure"] = True
        return [(st, NONE)]

    def set_logger_attr(ex, st, base, attr, v, node):
        if logger_kind(st, base) != "named":
            st.ghost["log_unsure"] = True
        return [st]

    reg.ext_models["logging.getLogger"] = m_get_logger
    reg.ext_models[("const", "logging.root")] = ROOT
    reg.ext_models[("new", "logging.NullHandler")] = new_handler(lambda a, k: "none")
    reg.ext_models[("new", "logging.StreamHandler")] = new_handler(stream_handler_sink)
    for cls in ("logging.FileHandler", "logging.handlers.RotatingFileHandler", "logging.handlers.TimedRotatingFileHandler",
                "logging.handlers.WatchedFileHandler"):
        reg.ext_models[("new", cls)] = new_handler(lambda a, k: "file")
    reg.ext_models["logging.basicConfig"] = m_basic_config
    reg.ext_models["logging.disable"] = m_disable
    reg.ext_models[("setattr", "Logger")] = set_logger_attr
    reg.attr_models[("Logger", "handlers")] = a_handlers
    reg.method_models[("Logger", "addHandler")] = m_add_handler


class LoggingMixin:
    """Executor side: everything of `logging` the model above does not cover marks the path `log_unsure`."""

    def _is_logging_module(self, name):
        return self.module.imports.get(name, None) == "logging"

    def s_Expr(self, s, st):
        n = s.value
        if self.is_logger_call(n) and isinstance(n.func.value, ast.Name) and self._is_logging_module(n.func.value.id):
            from pyvc.symex import Outcome
            return [Outcome("fall", s2) for (s2, _v) in self.e_Call(n, st)]
        return super().s_Expr(s, st)

    def e_Call(self, n, st):
        # logging.warning(...) & co (module-level functions): call basicConfig() first when the root logger has no handler
        if self.is_logger_call(n) and isinstance(n.func.value, ast.Name) and self._is_logging_module(n.func.value.id):
            m = self.reg.ext_models.get("logging.basicConfig")
            if m is not None and not isinstance(m, type(None)):
                m(self, st, [], {}, n)
            return [(st, NONE)]
        return super().e_Call(n, st)

    def havoc_call(self, st, what, args, node):
        if isinstance(what, str) and what.startswith("unknown:"):
            what_ = what[len("unknown:"):]
        else:
            what_ = what
        if isinstance(what_, str) and (what_.startswith("logging.") or what_.startswith("Logger.") or what_.startswith("Handler.")):
            recv = None
            if what_.startswith("Logger.") and isinstance(node, ast.Call) and isinstance(node.func, ast.Attribute):
                # methods of a *named* logger (setLevel, propagate, ...) do not concern records of other loggers
                try:
                    vals = self.ev(node.func.value, st.fork())
                    recv = vals[0][1] if len(vals) == 1 else None
                except Exception:  # noqa
                    recv = None
            if not (isinstance(recv, VExt) and recv.sort == "Logger" and logger_kind(st, recv) == "named"):
                st.ghost["log_unsure"] = True
        return super().havoc_call(st, what, args, node)


def silenced_term(g):
    """-> (z3 Bool "no record of any logger reaches stderr/stdout", note)"""
    n0 = g.get("root_handlers_n")
    added = tuple(g.get("root_added", ()))
    noisy = z3.Or([c for (s, c) in added if s in ("stderr", "stdout")] + [z3.BoolVal(False)])
    quiet = z3.Or([c for (s, c) in added if s in ("none", "file")] + [z3.BoolVal(False)])
    pre = (n0 > 0) if n0 is not None else z3.BoolVal(False)
    silenced = z3.And(z3.Not(noisy), z3.Or(quiet, pre, z3.BoolVal(bool(g.get("log_disabled")))))
    unsure = bool(g.get("log_unsure")) or any(s == "unsure" for (s, _c) in added) or bool(g.get("maybe_added"))
    if unsure:
        silenced = z3.Or(silenced, MARK)
    note = (f"root_added={[s for (s, _c) in added]} named_added={[s for (s, _c) in g.get('named_added', ())]} "
            f"maybe_added={[s for (s, _c) in g.get('maybe_added', ())]} disabled={bool(g.get('log_disabled'))} unsure={unsure}")
    return z3.simplify(silenced), note
