"""C13 (b) -- BOUNDED walker obligations: every document shape of the grammar below, texts symbolic.

Grammar of the enumerated source documents (the generated tables of the property's quantifier):

    doc   ::= block+                    1..2 tables, optionally a paragraph before / between them (adjacent tables)
    block ::= paragraph | table
    table ::= row{1..2}                 optionally the first row inside the format's header-rows wrapper
    row   ::= cell{1..2}                rows of one table may differ in length (ragged)
    cell  ::= item{0..2}                empty cell, one paragraph, several paragraphs, an empty paragraph,
    item  ::= paragraph | table         a table inside a cell (nesting depth 1, the inner table up to 2 x 1 / 1 x 2)

Every paragraph carries an unconstrained symbolic text.  For each shape the REAL walker is executed symbolically on
the concrete-shape element tree (contracts/etree_model.py), all loops unrolled exactly, and its result is compared with
the grid specification computed from the *abstract shape* (not from the tree):

    tables(doc)  = all tables in document order (a nested table after the table containing it, before the next sibling)
    grid(t)      = [[cell_text(c) for c in cells(r)] for r in rows(t)]       rows/cells = direct children (through
                   the header-rows wrapper), a nested table contributes neither rows nor text to the outer table
    cell_text(c) = the format's paragraph rule over the cell's OWN paragraphs

These obligations are labelled BOUNDED and are never counted as proved.
"""
import itertools
import json

import z3

from pyvc import loader, ops, solve
from pyvc.contracts import FnContract, Registry
from pyvc.exctypes import Universe
from pyvc.ops import Unsupported
from pyvc.state import Frame, HeapObj, State
from pyvc.values import NONE, V, VBool, VExt, VInt, VRef, VSeq, VStr, VTuple, VUnk, ext_sort, fresh_name
from pyvc.verify import p_unk
from contracts import etree_model as ET
from contracts.etree_model import CNode
from contracts.symlist import mentions_over, register_over

EXTR = "sharepoint2text/parsing/extractors/"
DOCX = EXTR + "ms_modern/docx_extractor.py"
PPTX = EXTR + "ms_modern/pptx_extractor.py"
ODT = EXTR + "open_office/odt_extractor.py"
ODP = EXTR + "open_office/odp_extractor.py"
ODS = EXTR + "open_office/ods_extractor.py"
HTML = EXTR + "html_extractor.py"
EPUB = EXTR + "epub_extractor.py"
XLSX = EXTR + "ms_modern/xlsx_extractor.py"
XLS = EXTR + "ms_legacy/xls_extractor.py"

S = z3.StringSort()
STRIP = z3.Function("str_strip", S, S)
WSSUB = z3.Function("ws_runs_to_one_space", S, S)
NL = z3.StringVal("\n")


# =============================================================== shapes ==
def T(rows, hdr=0):
    return {"hdr": hdr, "rows": rows}


def is_table(x):
    return isinstance(x, dict)


def bp(bi, b):
    """leaf-path prefix of block bi; a table marked {"like": "b0"} carries exactly the texts (and, where the format has one,
    the position) of block 0: two DISTINCT source tables with identical content"""
    return b.get("like", f"b{bi}") if isinstance(b, dict) else f"b{bi}"


BASE_CELLS = ([], ["p"], ["p", "p"])
INNER = (T([[["p"]]]), T([[["p"]], [["p"]]]), T([[["p"], ["p"]]]))


def single_tables(hdr_wrapper, nested=True, cells=BASE_CELLS, extra_cells=(["e"], ["p", "e"])):
    """tables up to 2 x 2 (ragged) over the base cell contents, + special cells in a 1 x 1 table, + nested variants"""
    out = []
    rows = [[c] for c in cells] + [[a, b] for a in cells for b in cells]
    tabs = [[r] for r in rows] + [[r1, r2] for r1 in rows for r2 in rows]
    for t in tabs:
        out.append(T(t))
        if hdr_wrapper:
            out.append(T(t, 1))
    for c in extra_cells:
        out.append(T([[c]]))
    if nested:
        outer = ([[None]], [[None, ["p"]]], [[["p"], None]], [[None], [["p"]]], [[["p"]], [None]],
                 [[None, ["p"]], [["p"], ["p"]]], [[["p"], None], [["p"], ["p"]]], [[["p"], ["p"]], [None, ["p"]]], [[["p"], ["p"]], [["p"], None]])
        for o in outer:
            for inner in INNER:
                for var in (lambda i: [i], lambda i: ["p", i], lambda i: [i, "p"]):
                    rows_ = [[(var(inner) if c is None else c) for c in r] for r in o]
                    out.append(T(rows_))
                    if hdr_wrapper and len(rows_) == 2:
                        out.append(T(rows_, 1))
    return out


# paragraph item kinds: "p" text in a run that is a direct child of the paragraph, "e" a run without text, "m" a paragraph mark only
# (no run at all), "h" the run sits inside a wrapper element of the paragraph (w:hyperlink / w:ins / w:smartTag / w:sdt ...)
RUN_CELLS = (["e"], ["p", "e"], ["m"], ["h"], ["p", "h"], ["p", "m", "p"], ["h", "m"])


def docs(hdr_wrapper, nested=True, extra_cells=None):
    out = [[t] for t in (single_tables(hdr_wrapper, nested) if extra_cells is None else single_tables(hdr_wrapper, nested, extra_cells=extra_cells))]
    out += [["p", t] for t in (T([[["p"]]]), T([[["p"], ["p"]]]))]
    small = (T([[["p"]]]), T([[["p"], ["p"]]]), T([[["p"]], [["p"]]]))
    for a in small:
        for b in small:
            out.append([a, b])
            out.append([a, "p", b])
    # two DISTINCT tables with identical content (adjacent / separated by a paragraph): both must be returned
    for a in small[:2]:
        out.append([a, dict(a, like="b0")])
        out.append([a, "p", dict(a, like="b0")])
    if nested:
        out.append([T([[[INNER[0]]]]), T([[["p"]]])])
        out.append([T([[["p"]]]), T([[["p", INNER[0]]]])])
    return out


def features(doc):
    f = set()
    tabs = [b for b in doc if is_table(b)]
    if len(tabs) > 1:
        f.add("adjacent")
    if any("like" in t for t in tabs):
        f.add("identical_tables")
    if any(t.get("wrap") for t in tabs):
        f.add("wrapped_table")

    def tab(t, depth):
        if depth:
            f.add("nested")
        if t["hdr"]:
            f.add("hdr")
        if len({len(r) for r in t["rows"]}) > 1:
            f.add("ragged")
        for r in t["rows"]:
            for c in r:
                ps = [i for i in c if not is_table(i)]
                if not c:
                    f.add("empty_cell")
                if len(ps) > 1:
                    f.add("multi_par")
                if "e" in ps or "m" in ps:
                    f.add("empty_par")
                if "h" in ps:
                    f.add("wrapped_runs")
                if "s" in ps:
                    f.add("inline_markup")
                if "/" in ps:
                    f.add("selfclosed_cell")
                for i in c:
                    if is_table(i):
                        tab(i, depth + 1)
    for t in tabs:
        tab(t, 0)
    return sorted(f)


def txt(path):
    return z3.String("t_" + path)


def par_text(item, path):
    return z3.StringVal("") if item in ("e", "m") else txt(path)


def tables_in_order(doc):
    """[(path, table)] in document order, nested tables after their container."""
    out = []

    def tab(t, path):
        out.append((path, t))
        for ri, r in enumerate(t["rows"]):
            for ci, c in enumerate(r):
                for ii, it in enumerate(c):
                    if is_table(it):
                        tab(it, f"{path}.r{ri}c{ci}i{ii}")
    for bi, b in enumerate(doc):
        if is_table(b):
            tab(b, bp(bi, b))
    return out


def own_paragraph_texts(cell, path):
    return [par_text(it, f"{path}i{ii}") for ii, it in enumerate(cell) if not is_table(it)]


def join_terms(sep, terms):
    if not terms:
        return z3.StringVal("")
    acc = terms[0]
    for t in terms[1:]:
        acc = z3.Concat(acc, sep, t)
    return acc


def expected_grids(doc, cell_rule):
    return [[[cell_rule(c, f"{path}.r{ri}c{ci}") for ci, c in enumerate(r)] for ri, r in enumerate(t["rows"])]
            for (path, t) in tables_in_order(doc)]


# ======================================================== running a function ==
class Run:
    def __init__(self, rel, repo, install):
        from contracts.C13 import C13Executor
        self.mod = loader.module(rel, repo)
        self.reg = Registry()
        ET.install(self.reg)
        install_str_models(self.reg)
        install(self.reg)
        register_over()
        self.ex = C13Executor(self.mod, self.reg, Universe(repo))
        self.ex.oid_prefix = "bounded"

    def call(self, qual, env, st=None):
        """-> (returns [(state, value)], raises [(state, exc)])"""
        ex = self.ex
        fnode = self.mod.functions[qual]
        st = st or State()
        st.frames = [Frame(dict(env), None, fnode)]
        ex.cur_fn_stack.append(fnode)
        ex.sinks.append([])
        try:
            outs = ex.exec_block(fnode.body, st)
        finally:
            sink = ex.sinks.pop()
            ex.cur_fn_stack.pop()
        rets = [(o.st, o.val if o.kind == "return" else NONE) for o in outs if o.kind in ("fall", "return")]
        raises = [(o.st, o.val) for o in outs if o.kind == "raise"] + list(sink)
        return rets, raises

    def method(self, st, me, cls, name, args):
        """call a method of the object `me` (class `cls` of this module) in state st -> ([states], [(state, exc)])"""
        ex = self.ex
        fnode = self.mod.functions[f"{cls}.{name}"]
        env = ex.bind_params(fnode, args, {}, fnode, self_val=me)
        st.frames = [Frame({}, None, None)]
        ex.sinks.append([])
        try:
            res = ex.run_body(st, fnode, env, None)
        finally:
            sink = ex.sinks.pop()
        return [s for (s, _v) in res], list(sink)


def to_py(st, v):
    if isinstance(v, VRef):
        o = st.obj(v.ref)
        if o.kind in ("list", "bytearray") and o.data is not None:
            return [to_py(st, x) for x in o.data]
        if o.kind == "obj" and "data" in o.data:
            return to_py(st, o.data["data"])
        return ("?", o.kind)
    if isinstance(v, VTuple):
        return [to_py(st, x) for x in v.items]
    if isinstance(v, (VStr, VInt, VBool)):
        return v.t
    if v is NONE:
        return None
    if type(v).__name__ == "VReal":
        return v.t
    return ("?", repr(v))


def holds(pc, goal):
    g = z3.simplify(goal)
    if z3.is_true(g):
        return "proved", 0.0
    r = solve.check_vc(pc, goal, 20000, want_model=False, use_cvc5=False)
    return r.status, r.seconds


def term_eq(a, b):
    if a is None or b is None:
        return z3.BoolVal(a is None and b is None)
    if isinstance(a, tuple) or isinstance(b, tuple):
        return z3.BoolVal(False)
    try:
        if a.sort() != b.sort():
            if z3.is_int(a) and z3.is_real(b):
                return z3.ToReal(a) == b
            return z3.BoolVal(False)
        return a == b
    except Exception:  # noqa
        return z3.BoolVal(False)


def show(x):
    if x is None or isinstance(x, tuple):
        return repr(x)
    try:
        return " ".join(str(z3.simplify(x)).split())
    except Exception:  # noqa
        return repr(x)


class Tally:
    """Collects per-clause verdicts over all shapes of one walker."""

    def __init__(self, prefix, clauses):
        self.prefix = prefix
        self.c = {k: {"n": 0, "failing": [], "unknown": [], "seconds": 0.0} for k in clauses}

    def record(self, clause, status, shape, feats, detail="", secs=0.0):
        d = self.c[clause]
        d["n"] += 1
        d["seconds"] += secs
        if status == "refuted":
            d["failing"].append({"shape": shape, "features": feats, "detail": detail})
        elif status != "proved":
            d["unknown"].append({"shape": shape, "detail": detail})

    def obligations(self, loc):
        out = []
        for k, d in self.c.items():
            status = "refuted" if d["failing"] else ("unknown" if d["unknown"] or d["n"] == 0 else "proved")
            fail = sorted(d["failing"], key=lambda x: len(json.dumps(x["shape"])))
            reason = ""
            if fail:
                reason = f"{len(fail)} of {d['n']} shapes fail; smallest: {json.dumps(fail[0]['shape'])} -- {fail[0]['detail']}"
            elif d["unknown"]:
                reason = f"{len(d['unknown'])} shapes undecided: {d['unknown'][0]['detail']}"
            out.append({"id": f"{self.prefix}/bounded#{k}", "kind": "bounded", "bounded": True, "status": status, "vcs": d["n"],
                        "seconds": round(d["seconds"], 3), "backends": {"z3-bounded": d["n"]}, "witness": fail[0] if fail else None,
                        "failing": [{"shape": x["shape"], "features": x["features"]} for x in fail[:2000]],
                        "reason": reason, "loc": loc})
        return out


CLAUSES = ("no-exception", "tables-in-document-order-none-lost-none-invented", "rows-and-cells-are-the-direct-ones", "cell-holds-its-own-text")


def path_status(pc):
    """'sat' | 'unsat' | 'unknown' for a path condition (a path whose condition is unsatisfiable does not exist; the
    executor keeps a path when its cheap pruning query times out, so every recorded mismatch is re-checked here)"""
    s = z3.Solver()
    s.set("timeout", 20000)
    s.add(*pc)
    r = s.check()
    return "sat" if r == z3.sat else ("unsat" if r == z3.unsat else "unknown")


def compare(tally, st_pc, got, want, shape, feats):
    """got / want: list of tables (list of rows (list of z3 terms))."""
    ps = path_status(st_pc) if st_pc else "sat"
    if ps == "unsat":
        return
    if mentions_over(st_pc):
        # the path went through an over-approximation (unmodelled call, loop cut without invariant): what it returned is not
        # what the real code returns -> nothing is decided here, the native replayer runs the real code
        for k in CLAUSES[1:]:
            tally.record(k, "unknown", shape, feats, "over-approximated path (unmodelled construct); decided by native replay")
        return
    if ps == "unknown":
        for k in CLAUSES[1:]:
            tally.record(k, "unknown", shape, feats, "path condition undecided (solver timeout)")
        return
    ok_list = isinstance(got, list) and all(isinstance(t, list) and all(isinstance(r, list) for r in t) for t in got)
    if not ok_list:
        for k in CLAUSES[1:]:
            tally.record(k, "refuted", shape, feats, f"result is not a list of tables of rows: {got!r}"[:200])
        return
    tally.record(CLAUSES[1], "proved" if len(got) == len(want) else "refuted", shape, feats,
                 f"{len(got)} tables returned, {len(want)} in the source")
    shape_ok, detail = True, ""
    cells_status, cdetail, secs = "proved", "", 0.0
    for ti in range(min(len(got), len(want))):
        g, w = got[ti], want[ti]
        gs, ws = [len(r) for r in g], [len(r) for r in w]
        if gs != ws:
            shape_ok, detail = False, f"table {ti}: row lengths returned {gs}, source {ws}"
        for ri in range(min(len(g), len(w))):
            for ci in range(min(len(g[ri]), len(w[ri]))):
                s_, dt = holds(st_pc, term_eq(g[ri][ci], w[ri][ci]))
                secs += dt
                if s_ == "refuted" and cells_status != "refuted":
                    cells_status, cdetail = "refuted", f"table {ti} cell ({ri},{ci}) returned {show(g[ri][ci])}, source cell holds {show(w[ri][ci])}"[:300]
                elif s_ == "unknown" and cells_status == "proved":
                    cells_status, cdetail = "unknown", f"table {ti} cell ({ri},{ci}) undecided"
    tally.record(CLAUSES[2], "proved" if shape_ok else "refuted", shape, feats, detail)
    tally.record(CLAUSES[3], cells_status, shape, feats, cdetail, secs)


PART = (0, 1)      # (k, n): this job handles the shapes with index = k mod n (the pack splits long walkers over the pool)


def my_part(shapes):
    k, n = PART
    return [s for i, s in enumerate(shapes) if i % n == k]


def run_walker(prefix, loc, shapes, run_one):
    """run_one(doc) -> [(pc, got_tables, want_tables)] for normal outcomes, [(pc, exc)] raising outcomes"""
    shapes = my_part(shapes)
    tally = Tally(prefix, CLAUSES)
    undecided = []
    for doc in shapes:
        feats = features(doc)
        try:
            rets, raises = run_one(doc)
        except Unsupported as e:
            for k in CLAUSES:
                tally.record(k, "unknown", doc, feats, f"OUT-OF-SUBSET {e}"[:200])
            continue
        feas = [r for r in raises if _feasible(r[0])]
        definite = [r for r in feas if not mentions_over(r[0])]
        tally.record(CLAUSES[0], "refuted" if definite else ("unknown" if feas else "proved"), doc, feats,
                     "an exception can escape" if definite else ("exception only on an over-approximated path" if feas else ""))
        if not rets:
            for k in CLAUSES[1:]:
                tally.record(k, "refuted" if definite else "unknown", doc, feats, "no normal outcome")
        for (pc, got, want) in rets:
            compare(tally, pc, got, want, doc, feats)
    return {"obligations": tally.obligations(loc), "undecided": undecided}


def _feasible(pc):
    return path_status(pc) != "unsat"


# ============================================================ ODF / OOXML trees ==
def assumed_text(rel, fn, param="element"):
    """ASSUMED contract of a paragraph-text helper (verified as part of C02): returns the text of the element."""
    def ret(c):
        n = ET.node_of(c.args[param])
        if n is not None and getattr(n, "ptext", None) is not None:
            return VStr(n.ptext)
        return VStr(PTEXT(c.args[param].t)) if isinstance(c.args[param], VExt) else VStr(z3.String(fresh_name("text")))
    return FnContract(target=f"{rel}::{fn}", params=[(param, p_unk())], assumed=True, returns=ret,
                      note="paragraph text rule of the format (C02)")


PTEXT = z3.Function("paragraph_text", ET.ELEM, S)


def leaf(tag, text_term):
    n = CNode(tag)
    n.ptext = text_term
    return n


W = "{http://schemas.openxmlformats.org/wordprocessingml/2006/main}"
ODF_T = "{urn:oasis:names:tc:opendocument:xmlns:table:1.0}"
ODF_X = "{urn:oasis:names:tc:opendocument:xmlns:text:1.0}"
ODF_O = "{urn:oasis:names:tc:opendocument:xmlns:office:1.0}"
A = "{http://schemas.openxmlformats.org/drawingml/2006/main}"
P_ = "{http://schemas.openxmlformats.org/presentationml/2006/main}"


def build_xml_tree(doc, root_tag, tags):
    """tags: dict p, table, row, cell, hdr (wrapper tag or None), run / run_wrapper (formats whose paragraph text sits in run children:
    "p" / "e" = a run that is a direct child of the paragraph, "h" = a run inside a wrapper child, "m" = no run at all)"""
    def leaf(tag, text_term, item="p"):
        n = CNode(tag)
        if tags.get("run") and tag == tags["p"] and item != "m":
            r = CNode(tags["run"])
            n = CNode(tag, children=[CNode(tags["run_wrapper"], children=[r])] if item == "h" else [r])
        n.ptext = text_term
        return n

    def table(t, path):
        rows = []
        for ri, r in enumerate(t["rows"]):
            cells = []
            for ci, c in enumerate(r):
                items = []
                for ii, it in enumerate(c):
                    ip = f"{path}.r{ri}c{ci}i{ii}"
                    items.append(table(it, ip) if is_table(it) else leaf(tags["p"], par_text(it, ip), it))
                cells.append(CNode(tags["cell"], children=items))
            rows.append(CNode(tags["row"], children=cells))
        if t["hdr"] and tags.get("hdr"):
            rows = [CNode(tags["hdr"], children=rows[:t["hdr"]])] + rows[t["hdr"]:]
        return CNode(tags["table"], children=rows)
    blocks = []
    for bi, b in enumerate(doc):
        blocks.append(table(b, bp(bi, b)) if is_table(b) else leaf(tags["p"], txt(f"b{bi}")))
    return CNode(root_tag, children=blocks)


def nl_rule(cell, path):
    return join_terms(NL, own_paragraph_texts(cell, path))


DOCX_TAGS = {"p": W + "p", "table": W + "tbl", "row": W + "tr", "cell": W + "tc", "hdr": None, "run": W + "r", "run_wrapper": W + "hyperlink"}
ODF_TAGS = {"p": ODF_X + "p", "table": ODF_T + "table", "row": ODF_T + "table-row", "cell": ODF_T + "table-cell", "hdr": ODF_T + "table-header-rows"}


def w_docx(repo, tier):
    run = Run(DOCX, repo, lambda reg: reg.add(assumed_text(DOCX, "_collect_text_from_element")))

    def one(doc):
        body = build_xml_tree(doc, W + "body", DOCX_TAGS)
        st = State()
        ctx = VRef(st.alloc(HeapObj("obj", {"document_body": body.v}, "_DocxContext", fresh=False), run.ex.refs))
        rets, raises = run.call("_extract_tables_from_context", {"ctx": ctx}, st)
        want = expected_grids(doc, nl_rule)
        out = []
        for (s, v) in rets:
            r = to_py(s, v)
            out.append((s.pc, r[0] if isinstance(r, list) and len(r) == 2 else r, want))
        return out, [(s.pc, e) for (s, e) in raises]
    return run_walker("C13/docx_extractor.py::_extract_tables_from_context", DOCX, docs(False, extra_cells=RUN_CELLS), one)


def w_odt(repo, tier):
    run = Run(ODT, repo, lambda reg: reg.add(assumed_text(ODT, "_get_text_recursive")))

    def one(doc):
        body = build_xml_tree(doc, ODF_O + "text", ODF_TAGS)
        rets, raises = run.call("_extract_tables", {"body": body.v})
        want = expected_grids(doc, nl_rule)
        return [(s.pc, to_py(s, v), want) for (s, v) in rets], [(s.pc, e) for (s, e) in raises]
    return run_walker("C13/odt_extractor.py::_extract_tables", ODT, docs(True), one)


def w_odp(repo, tier):
    run = Run(ODP, repo, lambda reg: reg.add(assumed_text(ODP, "_get_text_recursive")))

    def one(doc):
        root = build_xml_tree(doc, "frame", ODF_TAGS)
        rets, raises = run.call("_extract_table", {"table_elem": root.children[0].v})
        want = expected_grids(doc, nl_rule)[:1]
        return [(s.pc, [to_py(s, v)], want) for (s, v) in rets], [(s.pc, e) for (s, e) in raises]
    # function level: one table element (the slide loop calls it once per frame); nested tables do not exist in ODP
    return run_walker("C13/odp_extractor.py::_extract_table", ODP, [[t] for t in single_tables(True, nested=True)], one)


ODF_D = "{urn:oasis:names:tc:opendocument:xmlns:drawing:1.0}"
ODF_S = "{urn:oasis:names:tc:opendocument:xmlns:svg-compatible:1.0}"


def w_odp_slide(repo, tier):
    """_extract_slide on a draw:page of 1..3 table frames (+ an empty frame): frames without position, with positions that
    ascend in document order, and with EQUAL positions (ties keep document order): slide.tables == the grids in reading order"""
    def inst(reg):
        reg.add(assumed_text(ODP, "_get_text_recursive"))
        install_concrete_re(reg, ODP, repo)
    run = Run(ODP, repo, inst)
    P = ["p"]
    tabs = (T([[P]]), T([[P, P]]), T([[P], [P]]))
    cases = []
    for n in (1, 2, 3):
        for layout in ("none", "ascending", "equal"):
            for empty_frame in (False, True):
                cases.append({"doc": [tabs[k] for k in range(n)], "positions": layout, "empty_frame": empty_frame})
    tally = Tally("C13/odp_extractor.py::_extract_slide", CLAUSES)
    for case in my_part(cases):
        doc, feats = case["doc"], features(case["doc"]) + [f"positions_{case['positions']}"]
        frames = []
        for bi, b in enumerate(doc):
            at = {} if case["positions"] == "none" else ({ODF_S + "x": VStr("1cm"), ODF_S + "y": VStr("2cm")} if case["positions"] == "equal"
                                                         else {ODF_S + "x": VStr("1cm"), ODF_S + "y": VStr(f"{bi + 1}cm")})
            tree = build_xml_tree([b], "x", ODF_TAGS).children[0]
            # texts of block bi
            tree = build_xml_tree([None] * bi + [b], "x", dict(ODF_TAGS), ) if False else tree
            frames.append(CNode(ODF_D + "frame", attrib=at, children=[_retag(tree, bi)]))
        if case["empty_frame"]:
            frames.insert(1 if len(frames) > 1 else 0, CNode(ODF_D + "frame", attrib={}))
        page = CNode(ODF_D + "page", attrib={ODF_D + "name": VStr("page1")}, children=frames)
        want = [g for bi, b in enumerate(doc) for g in expected_grids([None] * bi + [b], nl_rule)] if False else \
            [[[nl_rule(c, f"b{bi}.r{ri}c{ci}") for ci, c in enumerate(r)] for ri, r in enumerate(b["rows"])] for bi, b in enumerate(doc)]
        try:
            rets, raises = run.call("_extract_slide", {"ctx": VUnk("ctx"), "page": page.v, "slide_number": VInt(1), "image_counter": VInt(0)})
        except Unsupported as e:
            for k in CLAUSES:
                tally.record(k, "unknown", case, feats, f"OUT-OF-SUBSET {e}"[:200])
            continue
        feas = [r for r in raises if _feasible(r[0].pc)]
        definite = [r for r in feas if not mentions_over(r[0].pc)]
        tally.record(CLAUSES[0], "refuted" if definite else ("unknown" if feas else "proved"), case, feats,
                     "an exception can escape" if definite else ("exception only on an over-approximated path" if feas else ""))
        if not rets:
            for k in CLAUSES[1:]:
                tally.record(k, "refuted" if definite else "unknown", case, feats, "no normal outcome")
        for (s_, v) in rets:
            r = run.ex.concrete_items(s_, v) if isinstance(v, VTuple) else None
            slide = r[0] if r else None
            got = to_py(s_, s_.obj(slide.ref).data.get("tables")) if isinstance(slide, VRef) and s_.obj(slide.ref).kind == "obj" else ("?", "no slide")
            compare(tally, s_.pc, got, want, case, feats)
    return {"obligations": tally.obligations(ODP)}


def _retag(table_node, bi):
    """give the paragraphs of a table built as block 0 the texts of block bi"""
    for n in table_node.iter():
        if getattr(n, "ptext", None) is not None and z3.is_const(n.ptext) and str(n.ptext).startswith("t_b0"):
            n.ptext = z3.String("t_b" + str(bi) + str(n.ptext)[4:])
    return table_node


def w_pptx(repo, tier):
    run = Run(PPTX, repo, lambda reg: reg.add(assumed_text(PPTX, "_extract_text_from_paragraphs", "elem")))
    uri = loader.module(PPTX, repo).literal("TABLE_URI")

    def rule(cell, path):
        ps = [it for it in cell if not is_table(it)]
        return STRIP(txt(path + ".body")) if ps else z3.StringVal("")

    def one(doc):
        t = doc[0]
        rows = []
        for ri, r in enumerate(t["rows"]):
            cells = []
            for ci, c in enumerate(r):
                kids = [leaf(A + "txBody", txt(f"b0.r{ri}c{ci}.body"))] if c else []
                cells.append(CNode(A + "tc", children=kids + [CNode(A + "tcPr")]))
            rows.append(CNode(A + "tr", children=cells))
        tbl = CNode(A + "tbl", children=[CNode(A + "tblPr"), CNode(A + "tblGrid")] + rows)
        frame = CNode(P_ + "graphicFrame", children=[CNode(P_ + "nvGraphicFramePr"), CNode(A + "graphic", children=[
            CNode(A + "graphicData", attrib={"uri": VStr(uri)}, children=[tbl])])])
        rets, raises = run.call("_extract_table_from_graphic_frame", {"elem": frame.v})
        want = expected_grids(doc, rule)
        return [(s.pc, [to_py(s, v)], want) for (s, v) in rets], [(s.pc, e) for (s, e) in raises]
    # DrawingML tables cannot nest and have no header wrapper; a cell's paragraphs live in its a:txBody (text rule: C02)
    shapes = [[t] for t in single_tables(False, nested=False, cells=([], ["p"]), extra_cells=())]
    return run_walker("C13/pptx_extractor.py::_extract_table_from_graphic_frame", PPTX, shapes, one)


# ================================================================= HTML / EPUB ==
def mk_strip(t):
    """str.strip() with the assumed algebra: idempotent, and whitespace-collapsing a stripped string leaves it stripped."""
    if z3.is_string_value(t):
        return z3.StringVal(t.as_string().strip())
    if z3.is_app(t) and t.decl().eq(STRIP):
        return t
    if z3.is_app(t) and t.decl().eq(WSSUB) and z3.is_app(t.arg(0)) and t.arg(0).decl().eq(STRIP):
        return t
    return STRIP(t)


def mk_wssub(t):
    import re
    if z3.is_string_value(t):
        return z3.StringVal(re.sub(r"\s+", " ", t.as_string()))
    return WSSUB(t)


def NORM(t):
    """HTML whitespace normalisation of a cell text: strip, runs of whitespace -> one space"""
    return mk_wssub(mk_strip(z3.simplify(t)))


WORDS_SORT = ext_sort("Words")
WORDS = z3.Function("str_split_ws", S, WORDS_SORT)


def install_str_models(reg):
    reg.ext_models["str.strip"] = lambda ex, st, args, kw, node: [(st, VStr(mk_strip(z3.simplify(args[0].t))))] if len(args) == 1 else ex.havoc_call(st, "strip(chars)", [], node)

    def m_split(ex, st, args, kw, node):
        if len(args) != 1:
            return ex.havoc_call(st, "str.split(sep)", [], node)
        return [(st, VExt("Words", WORDS(args[0].t)))]

    def m_join(ex, st, args, kw, node):
        sep, it = args[0], args[1]
        if isinstance(it, VExt) and it.sort == "Words" and sep.const() == " " and z3.is_app(it.t) and it.t.decl().eq(WORDS):
            # " ".join(s.split()) == strip + collapse whitespace runs (ASSUMED, checked natively by the replayer)
            return [(st, VStr(mk_wssub(mk_strip(it.t.arg(0)))))]
        return [(st, VStr(z3.String(fresh_name("join"))))]
    def m_recompile(ex, st, a, kw, node):
        """re.compile(r"\\s+") is the whitespace-run pattern of the model (sub(" ", s) = WSSUB); other patterns are not modelled here"""
        if len(a) == 1 and not kw and isinstance(a[0], VStr) and a[0].const() == "\\s+":
            return [(st, VExt("RegexWS"))]
        return ex.havoc_call(st, "re.compile", [], node)

    def m_resub(ex, st, a, kw, node):
        if len(a) == 3 and not kw and all(isinstance(x, VStr) for x in a) and a[0].const() == "\\s+" and a[1].const() == " ":
            return [(st, VStr(mk_wssub(z3.simplify(a[2].t))))]
        return ex.havoc_call(st, "re.sub", [], node)
    reg.ext_models.setdefault("re.compile", m_recompile)
    reg.ext_models.setdefault("re.sub", m_resub)
    reg.ext_models["str.split"] = m_split
    reg.ext_models["str.join"] = m_join
    reg.method_models[("RegexWS", "sub")] = lambda ex, st, o, a, k, n: [(st, VStr(mk_wssub(z3.simplify(a[1].t))))] if len(a) == 2 and isinstance(a[0], VStr) and a[0].const() == " " and isinstance(a[1], VStr) else ex.havoc_call(st, "re.sub", [], n)


def html_rule(cell, path):
    """cell text: the cell's own paragraphs (block children) separated by white space, inline pieces of a paragraph
    run together, the whole whitespace-normalised"""
    parts = []
    for ii, it in enumerate(cell):
        if is_table(it) or it == "/":
            continue
        ip = f"{path}i{ii}"
        parts.append(z3.Concat(txt(ip + "a"), txt(ip + "b")) if it == "s" else par_text(it, ip))
    return NORM(join_terms(z3.StringVal(" "), parts))


def html_leaves(doc):
    out = []

    def tab(t, path):
        for ri, r in enumerate(t["rows"]):
            for ci, c in enumerate(r):
                for ii, it in enumerate(c):
                    ip = f"{path}.r{ri}c{ci}i{ii}"
                    if is_table(it):
                        tab(it, ip)
                    elif it == "s":
                        out.extend([txt(ip + "a"), txt(ip + "b")])
                    elif it == "p":
                        out.append(txt(ip))
    for bi, b in enumerate(doc):
        if is_table(b):
            tab(b, bp(bi, b))
        else:
            out.append(txt(f"b{bi}"))
    return out


def html_shapes():
    """+ inline markup inside a paragraph ("s") and empty cells serialised in self-closed form (<td/>, <th/>: cell ["/"])"""
    cells = ([], ["p"], ["p", "p"])
    out = [[t] for t in single_tables(True, True, cells, extra_cells=(["s"], ["s", "p"]))]
    out += [d for d in docs(True) if len(d) > 1]
    # a table inside non-table wrapper elements (block, inline, unknown tags; one and two levels)
    for w in (["div"], ["center"], ["span"], ["font", "center"], ["a", "span"], ["b", "i"], ["div", "font"]):
        out.append([dict(T([[["p"], ["p"]]]), wrap=w)])
        out.append([dict(T([[["p"]]]), wrap=w), T([[["p"]]])])
    SC, P = ["/"], ["p"]
    for rows in ([[SC]], [[SC, P]], [[P, SC]], [[SC, SC]], [[SC], [P]], [[P], [SC]], [[P, SC], [SC, P]], [[SC, SC], [P, P]], [[P, P], [SC, SC]]):
        out.append([T(rows)])
        out.append([T(rows, 1)])
    return out


def html_events(doc):
    """parser events of the serialised document, in document order: ("s", tag) start tag, ("e", tag) end tag, ("se", tag) a
    self-closed element (<td/>), ("d", text) character data"""
    ev = []

    def par(it, ip):
        ev.append(("s", "p"))
        if it == "s":
            ev.extend([("d", txt(ip + "a")), ("s", "b"), ("d", txt(ip + "b")), ("e", "b")])
        elif it == "p":
            ev.append(("d", txt(ip)))
        ev.append(("e", "p"))

    def table(t, path):
        for w in t.get("wrap", ()):
            ev.append(("s", w))
        table_inner(t, path)
        for w in reversed(t.get("wrap", ())):
            ev.append(("e", w))

    def table_inner(t, path):
        ev.append(("s", "table"))
        for ri, r in enumerate(t["rows"]):
            if t["hdr"] and ri == 0:
                ev.append(("s", "thead"))
            if t["hdr"] and ri == t["hdr"]:
                ev.extend([("e", "thead"), ("s", "tbody")])
            ev.append(("s", "tr"))
            for ci, c in enumerate(r):
                ctag = "th" if ri < t["hdr"] else "td"
                cp = f"{path}.r{ri}c{ci}"
                if c == ["/"]:
                    ev.append(("se", ctag))
                    continue
                ev.append(("s", ctag))
                if c == ["p"]:
                    ev.append(("d", txt(cp + "i0")))
                else:
                    for ii, it in enumerate(c):
                        if is_table(it):
                            table(it, f"{cp}i{ii}")
                        else:
                            par(it, f"{cp}i{ii}")
                ev.append(("e", ctag))
            ev.append(("e", "tr"))
        if t["hdr"]:
            ev.append(("e", "tbody" if len(t["rows"]) > t["hdr"] else "thead"))
        ev.append(("e", "table"))
    ev.append(("s", "body"))
    for bi, b in enumerate(doc):
        if is_table(b):
            table(b, bp(bi, b))
        else:
            par("p", f"b{bi}")
    ev.append(("e", "body"))
    return ev


def feed_events(run, st, me, cls, events):
    """html.parser.HTMLParser.feed (ASSUMED): calls handle_starttag / handle_endtag / handle_data in document order and
    handle_startendtag for a self-closed element, whose inherited default is handle_starttag followed by handle_endtag.
    -> ([states], [(state, exc)])"""
    own_startend = f"{cls}.handle_startendtag" in run.mod.functions
    states, raises = [st], []
    for kind, arg in events:
        nxt = []
        for s in states:
            if kind == "s":
                r, x = run.method(s, me, cls, "handle_starttag", [VStr(arg), VTuple([])])
            elif kind == "e":
                r, x = run.method(s, me, cls, "handle_endtag", [VStr(arg)])
            elif kind == "d":
                r, x = run.method(s, me, cls, "handle_data", [VStr(arg)])
            elif own_startend:
                r, x = run.method(s, me, cls, "handle_startendtag", [VStr(arg), VTuple([])])
            else:
                r1, x = run.method(s, me, cls, "handle_starttag", [VStr(arg), VTuple([])])
                r = []
                for s1 in r1:
                    r2, x2 = run.method(s1, me, cls, "handle_endtag", [VStr(arg)])
                    r.extend(r2)
                    x = x + x2
            nxt.extend(r)
            raises.extend(x)
        states = nxt
    return states, raises


def w_html(repo, tier):
    def inst(reg):
        install_str_models(reg)
        reg.method_models[("SuperProxy", "__init__")] = lambda ex, st, o, a, k, n: [(st, NONE)]
        reg.add(FnContract(target=f"{HTML}::_HtmlTextExtractor._format_table_as_text", params=[("self", p_unk()), ("table_data", p_unk())],
                           assumed=True, returns=lambda c: VStr(z3.String(fresh_name("table_text"))), note="text rendering of a table (C02)"))
    run = Run(HTML, repo, inst)
    ex = run.ex

    def one(doc):
        st = State()
        for t in html_leaves(doc):
            st.assume(z3.Length(t) > 0)
        # the tree is built by the REAL _HtmlTreeBuilder handlers from the parser events of the document
        builder = VRef(st.alloc(HeapObj("obj", {}, "_HtmlTreeBuilder", fresh=False), ex.refs))
        states, raises = run.method(st, builder, "_HtmlTreeBuilder", "__init__", [])
        built, out = [], []
        for s0 in states:
            ss, xx = feed_events(run, s0, builder, "_HtmlTreeBuilder", html_events(doc))
            built.extend(ss)
            raises.extend(xx)
        want = expected_grids(doc, html_rule)
        for s in built:
            root = s.obj(builder.ref).data.get("root")
            kids = ex.concrete_items(s, s.obj(root.ref).data["children"]) if isinstance(root, VRef) and s.obj(root.ref).kind == "dict" else None
            if not kids:
                out.append((s.pc, ("?", "tree builder produced no body"), want))
                continue
            body = kids[0]
            tables = VRef(s.alloc(HeapObj("list", []), ex.refs))
            me = VRef(s.alloc(HeapObj("obj", {"root": root, "tables": tables, "_node_cache": VExt("MemoCache"), "_single_node_cache": VExt("MemoCache")},
                                      "_HtmlTextExtractor", fresh=False), ex.refs))
            rets, x2 = run.call("_HtmlTextExtractor._process_node", {"self": me, "node": body, "depth": VInt(0), "include_tail": VBool(False)}, s)
            raises.extend(x2)
            out.extend((s2.pc, to_py(s2, s2.obj(me.ref).data["tables"]), want) for (s2, v) in rets)
        return out, [(s.pc, e) for (s, e) in raises]
    return run_walker("C13/html_extractor.py::_HtmlTreeBuilder.handlers+_HtmlTextExtractor._process_node", HTML, html_shapes(), one)


def w_epub(repo, tier):
    def inst(reg):
        install_str_models(reg)
        reg.method_models[("SuperProxy", "__init__")] = lambda ex, st, o, a, k, n: [(st, NONE)]
    run = Run(EPUB, repo, inst)
    ex = run.ex
    cls = "_XhtmlTextExtractor"

    def one(doc):
        st = State()
        for t in html_leaves(doc):
            st.assume(z3.Length(t) > 0)
        me = VRef(st.alloc(HeapObj("obj", {}, cls, fresh=False), ex.refs))
        states, raises = run.method(st, me, cls, "__init__", [])
        done = []
        for s0 in states:
            ss, xx = feed_events(run, s0, me, cls, html_events(doc))
            done.extend(ss)
            raises.extend(xx)
        want = expected_grids(doc, html_rule)
        return [(s.pc, to_py(s, s.obj(me.ref).data["tables"]), want) for s in done], [(s.pc, e) for (s, e) in raises]
    return run_walker("C13/epub_extractor.py::_XhtmlTextExtractor.handlers", EPUB, html_shapes(), one)


# ====================================================================== sheets ==
# abstract sheet: rows of cell kinds  N empty | s text | i int | f non-integral number | F integral number stored as float
#                                    b bool | d date-time | "=" text equal to the text of the cell to its left (duplicate header)
def sheet_shapes(first_kinds, body_kinds, three=True):
    """1..3 rows x 1..2 columns.  First rows: every combination of the first-row kinds (+ a duplicate name); second rows:
    every kind in every column, next to every other kind at least once and next to an empty cell on either side."""
    out = []
    n = len(body_kinds)
    pairs = []
    for a_, k in enumerate(body_kinds):
        for p_ in ((k, body_kinds[(a_ + 1) % n]), (k, "N"), ("N", k), (k, k)):
            if p_ not in pairs:
                pairs.append(p_)
    for C in (1, 2):
        firsts = list(itertools.product(first_kinds, repeat=C))
        if C == 2:
            firsts.append(("s", "="))
        for f in firsts:
            out.append([list(f)])
            for b in (pairs if C == 2 else [(k,) for k in body_kinds]):
                out.append([list(f), list(b)])
    if three:
        for f in (("s", "s"), ("s", "N"), ("N", "s"), ("s", "=")):
            for b1 in (("s", "N"), ("N", "N"), (body_kinds[2], "s")):
                for b2 in (("N", "s"), ("N", "N"), ("s", "s")):
                    out.append([list(f), list(b1), list(b2)])
    return out


def used_range(sh):
    r = max([i + 1 for i, row in enumerate(sh) if any(k != "N" for k in row)] + [0])
    c = max([j + 1 for row in sh for j, k in enumerate(row) if k != "N"] + [0])
    return r, c


def sheet_features(sh):
    if isinstance(sh, dict):
        return sorted(set(sheet_features(sh["rows"])) | {"identical_tables"})
    f = set()
    first = sh[0]
    if "N" in first:
        f.add("hdr_empty")
    if any(k not in ("s", "=", "N") for k in first):
        f.add("hdr_nontext")
    if "=" in first or any(first.count(k) > 1 for k in ("N", "i", "F")):
        f.add("dup_header")          # two first-row cells with the same text (the concrete numbers of a first row are equal)
    if len(first) > 1 and sum(1 for k in first if k != "N") == 1:
        f.add("title_row")
    if len(sh) == 1:
        f.add("header_only")
    r, c = used_range(sh)
    if r < len(sh) or c < len(sh[0]):
        f.add("trailing_empty")
    if r == 0:
        f.add("empty_sheet")
    for row in sh[1:]:
        for k in row:
            f.add({"N": "empty_cell", "s": "text", "i": "int", "f": "float", "F": "float_integral", "b": "bool", "d": "date"}.get(k, k))
    return sorted(f)


ISO_DT = z3.Function("isoformat_DateTime", ext_sort("DateTime"), S)


def cell_terms(kind, i, j, first_row_concrete=False):
    """(source value as engine value, assumptions, expected typed value term or None)"""
    nm = f"r{i}c{j}"
    if kind == "N":
        return NONE, [], None
    if kind == "s":
        t = z3.String("s_" + nm)
        return VStr(t), [z3.Length(t) > 0, mk_strip(t) != z3.StringVal(""), z3.Not(z3.PrefixOf(z3.StringVal("Unnamed: "), t))], t
    if kind == "=":
        t = z3.String(f"s_r{i}c{j - 1}")
        return VStr(t), [], t
    if kind == "i":
        t = z3.IntVal(7) if first_row_concrete else z3.Int("i_" + nm)
        return VInt(t), [], t
    if kind in ("f", "F"):
        t = z3.Real("f_" + nm)
        integral = z3.ToReal(z3.ToInt(t)) == t
        return ops.lift(t), [integral if kind == "F" else z3.Not(integral)], t
    if kind == "b":
        t = z3.Bool("b_" + nm)
        return VBool(t), [], t
    if kind == "d":
        t = z3.Const("d_" + nm, ext_sort("DateTime"))
        return VExt("DateTime", t), [], ISO_DT(t)
    raise ValueError(kind)


def run_sheets(prefix, loc, shapes, run_one):
    shapes = my_part(shapes)
    tally = Tally(prefix, CLAUSES)
    for sh in shapes:
        feats = sheet_features(sh)
        try:
            rets, raises = run_one(sh)
        except Unsupported as e:
            for k in CLAUSES:
                tally.record(k, "unknown", sh, feats, f"OUT-OF-SUBSET {e}"[:200])
            continue
        feas = [r for r in raises if _feasible(r[0])]
        definite = [r for r in feas if not mentions_over(r[0])]
        tally.record(CLAUSES[0], "refuted" if definite else ("unknown" if feas else "proved"), sh, feats,
                     "an exception can escape" if definite else ("exception only on an over-approximated path" if feas else ""))
        if not rets:
            for k in CLAUSES[1:]:
                tally.record(k, "refuted" if definite else "unknown", sh, feats, "no normal outcome")
        for (pc, got, want) in rets:
            compare(tally, pc, got, want, sh, feats)
    return {"obligations": tally.obligations(loc)}


def expected_sheet(sh, typed, trim=True):
    r, c = used_range(sh) if trim else (len(sh), len(sh[0]))
    return [[[typed(sh[i][j], i, j) for j in range(c)] for i in range(r)]]


def w_xlsx(repo, tier):
    from contracts import C13 as pack
    sheets = {}

    def inst(reg):
        pack.install_value_models(reg)
        reg.add(FnContract(target=f"{XLSX}::_format_sheet_as_text", params=[("all_rows", p_unk())], assumed=True,
                           returns=lambda c: VStr(z3.String(fresh_name("sheet_text"))), note="text rendering of a sheet (C02)"))
        reg.method_models[("Worksheet", "iter_rows")] = lambda ex, st, o, a, k, n: [(st, sheets[o.t.get_id()])]
    run = Run(XLSX, repo, inst)

    def typed(kind, i, j):
        return cell_terms(kind, i, j, i == 0)[2]

    def one(sh):
        copies = 1
        if isinstance(sh, dict):
            copies, sh = sh["copies"], sh["rows"]
        st = State()
        rows = []
        for i, row in enumerate(sh):
            vals = []
            for j, k in enumerate(row):
                v, asm, _ = cell_terms(k, i, j, i == 0)
                vals.append(v)
                for a in asm:
                    st.assume(a)
            rows.append(VTuple(vals))
        names = [f"S{k}" for k in range(copies)]
        book = {}
        for nm in names:                       # distinct sheets (objects, names) with identical content
            ws = VExt("Worksheet")
            sheets[ws.t.get_id()] = VTuple(rows)
            book[nm] = ws
        wb = VRef(st.alloc(HeapObj("dict", book, fresh=False), run.ex.refs))
        rets, raises = run.call("_read_content_from_workbook", {"wb": wb, "sheet_names": VTuple([VStr(nm) for nm in names])}, st)
        want = expected_sheet(sh, typed) * copies
        return [(s.pc, to_py(s, v), want) for (s, v) in rets], [(s.pc, e) for (s, e) in raises]
    shapes = sheet_shapes(("s", "N", "i"), ("s", "N", "i", "f", "b", "d"))
    shapes += [{"copies": 2, "rows": r} for r in ([["s", "s"], ["i", "s"]], [["s"], ["b"]], [["s", "s"]])]     # two sheets with identical content
    return run_sheets("C13/xlsx_extractor.py::_read_content_from_workbook", XLSX, shapes, one)


def w_xls(repo, tier):
    from contracts import C13 as pack
    from contracts import common
    DTYPES = "sharepoint2text/parsing/extractors/data_types.py"
    info = {}

    def inst(reg):
        pack.install_value_models(reg)
        common.install_bytesio(reg)
        reg.ext_models[("new", "io.StringIO")] = lambda ex, st, a, k, n: [(st, VExt("StringIO"))]
        reg.ext_models["xlrd.open_workbook"] = lambda ex, st, a, k, n: [(st, info["book"])]      # ASSUMED: the parsed workbook
        reg.method_models[("XlBook", "sheets")] = lambda ex, st, o, a, k, n: [(st, VTuple(list(info["sheets"])))]
        reg.attr_models[("XlSheet", "name")] = lambda ex, st, o: VStr("S")
        reg.attr_models[("XlSheet", "nrows")] = lambda ex, st, o: VInt(len(info["cells"]))
        reg.attr_models[("XlSheet", "ncols")] = lambda ex, st, o: VInt(len(info["cells"][0]) if info["cells"] else 0)
        reg.method_models[("XlSheet", "cell")] = lambda ex, st, o, a, k, n: [(st, info["cells"][a[0].const()][a[1].const()])]
        reg.add(FnContract(target=f"{XLS}::_format_sheet_as_text", params=[("headers", p_unk()), ("rows", p_unk())], assumed=True,
                           returns=lambda c: VStr(z3.String(fresh_name("sheet_text"))), note="text rendering of a sheet (C02)"))
    run = Run(XLS, repo, inst)
    run2 = Run(DTYPES, repo, lambda reg: None)
    run2.ex.refs = run.ex.refs
    KIND = {"N": 0, "s": 1, "=": 1, "F": 2, "f": 2, "b": 4}
    NAMES = {0: "name0", 1: "name1"}

    def typed(kind, i, j):
        if kind == "N":
            return None
        if i == 0 and kind in ("s", "="):
            return z3.StringVal(NAMES[j if kind == "s" else j - 1])
        if kind == "F":
            return z3.ToInt(z3.Real(f"f_r{i}c{j}")) if i else z3.IntVal(7)
        if kind == "b":
            return z3.Int(f"b_r{i}c{j}") != 0
        return cell_terms(kind, i, j)[2]

    def one(sh):
        copies = 1
        if isinstance(sh, dict):
            copies, sh = sh["copies"], sh["rows"]
        st = State()
        cells = []
        for i, row in enumerate(sh):
            cs = []
            for j, k in enumerate(row):
                c = VExt("XlCell")
                if k == "N":
                    val = VStr("")
                elif i == 0 and k in ("s", "="):
                    val = VStr(NAMES[j if k == "s" else j - 1])     # header names concrete: they become dict keys
                elif k == "F" and i == 0:
                    val = ops.lift(z3.RealVal(7))
                elif k == "b":
                    t = z3.Int(f"b_r{i}c{j}")
                    st.assume(z3.Or(t == 0, t == 1))
                    val = VInt(t)
                else:
                    val, asm, _ = cell_terms(k, i, j)
                    for a in asm:
                        st.assume(a)
                pack.CELLINFO[c.t.get_id()] = (VInt(KIND[k]), val, k)
                cs.append(c)
            cells.append(cs)
        info.update(book=VExt("XlBook"), sheets=[VExt("XlSheet") for _ in range(copies)], cells=cells)
        rets, raises = run.call("_read_content", {"file_like": VExt("BytesIO")}, st)
        want = expected_sheet(sh, typed, trim=False) * copies
        out = []
        for (s, v) in rets:
            sheets_ = run.ex.concrete_items(s, v) or []
            acc = [(s, [])]
            for sheet_obj in sheets_:           # the table of every returned sheet, in order
                nxt = []
                for (s1, tabs) in acc:
                    r2, x2 = run2.call("XlsSheet.get_table", {"self": sheet_obj}, s1)
                    raises.extend(x2)
                    nxt.extend((s2, tabs + [to_py(s2, t)]) for (s2, t) in r2)
                acc = nxt
            out.extend((s2.pc, tabs, want) for (s2, tabs) in acc)
        return out, [(s.pc, e) for (s, e) in raises]
    shapes = [sh for sh in sheet_shapes(("s", "N", "F"), ("s", "N", "F", "f", "b")) if used_range(sh) == (len(sh), len(sh[0]))]
    shapes += [{"copies": 2, "rows": r} for r in ([["s", "s"], ["F", "s"]], [["s"], ["b"]])]     # two sheets with identical content
    return run_sheets("C13/xls_extractor.py::_read_content+XlsSheet.get_table", XLS, shapes, one)


def w_ods(repo, tier):
    OFFICE = ODF_O
    ATTR = {"vt": OFFICE + "value-type", "v": OFFICE + "value", "dv": OFFICE + "date-value", "bv": OFFICE + "boolean-value"}

    def inst(reg):
        reg.add(assumed_text(ODS, "_get_text_recursive"))
        reg.add(FnContract(target=f"{ODS}::_extract_annotations", params=[("cell", p_unk())], assumed=True,
                           returns=lambda c: VRef(c.st.alloc(HeapObj("list", []), c.ex.refs)), note="cell comments (not part of the grid)"))
        reg.add(FnContract(target=f"{ODS}::_extract_images", params=[("ctx", p_unk()), ("table", p_unk()), ("image_counter", p_unk())], assumed=True,
                           returns=lambda c: VTuple([VUnk("images"), c.args["image_counter"]]), note="images (C14)"))
    run = Run(ODS, repo, inst)
    CONST = {"i": ("float", "v", "3", z3.IntVal(3)), "f": ("float", "v", "2.5", z3.RealVal("2.5")), "d": ("date", "dv", "2024-01-02", z3.StringVal("2024-01-02")),
             "b": ("boolean", "bv", "true", z3.BoolVal(True))}

    def typed(kind, i, j):
        if kind == "N":
            return None
        if kind in ("s", "="):
            return z3.String(f"s_r{i}c{j if kind == 's' else j - 1}")
        return CONST[kind][3]

    def make(hdr):
        def one(sh):
            st = State()
            rows = []
            for i, row in enumerate(sh):
                cells = []
                for j, k in enumerate(row):
                    if k == "N":
                        cells.append(CNode(ODF_T + "table-cell"))
                    elif k in ("s", "="):
                        t = typed(k, i, j)
                        st.assume(z3.Length(t) > 0)
                        cells.append(CNode(ODF_T + "table-cell", attrib={ATTR["vt"]: VStr("string")}, children=[leaf(ODF_X + "p", t)]))
                    else:
                        vt, an, val, _ = CONST[k]
                        cells.append(CNode(ODF_T + "table-cell", attrib={ATTR["vt"]: VStr(vt), ATTR[an]: VStr(val)}, children=[leaf(ODF_X + "p", z3.String(f"disp_r{i}c{j}"))]))
                rows.append(CNode(ODF_T + "table-row", children=cells))
            if hdr:
                rows = [CNode(ODF_T + "table-header-rows", children=rows[:1])] + rows[1:]
            table = CNode(ODF_T + "table", attrib={ODF_T + "name": VStr("S")}, children=[CNode(ODF_T + "table-column")] + rows)
            rets, raises = run.call("_extract_sheet", {"ctx": VUnk("ctx"), "table": table.v, "sheet_number": VInt(1), "image_counter": VInt(0)}, st)
            want = expected_sheet(sh, typed)
            out = []
            for (s, v) in rets:
                r = to_py(s, v)
                out.append((s.pc, [r[0]] if isinstance(r, list) and len(r) == 2 else r, want))
            return out, [(s.pc, e) for (s, e) in raises]
        return one
    shapes = sheet_shapes(("s", "N", "i"), ("s", "N", "i", "f", "b", "d"))
    a = run_sheets("C13/ods_extractor.py::_extract_sheet", ODS, shapes, make(False))
    # the first row inside table:table-header-rows (rows repeated on every printed page)
    hshapes = [sh for sh in shapes if len(sh) > 1 and sh[0][0] == "s"][:60]
    t2 = Tally("C13/ods_extractor.py::_extract_sheet", CLAUSES)
    b = run_sheets("C13/ods_extractor.py::_extract_sheet", ODS, hshapes, make(True))
    # merge the header-wrapper variant into the same obligations (feature 'hdr')
    by = {o["id"]: o for o in a["obligations"]}
    for o in b["obligations"]:
        m = by[o["id"]]
        m["vcs"] += o["vcs"]
        for f in o["failing"]:
            f["features"] = sorted(set(f["features"]) | {"hdr"})
            f["shape"] = {"header_rows_wrapper": 1, "rows": f["shape"]}
        m["failing"].extend(o["failing"])
        if o["status"] == "refuted" and m["status"] != "refuted":
            m.update(status="refuted", reason="with the first row in table:table-header-rows: " + o["reason"], witness={"shape": {"header_rows_wrapper": 1, "rows": o["witness"]["shape"]}, "features": sorted(set(o["witness"]["features"]) | {"hdr"})} if o.get("witness") else None)
        elif o["status"] == "unknown" and m["status"] == "proved":
            m.update(status="unknown", reason=o["reason"])
    return a


# ========================================================================= RTF ==
CRX, CMATCH = {}, {}        # side tables: term id -> compiled pattern / match object of the REAL re module


def install_concrete_re(reg, rel, repo):
    """`re` on CONCRETE strings is evaluated by the real `re` module (a pure library function on known arguments); the
    module-level `_RE_* = re.compile(<literals>)` constants are compiled from their real source text."""
    import ast as _ast
    import re as _re

    def rx(c):
        v = VExt("CRegex")
        CRX[v.t.get_id()] = c
        return v

    def mt(m):
        if m is None:
            return NONE
        v = VExt("CMatch")
        CMATCH[v.t.get_id()] = m
        return v
    m = loader.module(rel, repo)
    for name, node in m.assigns.items():
        if isinstance(node, _ast.Call) and _ast.unparse(node.func) == "re.compile":
            try:
                reg.module_consts[(rel, name)] = rx(eval(compile(_ast.Expression(node), "<module constant>", "eval"), {"re": _re}))
            except Exception:  # noqa
                pass

    def consts(ex, vals):
        out = [ex.py_const(v) for v in vals]
        return None if any(type(x).__name__ == "_NCType" for x in out) else out

    def m_compile(ex, st, a, k, n):
        c = consts(ex, list(a) + list(k.values()))
        if c is None:
            return ex.havoc_call(st, "re.compile(symbolic)", [], n)
        return [(st, rx(_re.compile(*c[:len(a)], **dict(zip(k, c[len(a):])))))]
    reg.ext_models["re.compile"] = m_compile
    reg.ext_models["re.escape"] = lambda ex, st, a, k, n: [(st, VStr(_re.escape(a[0].const())))] if isinstance(a[0], VStr) and a[0].const() is not None else ex.havoc_call(st, "re.escape", [], n)
    for flag in ("DOTALL", "IGNORECASE", "MULTILINE"):
        reg.ext_models[("const", f"re.{flag}")] = VInt(int(getattr(_re, flag)))

    def m_resplit(ex, st, a, k, n):
        c = consts(ex, a)
        if c is None or k:
            return ex.havoc_call(st, "re.split(symbolic)", [], n)
        return [(st, ex.new_list(st, [ops.lift(x) for x in _re.split(*c)]))]
    reg.ext_models["re.split"] = m_resplit

    def meth(name):
        def model(ex, st, o, a, k, n):
            pat = CRX[o.t.get_id()]
            if name == "sub" and len(a) == 2 and isinstance(a[0], V) and type(a[0]).__name__ == "VFunc":
                subject = a[1].const() if isinstance(a[1], VStr) else None
                if subject is None:
                    return ex.havoc_call(st, "sub(symbolic)", [], n)
                out, pos = [], 0
                for m_ in pat.finditer(subject):
                    r = ex.call(st, a[0], [mt(m_)], {}, n)
                    if len(r) != 1 or not isinstance(r[0][1], VStr) or r[0][1].const() is None:
                        raise Unsupported(f"{ex.loc(n)} regex replacement callback forks or is symbolic")
                    st = r[0][0]
                    out.append(subject[pos:m_.start()] + r[0][1].const())
                    pos = m_.end()
                return [(st, VStr("".join(out) + subject[pos:]))]
            c = consts(ex, a)
            if c is None or k:
                return ex.havoc_call(st, f"regex.{name}(symbolic)", [], n)
            r = getattr(pat, name)(*c)
            if name == "finditer":
                return [(st, VTuple([mt(x) for x in r]))]
            if name in ("search", "match", "fullmatch"):
                return [(st, mt(r))]
            if name in ("findall", "split"):
                return [(st, ex.new_list(st, [ops.lift(x) for x in r]))]
            return [(st, ops.lift(r))]
        return model
    for nm in ("finditer", "sub", "search", "match", "fullmatch", "findall", "split"):
        reg.method_models[("CRegex", nm)] = meth(nm)

    def mmeth(name):
        def model(ex, st, o, a, k, n):
            c = consts(ex, a)
            r = getattr(CMATCH[o.t.get_id()], name)(*(c or []))
            return [(st, ops.lift(r))]
        return model
    for nm in ("start", "end", "group", "groups", "span"):
        reg.method_models[("CMatch", nm)] = mmeth(nm)


RTF = EXTR + "ms_legacy/rtf_extractor.py"
RTF_FILLER = "Between the tables stands a paragraph that is long enough to count as running text of the document and not as part of a table row at all."
RTF_LAYOUTS = (("\n", "\\intbl "), ("", "\\intbl "), ("\n", " "), ("\r\n", "\\pard\\intbl "))


def rtf_tok(path):
    import re as _re
    return "w" + _re.sub(r"[^0-9a-z]", "", path)


def rtf_text(doc, row_sep, cell_prefix):
    """the same serialisation as replay/C13.py::rtf_bytes (rows joined by row_sep: '' = back to back)"""
    out = "{\\rtf1\\ansi\\deff0{\\fonttbl{\\f0 Arial;}}\\pard Intro paragraph\\par "
    prev_table = False
    for bi, b in enumerate(doc):
        if not is_table(b):
            out += "\\pard " + RTF_FILLER + " " + rtf_tok(f"b{bi}") + "\\par "
            prev_table = False
            continue
        if prev_table:
            out += "\\pard " + RTF_FILLER + "\\par "
        rows = []
        for ri, r in enumerate(b["rows"]):
            defs = "".join(f"\\cellx{1500 * (i + 1)}" for i in range(len(r)))
            cells = ""
            for ci, c in enumerate(r):
                pars = ["" if it == "e" else rtf_tok(f"{bp(bi, b)}.r{ri}c{ci}i{ii}") for ii, it in enumerate(c) if not is_table(it)]
                cells += cell_prefix + "\\par ".join(pars) + "\\cell"
            rows.append(f"\\trowd\\trgaph108{defs}{cells}\\row")
        out += row_sep.join(rows)
        prev_table = True
    return out + "\\pard After\\par}"


def rtf_docs():
    P = ["p"]
    return [[T([[P]])], [T([[P, P]])], [T([[P], [P]])], [T([[P, P], [P, P]])], [T([[P, P], [P, P], [P, P]])],
            [T([[[], P], [P, []]])], [T([[["p", "p"], P]])], [T([[P]]), T([[P, P], [P, P]])], [T([[P], [P]]), "p", T([[P], [P]])], ["p", T([[P, P]])],
            [T([[P, P]]), dict(T([[P, P]]), like="b0")]]


def w_rtf(repo, tier):
    """_RtfParser._extract_tables (+ _extract_table_cells, _save_table, _strip_rtf_simple, _remove_ignorable_groups) executed by
    the engine on CONCRETE RTF sources: rectangular tables up to 3 x 2 / 4 x 1, empty and two-paragraph cells, two tables
    separated by running text, rows newline-separated / CRLF / written back to back, two cell layouts.  (RTF has no table
    delimiter and pads ragged rows; nested tables are not generated.)"""
    def inst(reg):
        import bisect as _bisect
        install_concrete_re(reg, RTF, repo)

        def conc(fn):
            def model(ex, st, a, k, n):
                items = ex.concrete_items(st, a[0]) if a else None
                vals = [ex.py_const(x) for x in (items or [])] + [ex.py_const(x) for x in a[1:]]
                if items is None or k or any(not isinstance(v, int) for v in vals):
                    return ex.havoc_call(st, "bisect(symbolic)", [], n)
                return [(st, VInt(fn(vals[:len(items)], *vals[len(items):])))]
            return model
        for nm in ("bisect_left", "bisect_right", "bisect"):     # stdlib bisect on concrete ints: evaluated by the real function
            reg.ext_models[f"bisect.{nm}"] = conc(getattr(_bisect, nm))
    run = Run(RTF, repo, inst)
    ex = run.ex
    tally = Tally("C13/rtf_extractor.py::_RtfParser._extract_tables", CLAUSES)
    cases = [(d, lay) for d in rtf_docs() for lay in (RTF_LAYOUTS if tier == "thorough" else RTF_LAYOUTS[:2])]
    for doc, (sep, pre) in my_part(cases):
        shape = {"doc": doc, "row_separator": sep, "cell_prefix": pre}
        feats = features(doc) + (["rows_back_to_back"] if sep == "" else [])
        want = [[[z3.StringVal("\n".join("" if it == "e" else rtf_tok(f"{bp(bi, b)}.r{ri}c{ci}i{ii}") for ii, it in enumerate(c) if not is_table(it)))
                  for ci, c in enumerate(r)] for ri, r in enumerate(b["rows"])] for bi, b in enumerate(doc) if is_table(b)]
        try:
            st = State()
            me = VRef(st.alloc(HeapObj("obj", {}, "_RtfParser", fresh=False), ex.refs))
            states, raises = run.method(st, me, "_RtfParser", "__init__", [VUnk("data")])
            rets = []
            for s0 in states:
                r, x = run.method(s0, me, "_RtfParser", "_extract_tables", [VStr(rtf_text(doc, sep, pre))])
                rets.extend(r)
                raises.extend(x)
        except Unsupported as e:
            for k in CLAUSES:
                tally.record(k, "unknown", shape, feats, f"OUT-OF-SUBSET {e}"[:200])
            continue
        feas = [r for r in raises if _feasible(r[0].pc)]
        definite = [r for r in feas if not mentions_over(r[0].pc)]
        tally.record(CLAUSES[0], "refuted" if definite else ("unknown" if feas else "proved"), shape, feats,
                     "an exception can escape" if definite else ("exception only on an over-approximated path" if feas else ""))
        if not rets:
            for k in CLAUSES[1:]:
                tally.record(k, "refuted" if definite else "unknown", shape, feats, "no normal outcome")
        for s in rets:
            compare(tally, s.pc, to_py(s, s.obj(me.ref).data["tables"]), want, shape, feats)
    return {"obligations": tally.obligations(RTF)}


# ======================================================== iterate_tables plumbing ==
def w_iter(repo, tier):
    """every `iterate_tables` of data_types.py yields, in order, exactly the tables stored on the object / on its units
    (slides, pages, chapters) or the sheet objects themselves -- for 0..3 stored tables (BOUNDED: unit lists of length 0..2)."""
    import ast as _ast
    DTYPES = "sharepoint2text/parsing/extractors/data_types.py"
    run = Run(DTYPES, repo, lambda reg: None)
    ex = run.ex
    tally = Tally("C13/data_types.py::*.iterate_tables", ("yields-the-stored-tables-in-order-none-lost-none-invented",))
    classes = sorted(q.split(".")[0] for q in run.mod.functions if q.endswith(".iterate_tables") and q.count(".") == 1 and not q.startswith(("ExtractionInterface", "TableInterface")))
    for cls in classes:
        fnode = run.mod.functions[f"{cls}.iterate_tables"]
        attrs = sorted({n.attr for n in _ast.walk(fnode) if isinstance(n, _ast.Attribute) and isinstance(n.value, _ast.Name) and n.value.id == "self"})
        for layout in ([], [1], [2], [1, 2], [0, 1], [2, 0, 1]):
            st = State()
            grids, units = [], []
            for n in layout:
                gs = [VRef(st.alloc(HeapObj("list", [], fresh=False), ex.refs)) for _ in range(n)]
                grids += gs
                units.append(VRef(st.alloc(HeapObj("obj", {"tables": VRef(st.alloc(HeapObj("list", gs, fresh=False), ex.refs))}, "Unit", fresh=False), ex.refs)))
            fields = {}
            for a in attrs:
                if a == "tables":
                    fields[a] = VRef(st.alloc(HeapObj("list", grids, fresh=False), ex.refs))
                elif a == "sheets":
                    fields[a] = VRef(st.alloc(HeapObj("list", units, fresh=False), ex.refs))
                else:
                    fields[a] = VRef(st.alloc(HeapObj("list", units, fresh=False), ex.refs))
            me = VRef(st.alloc(HeapObj("obj", fields, cls, fresh=False), ex.refs))
            shape = {"class": cls, "tables_per_unit": layout}
            try:
                rets, raises = run.call(f"{cls}.iterate_tables", {"self": me}, st)
            except Unsupported as e:
                tally.record(tally.prefix and list(tally.c)[0], "unknown", shape, [], f"OUT-OF-SUBSET {e}"[:200])
                continue
            ok = not raises and len(rets) >= 1
            for (s, _v) in rets:
                ys = s.yielded
                if not attrs:                       # formats without tables: nothing is yielded
                    ok = ok and len(ys) == 0
                elif "sheets" in attrs:
                    ok = ok and [getattr(y, "ref", None) for y in ys] == [u.ref for u in units]
                else:
                    want = [g.ref for g in grids]
                    got = []
                    for y in ys:
                        o = s.obj(y.ref) if isinstance(y, VRef) else None
                        if o is not None and o.kind == "obj" and o.cls == "TableData" and isinstance(o.data.get("data"), VRef):
                            got.append(o.data["data"].ref)
                        elif o is not None and isinstance(y, VRef):
                            got.append(y.ref)       # classes whose stored tables are table objects (OdtTable, RtfTable)
                        else:
                            got.append(None)
                    ok = ok and got == want
            over = any(mentions_over(s_.pc) for (s_, _v) in rets) or any(mentions_over(s_.pc) for (s_, _e) in raises)
            tally.record(list(tally.c)[0], "proved" if ok else ("unknown" if over else "refuted"), shape, [], "yielded tables differ from the stored ones")
    return {"obligations": tally.obligations(DTYPES)}


WALKERS = [w_docx, w_odt, w_odp, w_odp_slide, w_pptx, w_html, w_epub, w_xlsx, w_xls, w_ods, w_iter, w_rtf]
