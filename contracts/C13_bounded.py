"""C13 (b) -- BOUNDED walker obligations: every document shape of the grammar below, texts symbolic.

Grammar of the enumerated source documents (the generated tables of the property's quantifier):

    doc   ::= block+                    1..2 tables, optionally a paragraph before / between them (adjacent tables)
    block ::= paragraph | table
    table ::= row{1..2}                 optionally the first row inside the format's header-rows wrapper
    row   ::= cell{1..2}                rows of one table may differ in length (ragged)
    cell  ::= item{0..2}                empty cell, one paragraph, several paragraphs, an empty paragraph,
    item  ::= paragraph | table         a table inside a cell (nesting depth 1, the inner table up to 2 x 1 / 1 x 2)

Every paragraph carries an unconstrained symbolic text.  For each shape the REAL walker is executed symbolically on
the concrete-shape element tree (contracts/etree_model.py), all loops unrolled exactly, and its result is compared with
the grid specification computed from the *abstract shape* (not from the tree):

    tables(doc)  = all tables in document order (a nested table after the table containing it, before the next sibling)
    grid(t)      = [[cell_text(c) for c in cells(r)] for r in rows(t)]       rows/cells = direct children (through
                   the header-rows wrapper), a nested table contributes neither rows nor text to the outer table
    cell_text(c) = the format's paragraph rule over the cell's OWN paragraphs

These obligations are labelled BOUNDED and are never counted as proved.
"""
import itertools
import json

import z3

from pyvc import loader, ops, solve
from pyvc.contracts import FnContract, Registry
from pyvc.exctypes import Universe
from pyvc.ops import Unsupported
from pyvc.state import Frame, HeapObj, State
from pyvc.values import NONE, V, VBool, VExt, VInt, VRef, VSeq, VStr, VTuple, VUnk, ext_sort, fresh_name
from pyvc.verify import p_unk
from contracts import etree_model as ET
from contracts.etree_model import CNode

EXTR = "sharepoint2text/parsing/extractors/"
DOCX = EXTR + "ms_modern/docx_extractor.py"
PPTX = EXTR + "ms_modern/pptx_extractor.py"
ODT = EXTR + "open_office/odt_extractor.py"
ODP = EXTR + "open_office/odp_extractor.py"
ODS = EXTR + "open_office/ods_extractor.py"
HTML = EXTR + "html_extractor.py"
EPUB = EXTR + "epub_extractor.py"
XLSX = EXTR + "ms_modern/xlsx_extractor.py"
XLS = EXTR + "ms_legacy/xls_extractor.py"

S = z3.StringSort()
STRIP = z3.Function("str_strip", S, S)
WSSUB = z3.Function("ws_runs_to_one_space", S, S)
NL = z3.StringVal("\n")


# =============================================================== shapes ==
def T(rows, hdr=0):
    return {"hdr": hdr, "rows": rows}


def is_table(x):
    return isinstance(x, dict)


BASE_CELLS = ([], ["p"], ["p", "p"])
INNER = (T([[["p"]]]), T([[["p"]], [["p"]]]), T([[["p"], ["p"]]]))


def single_tables(hdr_wrapper, nested=True, cells=BASE_CELLS, extra_cells=(["e"], ["p", "e"])):
    """tables up to 2 x 2 (ragged) over the base cell contents, + special cells in a 1 x 1 table, + nested variants"""
    out = []
    rows = [[c] for c in cells] + [[a, b] for a in cells for b in cells]
    tabs = [[r] for r in rows] + [[r1, r2] for r1 in rows for r2 in rows]
    for t in tabs:
        out.append(T(t))
        if hdr_wrapper:
            out.append(T(t, 1))
    for c in extra_cells:
        out.append(T([[c]]))
    if nested:
        outer = ([[None]], [[None, ["p"]]], [[["p"], None]], [[None], [["p"]]], [[["p"]], [None]],
                 [[None, ["p"]], [["p"], ["p"]]], [[["p"], None], [["p"], ["p"]]], [[["p"], ["p"]], [None, ["p"]]], [[["p"], ["p"]], [["p"], None]])
        for o in outer:
            for inner in INNER:
                for var in (lambda i: [i], lambda i: ["p", i], lambda i: [i, "p"]):
                    rows_ = [[(var(inner) if c is None else c) for c in r] for r in o]
                    out.append(T(rows_))
                    if hdr_wrapper and len(rows_) == 2:
                        out.append(T(rows_, 1))
    return out


def docs(hdr_wrapper, nested=True):
    out = [[t] for t in single_tables(hdr_wrapper, nested)]
    out += [["p", t] for t in (T([[["p"]]]), T([[["p"], ["p"]]]))]
    small = (T([[["p"]]]), T([[["p"], ["p"]]]), T([[["p"]], [["p"]]]))
    for a in small:
        for b in small:
            out.append([a, b])
            out.append([a, "p", b])
    if nested:
        out.append([T([[[INNER[0]]]]), T([[["p"]]])])
        out.append([T([[["p"]]]), T([[["p", INNER[0]]]])])
    return out


def features(doc):
    f = set()
    tabs = [b for b in doc if is_table(b)]
    if len(tabs) > 1:
        f.add("adjacent")

    def tab(t, depth):
        if depth:
            f.add("nested")
        if t["hdr"]:
            f.add("hdr")
        if len({len(r) for r in t["rows"]}) > 1:
            f.add("ragged")
        for r in t["rows"]:
            for c in r:
                ps = [i for i in c if not is_table(i)]
                if not c:
                    f.add("empty_cell")
                if len(ps) > 1:
                    f.add("multi_par")
                if "e" in ps:
                    f.add("empty_par")
                for i in c:
                    if is_table(i):
                        tab(i, depth + 1)
    for t in tabs:
        tab(t, 0)
    return sorted(f)


def txt(path):
    return z3.String("t_" + path)


def par_text(item, path):
    return z3.StringVal("") if item == "e" else txt(path)


def tables_in_order(doc):
    """[(path, table)] in document order, nested tables after their container."""
    out = []

    def tab(t, path):
        out.append((path, t))
        for ri, r in enumerate(t["rows"]):
            for ci, c in enumerate(r):
                for ii, it in enumerate(c):
                    if is_table(it):
                        tab(it, f"{path}.r{ri}c{ci}i{ii}")
    for bi, b in enumerate(doc):
        if is_table(b):
            tab(b, f"b{bi}")
    return out


def own_paragraph_texts(cell, path):
    return [par_text(it, f"{path}i{ii}") for ii, it in enumerate(cell) if not is_table(it)]


def join_terms(sep, terms):
    if not terms:
        return z3.StringVal("")
    acc = terms[0]
    for t in terms[1:]:
        acc = z3.Concat(acc, sep, t)
    return acc


def expected_grids(doc, cell_rule):
    return [[[cell_rule(c, f"{path}.r{ri}c{ci}") for ci, c in enumerate(r)] for ri, r in enumerate(t["rows"])]
            for (path, t) in tables_in_order(doc)]


# ======================================================== running a function ==
class Run:
    def __init__(self, rel, repo, install):
        from contracts.C13 import C13Executor
        self.mod = loader.module(rel, repo)
        self.reg = Registry()
        ET.install(self.reg)
        self.reg.ext_models["str.strip"] = lambda ex, st, args, kw, node: [(st, VStr(STRIP(args[0].t)))] if len(args) == 1 else ex.havoc_call(st, "strip(chars)", [], node)
        install(self.reg)
        self.ex = C13Executor(self.mod, self.reg, Universe(repo))
        self.ex.oid_prefix = "bounded"

    def call(self, qual, env, st=None):
        """-> (returns [(state, value)], raises [(state, exc)])"""
        ex = self.ex
        fnode = self.mod.functions[qual]
        st = st or State()
        st.frames = [Frame(dict(env), None, fnode)]
        ex.cur_fn_stack.append(fnode)
        ex.sinks.append([])
        try:
            outs = ex.exec_block(fnode.body, st)
        finally:
            sink = ex.sinks.pop()
            ex.cur_fn_stack.pop()
        rets = [(o.st, o.val if o.kind == "return" else NONE) for o in outs if o.kind in ("fall", "return")]
        raises = [(o.st, o.val) for o in outs if o.kind == "raise"] + list(sink)
        return rets, raises


def to_py(st, v):
    if isinstance(v, VRef):
        o = st.obj(v.ref)
        if o.kind in ("list", "bytearray") and o.data is not None:
            return [to_py(st, x) for x in o.data]
        if o.kind == "obj" and "data" in o.data:
            return to_py(st, o.data["data"])
        return ("?", o.kind)
    if isinstance(v, VTuple):
        return [to_py(st, x) for x in v.items]
    if isinstance(v, (VStr, VInt, VBool)):
        return v.t
    if v is NONE:
        return None
    if type(v).__name__ == "VReal":
        return v.t
    return ("?", repr(v))


def holds(pc, goal):
    g = z3.simplify(goal)
    if z3.is_true(g):
        return "proved", 0.0
    r = solve.check_vc(pc, goal, 5000, want_model=False, use_cvc5=False)
    return r.status, r.seconds


def term_eq(a, b):
    if a is None or b is None:
        return z3.BoolVal(a is None and b is None)
    if isinstance(a, tuple) or isinstance(b, tuple):
        return z3.BoolVal(False)
    try:
        if a.sort() != b.sort():
            if z3.is_int(a) and z3.is_real(b):
                return z3.ToReal(a) == b
            return z3.BoolVal(False)
        return a == b
    except Exception:  # noqa
        return z3.BoolVal(False)


class Tally:
    """Collects per-clause verdicts over all shapes of one walker."""

    def __init__(self, prefix, clauses):
        self.prefix = prefix
        self.c = {k: {"n": 0, "failing": [], "unknown": [], "seconds": 0.0} for k in clauses}

    def record(self, clause, status, shape, feats, detail="", secs=0.0):
        d = self.c[clause]
        d["n"] += 1
        d["seconds"] += secs
        if status == "refuted":
            d["failing"].append({"shape": shape, "features": feats, "detail": detail})
        elif status != "proved":
            d["unknown"].append({"shape": shape, "detail": detail})

    def obligations(self, loc):
        out = []
        for k, d in self.c.items():
            status = "refuted" if d["failing"] else ("unknown" if d["unknown"] or d["n"] == 0 else "proved")
            fail = sorted(d["failing"], key=lambda x: len(json.dumps(x["shape"])))
            reason = ""
            if fail:
                reason = f"{len(fail)} of {d['n']} shapes fail; smallest: {json.dumps(fail[0]['shape'])} -- {fail[0]['detail']}"
            elif d["unknown"]:
                reason = f"{len(d['unknown'])} shapes undecided: {d['unknown'][0]['detail']}"
            out.append({"id": f"{self.prefix}/bounded#{k}", "kind": "bounded", "bounded": True, "status": status, "vcs": d["n"],
                        "seconds": round(d["seconds"], 3), "backends": {"z3-bounded": d["n"]}, "witness": fail[0] if fail else None,
                        "failing": [{"shape": x["shape"], "features": x["features"]} for x in fail[:400]],
                        "reason": reason, "loc": loc})
        return out


CLAUSES = ("no-exception", "tables-in-document-order-none-lost-none-invented", "rows-and-cells-are-the-direct-ones", "cell-holds-its-own-text")


def compare(tally, st_pc, got, want, shape, feats):
    """got / want: list of tables (list of rows (list of z3 terms))."""
    ok_list = isinstance(got, list) and all(isinstance(t, list) and all(isinstance(r, list) for r in t) for t in got)
    if not ok_list:
        for k in CLAUSES[1:]:
            tally.record(k, "refuted", shape, feats, f"result is not a list of tables of rows: {got!r}"[:200])
        return
    tally.record(CLAUSES[1], "proved" if len(got) == len(want) else "refuted", shape, feats,
                 f"{len(got)} tables returned, {len(want)} in the source")
    shape_ok, detail = True, ""
    cells_status, cdetail, secs = "proved", "", 0.0
    for ti in range(min(len(got), len(want))):
        g, w = got[ti], want[ti]
        gs, ws = [len(r) for r in g], [len(r) for r in w]
        if gs != ws:
            shape_ok, detail = False, f"table {ti}: row lengths returned {gs}, source {ws}"
        for ri in range(min(len(g), len(w))):
            for ci in range(min(len(g[ri]), len(w[ri]))):
                s_, dt = holds(st_pc, term_eq(g[ri][ci], w[ri][ci]))
                secs += dt
                if s_ == "refuted" and cells_status != "refuted":
                    cells_status, cdetail = "refuted", f"table {ti} cell ({ri},{ci}) returned {z3.simplify(g[ri][ci]) if not isinstance(g[ri][ci], (tuple, type(None))) else g[ri][ci]}, source cell text {z3.simplify(w[ri][ci])}"[:300]
                elif s_ == "unknown" and cells_status == "proved":
                    cells_status, cdetail = "unknown", f"table {ti} cell ({ri},{ci}) undecided"
    tally.record(CLAUSES[2], "proved" if shape_ok else "refuted", shape, feats, detail)
    tally.record(CLAUSES[3], cells_status, shape, feats, cdetail, secs)


def run_walker(prefix, loc, shapes, run_one):
    """run_one(doc) -> [(pc, got_tables, want_tables)] for normal outcomes, [(pc, exc)] raising outcomes"""
    tally = Tally(prefix, CLAUSES)
    undecided = []
    for doc in shapes:
        feats = features(doc)
        try:
            rets, raises = run_one(doc)
        except Unsupported as e:
            for k in CLAUSES:
                tally.record(k, "unknown", doc, feats, f"OUT-OF-SUBSET {e}"[:200])
            continue
        feas = [r for r in raises if _feasible(r[0])]
        tally.record(CLAUSES[0], "refuted" if feas else "proved", doc, feats, "an exception can escape" if feas else "")
        if not rets:
            for k in CLAUSES[1:]:
                tally.record(k, "refuted", doc, feats, "no normal outcome")
        for (pc, got, want) in rets:
            compare(tally, pc, got, want, doc, feats)
    return {"obligations": tally.obligations(loc), "undecided": undecided}


def _feasible(pc):
    s = z3.Solver()
    s.set("timeout", 2000)
    s.add(*pc)
    return s.check() != z3.unsat


# ============================================================ ODF / OOXML trees ==
def assumed_text(rel, fn, param="element"):
    """ASSUMED contract of a paragraph-text helper (verified as part of C02): returns the text of the element."""
    def ret(c):
        n = ET.node_of(c.args[param])
        if n is not None and getattr(n, "ptext", None) is not None:
            return VStr(n.ptext)
        return VStr(PTEXT(c.args[param].t)) if isinstance(c.args[param], VExt) else VStr(z3.String(fresh_name("text")))
    return FnContract(target=f"{rel}::{fn}", params=[(param, p_unk())], assumed=True, returns=ret,
                      note="paragraph text rule of the format (C02)")


PTEXT = z3.Function("paragraph_text", ET.ELEM, S)


def leaf(tag, text_term):
    n = CNode(tag)
    n.ptext = text_term
    return n


W = "{http://schemas.openxmlformats.org/wordprocessingml/2006/main}"
ODF_T = "{urn:oasis:names:tc:opendocument:xmlns:table:1.0}"
ODF_X = "{urn:oasis:names:tc:opendocument:xmlns:text:1.0}"
ODF_O = "{urn:oasis:names:tc:opendocument:xmlns:office:1.0}"
A = "{http://schemas.openxmlformats.org/drawingml/2006/main}"
P_ = "{http://schemas.openxmlformats.org/presentationml/2006/main}"


def build_xml_tree(doc, root_tag, tags):
    """tags: dict p, table, row, cell, hdr (wrapper tag or None)"""
    def table(t, path):
        rows = []
        for ri, r in enumerate(t["rows"]):
            cells = []
            for ci, c in enumerate(r):
                items = []
                for ii, it in enumerate(c):
                    ip = f"{path}.r{ri}c{ci}i{ii}"
                    items.append(table(it, ip) if is_table(it) else leaf(tags["p"], par_text(it, ip)))
                cells.append(CNode(tags["cell"], children=items))
            rows.append(CNode(tags["row"], children=cells))
        if t["hdr"] and tags.get("hdr"):
            rows = [CNode(tags["hdr"], children=rows[:t["hdr"]])] + rows[t["hdr"]:]
        return CNode(tags["table"], children=rows)
    blocks = []
    for bi, b in enumerate(doc):
        blocks.append(table(b, f"b{bi}") if is_table(b) else leaf(tags["p"], txt(f"b{bi}")))
    return CNode(root_tag, children=blocks)


def nl_rule(cell, path):
    return join_terms(NL, own_paragraph_texts(cell, path))


DOCX_TAGS = {"p": W + "p", "table": W + "tbl", "row": W + "tr", "cell": W + "tc", "hdr": None}
ODF_TAGS = {"p": ODF_X + "p", "table": ODF_T + "table", "row": ODF_T + "table-row", "cell": ODF_T + "table-cell", "hdr": ODF_T + "table-header-rows"}


def w_docx(repo, tier):
    run = Run(DOCX, repo, lambda reg: reg.add(assumed_text(DOCX, "_collect_text_from_element")))

    def one(doc):
        body = build_xml_tree(doc, W + "body", DOCX_TAGS)
        st = State()
        ctx = VRef(st.alloc(HeapObj("obj", {"document_body": body.v}, "_DocxContext", fresh=False), run.ex.refs))
        rets, raises = run.call("_extract_tables_from_context", {"ctx": ctx}, st)
        want = expected_grids(doc, nl_rule)
        out = []
        for (s, v) in rets:
            r = to_py(s, v)
            out.append((s.pc, r[0] if isinstance(r, list) and len(r) == 2 else r, want))
        return out, [(s.pc, e) for (s, e) in raises]
    return run_walker("C13/docx_extractor.py::_extract_tables_from_context", DOCX, docs(False), one)


def w_odt(repo, tier):
    run = Run(ODT, repo, lambda reg: reg.add(assumed_text(ODT, "_get_text_recursive")))

    def one(doc):
        body = build_xml_tree(doc, ODF_O + "text", ODF_TAGS)
        rets, raises = run.call("_extract_tables", {"body": body.v})
        want = expected_grids(doc, nl_rule)
        return [(s.pc, to_py(s, v), want) for (s, v) in rets], [(s.pc, e) for (s, e) in raises]
    return run_walker("C13/odt_extractor.py::_extract_tables", ODT, docs(True), one)


def w_odp(repo, tier):
    run = Run(ODP, repo, lambda reg: reg.add(assumed_text(ODP, "_get_text_recursive")))

    def one(doc):
        root = build_xml_tree(doc, "frame", ODF_TAGS)
        rets, raises = run.call("_extract_table", {"table_elem": root.children[0].v})
        want = expected_grids(doc, nl_rule)[:1]
        return [(s.pc, [to_py(s, v)], want) for (s, v) in rets], [(s.pc, e) for (s, e) in raises]
    # function level: one table element (the slide loop calls it once per frame); nested tables do not exist in ODP
    return run_walker("C13/odp_extractor.py::_extract_table", ODP, [[t] for t in single_tables(True, nested=True)], one)


def w_pptx(repo, tier):
    run = Run(PPTX, repo, lambda reg: reg.add(assumed_text(PPTX, "_extract_text_from_paragraphs", "elem")))
    uri = loader.module(PPTX, repo).literal("TABLE_URI")

    def rule(cell, path):
        ps = [it for it in cell if not is_table(it)]
        return STRIP(txt(path + ".body")) if ps else z3.StringVal("")

    def one(doc):
        t = doc[0]
        rows = []
        for ri, r in enumerate(t["rows"]):
            cells = []
            for ci, c in enumerate(r):
                kids = [leaf(A + "txBody", txt(f"b0.r{ri}c{ci}.body"))] if c else []
                cells.append(CNode(A + "tc", children=kids + [CNode(A + "tcPr")]))
            rows.append(CNode(A + "tr", children=cells))
        tbl = CNode(A + "tbl", children=[CNode(A + "tblPr"), CNode(A + "tblGrid")] + rows)
        frame = CNode(P_ + "graphicFrame", children=[CNode(P_ + "nvGraphicFramePr"), CNode(A + "graphic", children=[
            CNode(A + "graphicData", attrib={"uri": VStr(uri)}, children=[tbl])])])
        rets, raises = run.call("_extract_table_from_graphic_frame", {"elem": frame.v})
        want = expected_grids(doc, rule)
        return [(s.pc, [to_py(s, v)], want) for (s, v) in rets], [(s.pc, e) for (s, e) in raises]
    # DrawingML tables cannot nest and have no header wrapper; a cell's paragraphs live in its a:txBody (text rule: C02)
    shapes = [[t] for t in single_tables(False, nested=False, cells=([], ["p"]), extra_cells=())]
    return run_walker("C13/pptx_extractor.py::_extract_table_from_graphic_frame", PPTX, shapes, one)


WALKERS = [w_docx, w_odt, w_odp, w_pptx]
