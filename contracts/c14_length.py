"""C14 round 6: `data_types._odf_length_to_px` -- the conversion behind width / height of every ODF picture (odt / odp / ods / odg).

The function is executed symbolically on an ABSTRACT match of the module's length pattern `number [unit]`:
  group(1) = a numeral NUM whose value float(NUM) is a real VAL >= 0, group(2) = None | a non-empty unit UNIT,
  str.lower = the uninterpreted LOWER, round(x) = some integer within 1/2 of x (covers every tie rule), int(integer) = itself.
Contract (CSS absolute lengths at 96 dpi):  px 1, in 96, cm 96/2.54, mm 96/25.4, pt 96/72, pc 16 pixels per unit:
  an int result r satisfies |r - VAL * K(unit)| <= 1/2 + VAL * 1e-9  (the tolerance covers float re-association such as
  (v / 2.54) * 96 vs v * (96 / 2.54)), a unit outside the table gives None, a unit of the table never gives None.
Assumed: the numeral is inside the float range (no OverflowError from round(inf)).
Whatever the engine cannot follow (pattern not the recognised one, table looked up in a way it has no model for) ends in `unknown`; the
native replayer (replay/C14.py::check_odf_length) then decides on a grid of numerals x units against exact rational arithmetic.
"""
import ast

import z3

from pyvc import ops
from pyvc.values import NONE, VBool, VExt, VInt, VNoneT, VReal, VStr, ext_sort, fresh_name

from contracts.c14_exec import C14Executor

PATTERN = r"^\s*(\d+(?:\.\d+)?)\s*([a-zA-Z]+)?\s*$"
LOWER = z3.Function("str.lower", z3.StringSort(), z3.StringSort())
NUM = z3.String("odf.length.numeral")
UNIT = z3.String("odf.length.unit")
VAL = z3.Real("odf.length.value")
FACTORS = {"px": (1, 1), "in": (96, 1), "cm": (9600, 254), "mm": (960, 254), "pt": (96, 72), "pc": (16, 1)}
TOL = z3.RealVal("1/1000000000")


def pattern_names(mod):
    """module-level names bound to re.compile(<the length pattern>)"""
    out = set()
    for st in mod.tree.body:
        if isinstance(st, ast.Assign) and len(st.targets) == 1 and isinstance(st.targets[0], ast.Name) and isinstance(st.value, ast.Call) \
                and ast.unparse(st.value.func) in ("re.compile", "compile") and st.value.args and isinstance(st.value.args[0], ast.Constant) \
                and st.value.args[0].value == PATTERN and len(st.value.args) == 1 and not st.value.keywords:
            out.add(st.targets[0].id)
    return out


class LengthExecutor(C14Executor):
    PATTERNS = frozenset()

    def e_Call(self, n, st):
        f = n.func
        if isinstance(f, ast.Attribute) and f.attr in ("match", "fullmatch") and isinstance(f.value, ast.Name) and f.value.id in self.PATTERNS \
                and len(n.args) == 1 and not n.keywords:
            out = []
            for (s, _v) in self.ev(n.args[0], st):
                s2 = s.fork()
                s.ghost["len.match"] = False
                s2.ghost["len.match"] = True
                out += [(s, NONE), (s2, VExt("OdfLengthMatch", z3.Const("odf.length.match", ext_sort("OdfLengthMatch"))))]
            return out
        if isinstance(f, ast.Attribute) and isinstance(f.value, ast.Name):
            obj = st.lookup(f.value.id)
            if isinstance(obj, VExt) and obj.sort == "OdfLengthMatch":
                if f.attr == "group" and len(n.args) == 1 and isinstance(n.args[0], ast.Constant) and n.args[0].value in (1, 2) and not n.keywords:
                    if n.args[0].value == 1:
                        return [(st, VStr(NUM))]
                    if "len.unit" in st.ghost:      # asked before on this path: the same answer
                        return [(st, VStr(UNIT) if st.ghost["len.unit"] else NONE)]
                    s2 = st.fork()
                    st.ghost["len.unit"] = False
                    s2.ghost["len.unit"] = True
                    s2.assume(z3.Length(UNIT) > 0)
                    return [(st, NONE), (s2, VStr(UNIT))]
                raise ops.Unsupported(f"{self.loc(n)} match.{f.attr}")
        return super().e_Call(n, st)

    def str_method(self, st, s, name, args, kwargs, node):
        if name == "lower" and not args and s.const() is None:
            return [(st, VStr(LOWER(s.t)))]
        return super().str_method(st, s, name, args, kwargs, node)

    def construct(self, st, t, args, kwargs, node):
        if t.name == "float" and len(args) == 1 and isinstance(args[0], VStr) and z3.eq(args[0].t, NUM):
            st.assume(VAL >= 0)
            return [(st, VReal(VAL))]
        return super().construct(st, t, args, kwargs, node)

    def call_builtin(self, st, name, args, kwargs, node):
        if name == "round" and len(args) == 1 and not kwargs and isinstance(args[0], VReal):
            r = z3.Int(fresh_name("rounded"))
            st.assume(z3.And(2 * z3.ToReal(r) - 1 <= 2 * args[0].t, 2 * args[0].t <= 2 * z3.ToReal(r) + 1))
            return [(st, VInt(r))]
        return super().call_builtin(st, name, args, kwargs, node)


def unit_term(st):
    return LOWER(UNIT) if st.ghost.get("len.unit") else z3.StringVal("px")


def spec(c):
    st, r = c.st, c.result
    if not st.ghost.get("len.match"):
        return z3.BoolVal(isinstance(r, VNoneT))
    if "len.unit" not in st.ghost:
        return z3.BoolVal(False)        # a result that does not depend on the unit
    u = unit_term(st)
    known = z3.Or([u == z3.StringVal(k) for k in FACTORS])
    if isinstance(r, VNoneT):
        return z3.Not(known)
    if isinstance(r, (VInt, VBool)):
        rt = z3.ToReal(ops.int_term(r))
        cs = [known]
        for k, (a, b) in FACTORS.items():
            want = VAL * z3.RealVal(f"{a}/{b}")
            cs.append(z3.Implies(u == z3.StringVal(k), z3.And(rt - want <= z3.RealVal("1/2") + VAL * TOL, want - rt <= z3.RealVal("1/2") + VAL * TOL)))
        return z3.And(cs)
    return z3.BoolVal(False)
