"""Pack-local executor for C02 (main-text fidelity).

Adds to the generic engine, without changing its semantics:

* the assumed ElementTree model (contracts/etree_model.py): attribute reads, `get/find/findall/iter`,
  iteration over an element = its ordered children (a sequence of SYMBOLIC length);
* **string lists of symbolic length** (`slist`): a `list[str]` that is only appended to / extended /
  joined is abstracted by  n = len,  cat = "".join(list)  and  sqj = the D-form of the blank-separated
  join of the sq-images of its items (contracts/c02_text.py).  `sep.join(list)` for a whitespace
  separator is a fresh string R with  nw(R) == nw(cat)  and  sq(R) == sqj  (assumed model of str.join);
* abstract HTML dict nodes (`HNode`): node["tag"|"text"|"tail"], node.get(k[, d]), children sequence;
* functional models of int(str) (INT_OK / INT_VAL), str * int (REP), strip / rjust / ljust /
  compiled-regex `sub` as uninterpreted functions whose only known laws are the nw / sq laws;
* labelled conjunctions (`Conj`): every conjunct of an invariant is its own obligation;
* **definitional unfolding**: spec functions are uninterpreted z3 functions with a definition table
  (`DEFS`); before a VC is stored, the definition is instantiated at every application that occurs in
  the VC (two rounds).  Each instance is an instance of the definition, hence sound; VCs stay quantifier free.
"""
from __future__ import annotations

import ast

import z3

from pyvc import ops
from pyvc.ops import Unsupported
from pyvc.state import HeapObj
from pyvc.symex import Executor
from pyvc.values import (NONE, V, VBool, VExt, VFunc, VInt, VNoneT, VRef, VSeq, VSetC, VStr, VTuple, VUnk,
                         ext_sort, fresh_name)
from pyvc.verify import Maker

from contracts import c02_etree_model as ET
from contracts import c02_text as T
from contracts.c02_text import NW, SQ, S, I, B, lit

# ----------------------------------------------------------------- definitions --
DEFS: dict = {}          # function name -> (decl, fn(*args) -> [facts], aux)


def define(decl, facts_fn, aux=False):
    """aux=False: a spec function proper (unfolded only where it occurs in the VC itself);
    aux=True: an item-level / auxiliary definition (also unfolded where an unfolding introduces it)."""
    DEFS[decl.name()] = (decl, facts_fn, aux)
    return decl


_APPS_CACHE: dict = {}


def _apps(terms, names):
    """Applications of the defined spec functions inside the given terms (cached per top-level term; the cache entry
    keeps the term alive because z3 recycles the ids of freed terms)."""
    out = {}
    for t in terms:
        k = (t.get_id(), len(names))
        hit = _APPS_CACHE.get(k)
        if hit is None:
            hit = (t, _apps1([t], names))
            _APPS_CACHE[k] = hit
        for a in hit[1]:
            out[a.get_id()] = a
    return list(out.values())


def _apps1(terms, names):
    seen, out, stack = set(), {}, list(terms)
    while stack:
        x = stack.pop()
        i = x.get_id()
        if i in seen:
            continue
        seen.add(i)
        if z3.is_quantifier(x):
            stack.append(x.body())
            continue
        if z3.is_app(x):
            d = x.decl()
            if d.kind() == z3.Z3_OP_UNINTERPRETED and x.num_args() > 0 and d.name() in names:
                out[i] = x
            stack.extend(x.children())
    return list(out.values())


def _has_var(t):
    stack, seen = [t], set()
    while stack:
        x = stack.pop()
        if x.get_id() in seen:
            continue
        seen.add(x.get_id())
        if z3.is_var(x):
            return True
        stack.extend(x.children())
    return False


def unfold(terms, rounds=3):
    """Instances of the definitions at every application occurring in `terms`."""
    facts, done = [], set()
    frontier = list(terms)
    for rnd in range(rounds):
        new = []
        for a in _apps(frontier, DEFS):
            if a.get_id() in done or _has_var(a):
                continue
            _decl, fn, aux = DEFS[a.decl().name()]
            if rnd > 0 and not aux:
                continue
            done.add(a.get_id())
            fs = fn(*a.children())
            new.extend(fs)
        if not new:
            break
        facts.extend(new)
        frontier = new
    return facts


_SQ_CACHE: dict = {}


def _mentions_sq(t) -> bool:
    k = t.get_id()
    if k in _SQ_CACHE:
        return _SQ_CACHE[k][1]              # the entry keeps the term alive: z3 recycles ids of freed terms
    r, seen, stack = False, set(), [t]
    while stack:
        x = stack.pop()
        if x.get_id() in seen:
            continue
        seen.add(x.get_id())
        if z3.is_quantifier(x):
            stack.append(x.body())
            continue
        if z3.is_app(x):
            if x.decl().kind() == z3.Z3_OP_UNINTERPRETED:
                nm = x.decl().name()
                if nm.startswith("sq") or "_sq" in nm or nm.endswith(".lead"):
                    r = True
                    break
            stack.extend(x.children())
    _SQ_CACHE[k] = (t, r)
    return r


def _conjuncts(terms):
    out, stack = [], list(reversed(terms))
    while stack:
        x = stack.pop()
        if z3.is_and(x):
            stack.extend(reversed(x.children()))
        else:
            out.append(x)
    return out


# A path on which the executor had to abstract (a symbolic loop cut without invariant, a comprehension it could not follow, a
# contract clause that did not fit the shape of the state) carries this marker in its path condition: a `sat` answer for a
# VC of such a path is not a counterexample (solve.SAT_UNTRUSTED -> `unknown`; the native replayer then decides).
ABSTRACTED = z3.Bool("c02!path-abstracted")


def _untrusted(pc, goal) -> bool:
    for p_ in pc:
        if p_.eq(ABSTRACTED):
            return True
    return False


def register_untrusted():
    from pyvc import solve
    if _untrusted not in solve.SAT_UNTRUSTED:
        solve.SAT_UNTRUSTED.append(_untrusted)


def robust(fn):
    """Contract clause that does not fit the state (renamed / restructured code): not an engine error, not a refutation --
    the path is marked abstracted and the clause is left undecided for the replayer."""
    def wrapped(c):
        try:
            return fn(c)
        except (AttributeError, KeyError, TypeError, IndexError, Unsupported):
            st = getattr(c, "st", None)
            if st is not None:
                st.assume(ABSTRACTED)
            return z3.BoolVal(False)
    return wrapped


class Conj(list):
    """Labelled conjunction [(label, Bool)]: assumed as a whole, proved conjunct by conjunct."""

    def term(self):
        return z3.And([t for _l, t in self] + [z3.BoolVal(True)])


# ---------------------------------------------------------------------- slist --
def mk_slist(ex, st, n, cat, lead, fresh=True):
    return VRef(st.alloc(HeapObj("slist", {"n": n, "cat": cat, "lead": lead}, None, fresh), ex.refs))


def lead_of_items(items):
    """Leading-blank normal form of the blank-separated join of sq-images: every item preceded by one blank."""
    out = []
    for x in items:
        out.append(lit(" "))
        out.append(SQ(x))
    return SQ_cat(*out) if out else lit("")


def SQ_cat(*ms):
    """Product in M of D-forms (concatenation, literal seams collapsed)."""
    parts = []
    for m in ms:
        parts.extend(T._flat(m))
    return T._concat(T._merge_sq(parts))


def slist_wf(n, cat, lead):
    """Representation invariant: n, cat and lead describe one and the same list."""
    return z3.And(n >= 0, z3.Implies(n == 0, cat == lit("")), (n == 0) == (lead == lit("")))


def p_strlist():
    """list[str] parameter with arbitrary content (never enumerated)."""
    def mk(ex, st, name):
        n = z3.Int(f"{name}.len")
        cat, lead = z3.String(f"{name}.cat"), z3.String(f"{name}.lead")
        st.assume(slist_wf(n, cat, lead))
        return mk_slist(ex, st, n, cat, lead, fresh=False)
    m = Maker(mk, desc="list[str] of symbolic length (n, ''.join, blank-prefixed sq-images)")
    m.slist = True
    return m


def slist_of(st, v):
    if isinstance(v, VRef):
        o = st.heap.get(v.ref)
        if o is not None and o.kind == "slist":
            return o.data
    return None


# ---------------------------------------------------------------------- HNode --
HNODE = ext_sort("HNode")
H_TAG = z3.Function("hn.tag", HNODE, S)
H_TEXT = z3.Function("hn.text", HNODE, S)
H_TAIL = z3.Function("hn.tail", HNODE, S)
H_NCH = z3.Function("hn.len", HNODE, I)
H_CH = z3.Function("hn.child", HNODE, I, HNODE)
H_KEYS = {"tag": H_TAG, "text": H_TEXT, "tail": H_TAIL}


def hnode(t):
    return VExt("HNode", t)


def p_hnode():
    return Maker(lambda ex, st, name: VExt("HNode", z3.Const(name, HNODE)),
                 desc="html tree node {tag, attrs, children, text, tail} as built by _HtmlTreeBuilder (abstract finite tree)")


def h_children(st, n):
    st.assume(H_NCH(n) >= 0)
    return VSeq(H_NCH(n), lambda i, n=n: hnode(H_CH(n, i)), "HNode", tag=("hn.children", n))


# ------------------------------------------------------------ rows of strings --
STRROW = ext_sort("StrRow")
RLEN = z3.Function("row.len", STRROW, I)
RCELL = z3.Function("row.cell", STRROW, I, S)


def p_strrow():
    def mk(ex, st, name):
        r = z3.Const(name, STRROW)
        st.assume(RLEN(r) >= 0)
        return VExt("StrRow", r)
    return Maker(mk, desc="list[str] (a row of cell strings, symbolic length, read only)")


def row_seq(st, r):
    st.assume(RLEN(r) >= 0)
    return VSeq(RLEN(r), lambda j, r=r: VStr(RCELL(r, j)), "str", tag=("row.cells", r))


def p_rowseq(at):
    def mk(ex, st, name):
        n = z3.Int(f"{name}.len")
        st.assume(n >= 0)
        return VSeq(n, lambda i: VExt("StrRow", at(i)), "StrRow")
    return Maker(mk, desc="list[list[str]] (symbolic number of rows of symbolic length, read only)")


# identity sets: `{id(x) for ...}` / `id(p) in ids` (membership only)
IDSET = ext_sort("IdSet")
ID_OF = z3.Function("py.id", ET.ELEM, I)
ID_MEMBER = z3.Function("idset.member", IDSET, I, B)

STRSET = ext_sort("StrSet")
MEMBER = z3.Function("set.member", STRSET, S, B)
EMPTYSET = z3.Const("set.empty", STRSET)


CONST_SETS: dict = {}       # name of the constant -> (term, members)


def const_strset(items):
    """StrSet term denoting a constant set of strings; its membership definition is instantiated by unfolding."""
    items = tuple(sorted(items))
    name = "strset{" + ",".join(items) + "}"
    if name not in CONST_SETS:
        CONST_SETS[name] = (z3.Const(name, STRSET), items)
    return CONST_SETS[name][0]


def _member_def(s_, t):
    if z3.is_const(s_) and s_.decl().name() in CONST_SETS:
        items = CONST_SETS[s_.decl().name()][1]
        return [MEMBER(s_, t) == z3.Or([t == lit(k) for k in items] + [z3.BoolVal(False)])]
    return []


define(MEMBER, _member_def, aux=True)


def p_strset():
    return Maker(lambda ex, st, name: VExt("StrSet", z3.Const(name, STRSET)), desc="set[str] (membership only)")


def set_member(v, s):
    """z3 Bool: s in v, for v an abstract StrSet, a constant set or None (= no members)."""
    if isinstance(v, VExt) and v.sort == "StrSet":
        return MEMBER(v.t, s)
    if isinstance(v, VSetC):
        return z3.Or([s == lit(k) for k in v.items] + [z3.BoolVal(False)])
    if isinstance(v, VNoneT):
        return z3.BoolVal(False)
    raise Unsupported(f"set membership on {v!r}")


# ------------------------------------------------------------------- executor --
class C02Executor(Executor):
    def __init__(self, *a, **kw):
        self.unknown_items_are_str = kw.pop("unknown_items_are_str", False)
        super().__init__(*a, **kw)
        self.extra_axioms: list = []

    def sub_executor(self, module):
        sub = type(self)(module, self.reg, self.uni)
        sub.refs = self.refs
        sub.extra_axioms = self.extra_axioms
        sub.unknown_items_are_str = self.unknown_items_are_str
        return sub

    # -- VCs: labelled conjunctions + definitional unfolding + global axioms ---------
    def _b(self, x):
        if isinstance(x, Conj):
            return x.term()
        return super()._b(x)

    def add_vc(self, kind, label, pc, goal, note="", loc=""):
        role = getattr(self.contract, "oid_qual", None) if self.contract is not None else None
        if role and "::" in self.oid_prefix and not self.oid_prefix.endswith("::" + role):
            self.oid_prefix = self.oid_prefix.rsplit("::", 1)[0] + "::" + role        # ids name the role, not the current identifier
        if isinstance(goal, Conj):
            for (sub, t) in goal:
                self.add_vc(kind, f"{label}.{sub}" if label else sub, pc, t, note, loc)
            return
        if isinstance(goal, VBool):
            goal = goal.t
        if isinstance(goal, bool):
            goal = z3.BoolVal(goal)
        if z3.is_true(goal):
            return super().add_vc(kind, label, [], goal, note, loc)
        base = list(pc)
        facts = unfold(base + [goal])
        hyps = base + facts + T.GLOBAL_AXIOMS + self.extra_axioms
        if not _mentions_sq(goal):
            # a goal about the nw image does not need the hypotheses about the sq image (dropping hypotheses is sound;
            # it keeps z3's sequence solver from wandering: measured 10 s -> 0.1 s)
            hyps = [h for h in _conjuncts(hyps) if not _mentions_sq(h)]
        super().add_vc(kind, label, hyps, goal, note, loc)

    # -- truth / len -------------------------------------------------------------------
    def truth(self, st, v):
        d = slist_of(st, v)
        if d is not None:
            return VBool(d["n"] > 0)
        if isinstance(v, VExt) and v.sort == "StrSet":
            return VBool(v.t != EMPTYSET)
        if isinstance(v, VExt) and v.sort == "Elem":
            st.assume(ET.NCH(v.t) >= 0)
            return VBool(ET.NCH(v.t) > 0)         # an Element is falsy iff it has no children
        if isinstance(v, VExt) and v.sort == "StrRow":
            st.assume(RLEN(v.t) >= 0)
            return VBool(RLEN(v.t) > 0)
        return super().truth(st, v)

    def b_len(self, st, args, kwargs, node):
        v = args[0]
        d = slist_of(st, v)
        if d is not None:
            return [(st, VInt(d["n"]))]
        if isinstance(v, VExt) and v.sort == "Elem":
            st.assume(ET.NCH(v.t) >= 0)
            return [(st, VInt(ET.NCH(v.t)))]
        if isinstance(v, VExt) and v.sort == "StrRow":
            st.assume(RLEN(v.t) >= 0)
            return [(st, VInt(RLEN(v.t)))]
        return super().b_len(st, args, kwargs, node)

    def b_enumerate(self, st, args, kwargs, node):
        if args and isinstance(args[0], VExt) and args[0].sort == "StrRow":
            args = [row_seq(st, args[0].t)] + list(args[1:])
        res = super().b_enumerate(st, args, kwargs, node)
        if args and isinstance(args[0], VSeq) and args[0].tag is not None:
            for (_s, v) in res:
                if isinstance(v, VSeq) and v.tag is None:
                    v.tag = ("enumerate",) + tuple(args[0].tag)
        return res

    _comp_counter = 0

    def _comp_as_loop(self, n, st):
        """[elt for x in seq if c] over a sequence of symbolic length == the loop `tmp = []; for x in seq: if c: tmp.append(elt)`
        (same evaluation order, same exceptions): executed as that loop, so that a loop invariant identified by role applies
        to it exactly as to the written-out loop.  -> [(state, list value)] or None when the shape is not a single generator."""
        if len(n.generators) != 1 or n.generators[0].is_async:
            return None
        g = n.generators[0]
        C02Executor._comp_counter += 1
        tmp = f"_c02_comp_{C02Executor._comp_counter}"
        call = ast.Expr(ast.Call(ast.Attribute(ast.Name(tmp, ast.Load()), "append", ast.Load()), [n.elt], []))
        body = [call]
        for cond in reversed(g.ifs):
            body = [ast.If(cond, body, [])]
        loop = ast.For(g.target, g.iter, body, [])
        for x in ast.walk(loop):
            ast.copy_location(x, n)
        ast.fix_missing_locations(loop)
        st.bind(tmp, self.new_list(st, []))
        out = []
        for o in self.exec_stmt(loop, st):
            if o.kind == "fall":
                out.append((o.st, o.st.lookup(tmp)))
            elif o.kind == "raise":
                self.raise_in(o.st, o.val)
            else:
                raise Unsupported(f"{self.loc(n)} control flow escaping a comprehension")
        return out

    def e_ListComp(self, n, st):
        try:
            return super().e_ListComp(n, st)
        except Unsupported as e:
            if "symbolic iterable" not in str(e):
                raise
            r = self._comp_as_loop(n, st)
            if r is None:
                raise
            return r

    def e_List(self, n, st):
        if any(isinstance(e, ast.Starred) for e in n.elts):
            # [*a, x, *b] with parts of symbolic length: built by successive extend / append
            new = self.new_list(st, [])
            cur = [st]
            for e in n.elts:
                nxt = []
                for s1 in cur:
                    for (s2, v) in self.ev(e.value if isinstance(e, ast.Starred) else e, s1):
                        self.list_method(s2, new, "extend" if isinstance(e, ast.Starred) else "append", [v], {}, n)
                        nxt.append(s2)
                cur = nxt
            return [(s1, new) for s1 in cur]
        return super().e_List(n, st)

    def e_GeneratorExp(self, n, st):
        try:
            return super().e_GeneratorExp(n, st)
        except Unsupported as e:
            if "symbolic iterable" not in str(e):
                raise
            try:
                r = self._comp_as_loop(n, st)
            except Unsupported:
                r = None
            if r is not None:
                return r
            # a generator over a sequence of symbolic length whose value is only consumed by an aggregate (max/min/sum):
            # nothing is known about the aggregate (sound over-approximation; any use of it is then unconstrained)
            st.assume(ABSTRACTED)
            self.exc_any(st.fork(), f"{self.loc(n)} generator over a symbolic sequence")
            return [(st, VUnk("genexp"))]

    def b_int(self, st, args, kwargs, node):
        if len(args) == 1 and isinstance(args[0], VStr) and args[0].const() is None:
            s = args[0].t
            out = []
            if self.feasible(st.pc, z3.Not(T.INT_OK(s))):
                self.raise_in(st.fork().assume(z3.Not(T.INT_OK(s))), self.mk_exc("ValueError"))
            if self.feasible(st.pc, T.INT_OK(s)):
                out.append((st.assume(T.INT_OK(s)), VInt(T.INT_VAL(s))))
            return out
        return super().b_int(st, args, kwargs, node)

    def _minmax(self, st, args, kwargs, node, is_min):
        items = args if len(args) > 1 else self.concrete_items(st, args[0])
        if items is not None and any(isinstance(x, VUnk) for x in items):
            st.assume(ABSTRACTED)
            return self.havoc_call(st, "min/max of unknown", [], node)
        return super()._minmax(st, args, kwargs, node, is_min)

    def b_set(self, st, args, kwargs, node):
        if not args:
            return [(st, VExt("StrSet", EMPTYSET))]
        return self.havoc_call(st, "set", args, node)

    def dataclass_fields(self, name):
        r = super().dataclass_fields(name)
        if r is not None:
            return r
        cls = self.module.classes.get(name)
        if cls is not None and any(ast.unparse(b).split(".")[-1] == "NamedTuple" for b in cls.bases):
            return [(b.target.id, b.value) for b in cls.body if isinstance(b, ast.AnnAssign) and isinstance(b.target, ast.Name)]
        return None

    def construct(self, st, t, args, kwargs, node):
        if t.name == "set" and not args:
            return [(st, VExt("StrSet", EMPTYSET))]
        return super().construct(st, t, args, kwargs, node)

    @staticmethod
    def _fill(fmt, pieces, pattern):
        """fmt with every occurrence of a plain placeholder replaced by the next piece, or None when fmt has anything else."""
        import re
        parts = re.split(pattern, fmt)
        if len(parts) != len(pieces) + 1 or any("%" in x or "{" in x or "}" in x for x in parts):
            return None
        out = []
        for i, x in enumerate(parts):
            out.append(lit(x))
            if i < len(pieces):
                out.append(pieces[i])
        return T._concat([y for t in out for y in T._flat(t)])

    def to_str(self, st, v, formatted=False):
        r = super().to_str(st, v, formatted)
        if not (isinstance(v, (VStr, VInt)) and not formatted):
            st.assume(ABSTRACTED)            # an opaque rendering (format spec, repr, unknown value): no counter-model from here on
        return r

    def str_method(self, st, s_, name, args, kwargs, node):
        if name == "format" and not kwargs and s_.const() is not None and all(isinstance(a, VStr) for a in args):
            fmt = s_.const()
            import re
            auto = self._fill(fmt, [a.t for a in args], r"\{\}")
            if auto is None and re.fullmatch(r"(?:[^{}]|\{\d+\})*", fmt):
                idx = [int(i) for i in re.findall(r"\{(\d+)\}", fmt)]
                if all(i < len(args) for i in idx):
                    auto = self._fill(fmt, [args[i].t for i in idx], r"\{\d+\}")
            if auto is not None:
                return [(st, VStr(auto))]
        if name in ("format", "format_map"):
            st.assume(ABSTRACTED)
        res = super().str_method(st, s_, name, args, kwargs, node)
        if name != "join":
            for (s2, v) in res:
                # a string method the models do not follow returns a fresh symbol: an abstraction, no counter-models downstream
                if (isinstance(v, VStr) and z3.is_const(v.t) and v.t.decl().kind() == z3.Z3_OP_UNINTERPRETED and "!" in v.t.decl().name()) or isinstance(v, VUnk):
                    s2.assume(ABSTRACTED)
        return res

    def binop(self, st, op, a, b, node, inplace=False):
        if op == "Mod" and isinstance(a, VStr):
            items = b.items if isinstance(b, VTuple) else [b]
            if a.const() is not None and all(isinstance(x, VStr) for x in items):
                r = self._fill(a.const(), [x.t for x in items], r"%s")
                if r is not None:
                    return [(st, VStr(r))]
            st.assume(ABSTRACTED)            # %-formatting the model does not follow: opaque text
        if op == "Mult" and isinstance(a, VInt) and isinstance(b, VStr):
            a, b = b, a                      # (round 8) `n * s` is `s * n` (sequence repetition commutes); the engine only knows str * int
        if op == "Mult" and isinstance(a, VStr) and isinstance(b, VInt) and b.const() is None:
            n = ops.int_term(b)
            return [(st, VStr(z3.If(n > 0, T.REP(a.t, n), lit(""))))]
        if op == "Add" and isinstance(a, VRef) and isinstance(b, VSeq) and not inplace:
            head = self.concrete_items(st, a)
            if head is not None and len(head) == 1 and b.ekind == "StrRow" and isinstance(head[0], VExt) and head[0].sort == "StrRow":
                h0, el = head[0], b.elem
                return [(st, VSeq(z3.simplify(b.length + 1), lambda i: ops.same_shape_ite(i == 0, h0, el(z3.simplify(i - 1))), "StrRow"))]
        if op == "Add" and not inplace and isinstance(a, VRef) and isinstance(b, VRef) \
                and (slist_of(st, a) is not None or slist_of(st, b) is not None):
            # list + list with at least one side of symbolic length: a new str list
            new = self.new_list(st, [])
            for side in (a, b):
                self.list_method(st, new, "extend", [side], {}, node)
            return [(st, new)]
        if op == "Add" and inplace and isinstance(a, VRef) and isinstance(b, VRef) and (slist_of(st, a) is not None or slist_of(st, b) is not None):
            for (s2, _r) in self.list_method(st, a, "extend", [b], {}, node):
                return [(s2, None)]
        return super().binop(st, op, a, b, node, inplace)

    def b_id(self, st, args, kwargs, node):
        if len(args) == 1 and isinstance(args[0], VExt) and args[0].sort == "Elem":
            return [(st, VInt(ID_OF(args[0].t)))]          # id() is a function of the object (PY-ALIAS: injective on live objects)
        return super().b_id(st, args, kwargs, node)

    def contains(self, st, container, item, node):
        if isinstance(container, VExt) and container.sort == "StrSet" and isinstance(item, VStr):
            return [(st, VBool(MEMBER(container.t, item.t)))]
        if isinstance(container, VExt) and container.sort == "IdSet" and isinstance(item, VInt):
            return [(st, VBool(ID_MEMBER(container.t, ops.int_term(item))))]
        return super().contains(st, container, item, node)

    # -- attributes / methods / iteration ---------------------------------------------------
    def get_attr(self, st, base, attr, node):
        if isinstance(base, VExt) and base.sort == "Elem":
            r = ET.get_attr(self, st, base, attr, node)
            if r is not None:
                return r
            return [(st, VFunc("bound", base, attr))]
        if isinstance(base, VExt) and base.sort == "HNode":
            return [(st, VFunc("bound", base, attr))]
        return super().get_attr(st, base, attr, node)

    def call_method(self, st, obj, name, args, kwargs, node):
        if isinstance(obj, VExt) and obj.sort == "Elem":
            return ET.call_method(self, st, obj, name, args, kwargs, node)
        if isinstance(obj, VExt) and obj.sort == "HNode":
            return self.hnode_get(st, obj, name, args, node)
        if slist_of(st, obj) is not None:
            return self.list_method(st, obj, name, args, kwargs, node)
        return super().call_method(st, obj, name, args, kwargs, node)

    def hnode_get(self, st, obj, name, args, node):
        if name != "get" or not args or not isinstance(args[0], VStr) or args[0].const() is None:
            raise Unsupported(f"{self.loc(node)} html node .{name}")
        return [(st, self.hnode_key(st, obj, args[0].const(), node))]

    def hnode_key(self, st, obj, key, node):
        if key in H_KEYS:
            return VStr(H_KEYS[key](obj.t))
        if key == "children":
            return h_children(st, obj.t)
        if key == "attrs":
            return VUnk("attrs")
        raise Unsupported(f"{self.loc(node)} html node key {key!r}")

    def get_index(self, st, base, idx, node):
        if isinstance(base, VExt) and base.sort == "HNode" and isinstance(idx, VStr) and idx.const() is not None:
            return [(st, self.hnode_key(st, base, idx.const(), node))]
        return super().get_index(st, base, idx, node)

    def seq_view(self, st, it):
        if isinstance(it, VExt) and it.sort == "Elem":
            return ET.children_view(st, it.t)
        if isinstance(it, VExt) and it.sort == "StrRow":
            v = row_seq(st, it.t)
            return v.length, v.elem
        return super().seq_view(st, it)

    # -- string lists ------------------------------------------------------------------------
    def to_slist(self, st, v, node=None):
        """Re-represent a concrete list of str as an slist (same content)."""
        if not isinstance(v, VRef):
            return False
        o = st.heap.get(v.ref)
        if o is None:
            return False
        if o.kind == "slist":
            return True
        if o.kind == "list" and o.data is not None and all(isinstance(x, VStr) for x in o.data):
            items = [x.t for x in o.data]
            cat = T._concat([y for x in items for y in T._flat(x)])
            st.heap[v.ref] = HeapObj("slist", {"n": z3.IntVal(len(items)), "cat": cat, "lead": lead_of_items(items)}, None, o.fresh)
            return True
        return False

    def slist_havoc(self, st, ref, name="h"):
        o = st.heap[ref]
        n = z3.Int(fresh_name(f"{name}.len"))
        cat, lead = z3.String(fresh_name(f"{name}.cat")), z3.String(fresh_name(f"{name}.lead"))
        st.heap[ref] = HeapObj("slist", {"n": n, "cat": cat, "lead": lead}, None, o.fresh)
        st.assume(slist_wf(n, cat, lead))
        # the loop-exit state is rebuilt from the pre-loop path condition (symex.symbolic_for), so the representation
        # invariant of the fresh symbols is also kept as an axiom about them
        self.extra_axioms.append(slist_wf(n, cat, lead))

    def list_method(self, st, obj, name, args, kwargs, node):
        d = slist_of(st, obj)
        if d is None:
            o = st.obj(obj.ref)
            # a concrete list receiving a symbolic amount of items becomes an slist
            if name == "extend" and args and (slist_of(st, args[0]) is not None) and self.to_slist(st, obj):
                d = slist_of(st, obj)
            else:
                return super().list_method(st, obj, name, args, kwargs, node)
        if name == "clear" and not args:
            self.note_store(st, obj.ref, node)
            st.wobj(obj.ref).data = dict(n=z3.IntVal(0), cat=lit(""), lead=lit(""))
            return [(st, NONE)]
        if name == "append" and len(args) == 1:
            x = args[0]
            if isinstance(x, VUnk) and getattr(self, "unknown_items_are_str", False):
                x = VStr(z3.String(fresh_name("item")))          # DT-TYPED: an unknown item of a list[str] is some string
            if not isinstance(x, VStr):
                raise Unsupported(f"{self.loc(node)} append of {x!r} to a str list")
            self.note_store(st, obj.ref, node)
            w = st.wobj(obj.ref)
            w.data = dict(n=z3.simplify(d["n"] + 1), cat=T._concat(T._flat(d["cat"]) + T._flat(x.t)),
                          lead=SQ_cat(d["lead"], lit(" "), SQ(x.t)))
            return [(st, NONE)]
        if name == "extend" and len(args) == 1:
            other = slist_of(st, args[0])
            if other is None:
                items = self.concrete_items(st, args[0])
                if items is None or not all(isinstance(x, VStr) for x in items):
                    raise Unsupported(f"{self.loc(node)} extend of a str list by {args[0]!r}")
                cur = st
                for x in items:
                    self.list_method(cur, obj, "append", [x], {}, node)
                return [(cur, NONE)]
            self.note_store(st, obj.ref, node)
            w = st.wobj(obj.ref)
            w.data = dict(n=z3.simplify(d["n"] + other["n"]), cat=T._concat(T._flat(d["cat"]) + T._flat(other["cat"])),
                          lead=SQ_cat(d["lead"], other["lead"]))
            return [(st, NONE)]
        raise Unsupported(f"{self.loc(node)} list.{name} on a str list of symbolic length")

    def havoc_loop_state(self, st, body, spec, extra_names=()):
        refs = self.mutated_refs(body, st)
        sl = []
        for r in sorted(refs):
            o = st.heap.get(r)
            if o is None:
                continue
            if o.kind == "slist" or (o.kind == "list" and o.data is not None and all(isinstance(x, VStr) for x in o.data)
                                     and self._appended_in(body, st, r)):
                self.to_slist(st, VRef(r))
                sl.append((r, st.heap[r]))
        # an instance all of whose modelled fields are already unknown has nothing left to havoc (keeps its class, so
        # that method calls on it still resolve to their contracts)
        opaque = [(r, st.heap[r]) for r in sorted(refs) if r in st.heap and st.heap[r].kind == "obj" and st.heap[r].data is not None
                  and (all(isinstance(x, VUnk) for x in st.heap[r].data.values()) or self._immutable_class(st.heap[r].cls))]
        super().havoc_loop_state(st, body, spec, extra_names)
        for r, o in opaque:
            st.heap[r] = o
        for r, o in sl:
            st.heap[r] = o
            self.slist_havoc(st, r)

    def _with_closures(self, body, st):
        """The loop body plus the bodies of the local functions (closures) it calls: what such a helper appends to is
        appended by the loop."""
        out, seen = list(body), set()
        work = list(body)
        while work:
            n = work.pop()
            for sub in ast.walk(n):
                if isinstance(sub, ast.Call) and isinstance(sub.func, ast.Name):
                    v = st.lookup(sub.func.id)
                    if isinstance(v, VFunc) and v.how == "closure" and id(v.a) not in seen and isinstance(v.a, ast.FunctionDef):
                        seen.add(id(v.a))
                        out.extend(v.a.body)
                        work.extend(v.a.body)
        return out

    def mutated_refs(self, stmts, st):
        return super().mutated_refs(self._with_closures(stmts, st), st)

    def _immutable_class(self, cls):
        """typing.NamedTuple subclasses (and frozen dataclasses) of the module: instances cannot be mutated by any callee."""
        node = self.module.classes.get(cls) if cls else None
        if node is None:
            return False
        if any(ast.unparse(b).split(".")[-1] == "NamedTuple" for b in node.bases):
            return True
        return any("frozen=True" in ast.unparse(d) for d in node.decorator_list)

    def _appended_in(self, body, st, ref):
        for n in self._with_closures(body, st):
            for sub in ast.walk(n):
                if isinstance(sub, ast.Call):
                    names = []
                    if isinstance(sub.func, ast.Attribute) and sub.func.attr in ("append", "extend"):
                        names.append(sub.func.value)
                    names.extend(sub.args)
                    for e in names:
                        if isinstance(e, ast.Name):
                            v = st.lookup(e.id)
                            if isinstance(v, VRef) and v.ref == ref:
                                return True
        return False

    # -- loop specifications by role, not by position -----------------------------------------------------
    _loop_st = None
    _loop_it = None

    def loop_spec(self, node):
        """A contract may carry `loop_match(ex, st, node, it) -> LoopSpec | None`: the loop is identified by what it iterates
        over / what it feeds (semantic roles), so inserting, removing, reordering loops or moving one into a helper that
        is executed in place does not detach the invariant.  Without it: the engine's positional lookup."""
        c = self.contract
        m = getattr(c, "loop_match", None) if c is not None else None
        if m is not None:
            try:
                return m(self, self._loop_st, node, self._loop_it)
            except (AttributeError, KeyError, TypeError, IndexError):
                return None
        return super().loop_spec(node)

    @staticmethod
    def _specified(spec):
        return spec is not None and (spec.inv is not None or getattr(spec, "step", None) is not None or spec.unroll is not None)

    def symbolic_for(self, s, st, it):
        self._loop_st, self._loop_it = st, it
        if not self._specified(self.loop_spec(s)):
            st.assume(ABSTRACTED)            # cut with invariant True: what follows is an over-approximation
        r = super().symbolic_for(s, st, it)
        self._loop_st, self._loop_it = None, None
        return r

    def s_While(self, s, st):
        """`LoopSpec.step(start_ctx, end_ctx) -> Conj`: a two-state property of ONE iteration started in an arbitrary
        state (everything the body assigns is havocked; no invariant is assumed, none is needed after the loop)."""
        from pyvc.symex import LoopCtx, Outcome
        self._loop_st, self._loop_it = st, None
        spec = self.loop_spec(s)
        step = getattr(spec, "step", None) if spec is not None else None
        if step is None:
            if not self._specified(spec):
                res = self.try_concrete_while(s, st.fork()) if False else None
                st.assume(ABSTRACTED)
            return super().s_While(s, st)
        label = spec.label or "loop"
        entry = st.fork()
        body_st = st.fork()
        self.havoc_loop_state(body_st, s.body, spec)
        after0 = body_st.fork()
        after0.pc = list(st.pc)
        outs = []
        for (s2, g) in self.ev(s.test, body_st):
            for (s3, b) in self.fork_truth(s2, g):
                if not b:
                    continue
                start = s3.fork()
                for o in self.exec_block(s.body, s3):
                    if o.kind in ("fall", "continue"):
                        self.add_vc("step", label, o.st.pc, step(LoopCtx(self, start, None, entry), LoopCtx(self, o.st, None, entry)), loc=self.loc(s))
                    elif o.kind == "break":
                        outs.append(Outcome("fall", o.st))
                    else:
                        outs.append(o)
        for (s2, g) in self.ev(s.test, after0):
            for (s3, b) in self.fork_truth(s2, g):
                if not b:
                    outs.append(Outcome("fall", s3))
        return outs

    def apply_contract(self, st, c, args, kwargs, node):
        names = [p[0] for p in c.params]
        amap = dict(zip(names, args))
        amap.update(kwargs)
        for (nme, maker) in c.params:
            if getattr(maker, "slist", False) and nme in amap:
                if not self.to_slist(st, amap[nme]):
                    raise Unsupported(f"{self.loc(node)} argument {nme} of {c.target} is not a list of str")
        compact = getattr(c, "compact_ensures", None)
        if compact is not None:
            # the case-split postcondition (one obligation id per case) is assumed at call sites in its equivalent unsplit form
            import dataclasses
            c = dataclasses.replace(c, ensures=compact)
        self.in_apply = getattr(self, "in_apply", 0) + 1
        try:
            res = super().apply_contract(st, c, args, kwargs, node)
        finally:
            self.in_apply -= 1
        if not res and not c.raises and not c.may_raise_any:
            raise Unsupported(f"{self.loc(node)} contract of {c.target} leaves no outcome (infeasible post-state)")
        return res


def havoc_slist(ex, st, ref):
    ex.slist_havoc(st, ref, "m")


# --------------------------------------------------------------- library models --
def m_strip(fn):
    def model(ex, st, args, kwargs, node):
        s = args[0]
        if len(args) > 1:
            raise Unsupported(f"{ex.loc(node)} strip(chars)")
        if fn is T.STRIP:
            for f in T.strip_facts(s.t):
                st.assume(f)
        return [(st, VStr(fn(s.t)))]
    return model


def m_just(fn):
    def model(ex, st, args, kwargs, node):
        s, w = args[0], args[1]
        if len(args) != 2 or not isinstance(w, (VInt, VUnk)):
            raise Unsupported(f"{ex.loc(node)} ljust/rjust with fill character")
        wt = ops.int_term(w) if isinstance(w, VInt) else z3.Int(fresh_name("width"))
        return [(st, VStr(fn(s.t, wt)))]
    return model


def m_join(ex, st, args, kwargs, node):
    sep, it = args[0], args[1]
    d = slist_of(st, it)
    if d is None:
        o = st.heap.get(it.ref) if isinstance(it, VRef) else None
        if o is not None and o.kind == "olist":           # C17's open list (abstract prefix + appended tail): opaque result
            if not (o.data["ekind"] == "str" and all(isinstance(x, VStr) for x in o.data["tail"])):
                ex.exc_any(st.fork(), f"{ex.loc(node)} join of a list not known to hold only str")
            return [(st, VStr(z3.String(fresh_name("join"))))]
        if isinstance(it, VUnk):                          # join of an unknown iterable: may raise, result opaque (EXC-ANY)
            ex.exc_any(st.fork(), f"{ex.loc(node)} join(unknown)")
            return [(st, VStr(z3.String(fresh_name("join"))))]
        raise Unsupported(f"{ex.loc(node)} join of {it!r}")
    c = sep.const()
    if c == "":
        return [(st, VStr(d["cat"]))]
    r = z3.String(fresh_name("joined"))
    if c is not None and c.strip() == "":
        st.assume(NW(r) == NW(d["cat"]))
        st.assume(z3.Implies(d["n"] == 0, r == lit("")))
        st.assume(z3.Implies(d["n"] > 0, SQ_cat(lit(" "), SQ(r)) == d["lead"]))
    return [(st, VStr(r))]


def m_split(ex, st, args, kwargs, node):
    """ASSUMED model of str.split() WITHOUT arguments on a symbolic string v (WS-CLASS): the words of v as a str list of symbolic
    length -- their concatenation is v with the whitespace erased, their blank-prefixed sq-images are ' ' + trim(sq(v)),
    and there is no word exactly when v is blank.  Any other form of split keeps the engine's default (an unknown value)."""
    if len(args) != 1 or kwargs or not isinstance(args[0], VStr):
        return [(st, VUnk("str.split"))]
    v = args[0].t
    n = z3.Int(fresh_name("words.len"))
    lead = z3.String(fresh_name("words.lead"))
    st.assume(z3.And(n >= 0, (n == 0) == (NW(v) == lit("")), z3.Implies(n == 0, lead == lit("")),
                     z3.Implies(n > 0, lead == SQ_cat(lit(" "), T.trim(SQ(v))))))
    for f in T.strip_facts(v):
        st.assume(f)
    return [(st, mk_slist(ex, st, n, NW(v), lead, fresh=True))]


def m_regex_sub(fn, repl):
    def model(ex, st, obj, args, kwargs, node):
        if len(args) != 2 or not isinstance(args[0], VStr) or args[0].const() != repl or not isinstance(args[1], VStr):
            raise Unsupported(f"{ex.loc(node)} regex sub with other arguments")
        return [(st, VStr(fn(args[1].t)))]
    return model


def install(reg):
    reg.ext_models["str.strip"] = m_strip(T.STRIP)
    reg.ext_models["str.lstrip"] = m_strip(T.LSTRIP)
    reg.ext_models["str.rstrip"] = m_strip(T.RSTRIP)
    reg.ext_models["str.rjust"] = m_just(T.RJUST)
    reg.ext_models["str.ljust"] = m_just(T.LJUST)
    reg.ext_models["str.join"] = m_join
    reg.ext_models["str.split"] = m_split
    reg.ext_models[("havoc-heap", "slist")] = havoc_slist
    reg.method_models[("RegexWS", "sub")] = m_regex_sub(T.WSSUB, " ")


ASSUMED_MODELS = ET.ASSUMED + [
    "str.strip/lstrip/rstrip, str.ljust/rjust, re.compile(r'\\s+').sub(' ', .): uninterpreted; only the laws nw(f(x)) == nw(x), "
    "sq(strip x) == trim(sq x), sq(ws_sub x) == sq(x) are used (contracts/c02_text.py)",
    "str.join over a str list of symbolic length: sep == '' -> exact concatenation; whitespace sep -> fresh R with nw(R) == nw(''.join) "
    "and ' ' + sq(R) == the blank-prefixed sq-images of the items ('' for the empty list)",
    "str.split() without arguments: the words as a str list of symbolic length with ''.join == nw(v), blank-prefixed sq-images == ' ' + trim(sq(v)), "
    "no word iff v is blank (WS-CLASS); used to verify epub _normalize_ws",
    "int(str): raises ValueError iff not int_parses(s), else int_value(s); int('1') == 1",
    "str * n for symbolic n: '' if n <= 0 else str_repeat(s, n)",
    "set[str] parameters: membership only; the empty set is unique (extensionality), so `s or set()` == s",
]
