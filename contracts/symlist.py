"""Pack-local engine extension: lists of *symbolic length* (built by append in loops that
are cut by an invariant), comprehensions / generator expressions over symbolic sequences,
`max(iterable, default=d)` and `"sep".join(...)` over them.

Representation.  An immutable symbolic sequence is a `VSeq(length, elem)`.  A mutable list
whose length is symbolic is a heap object of kind "slist" whose data is a VSeq (a
functional snapshot: append builds a new VSeq).  A list stored *inside* another symbolic
list is stored as its snapshot; mutating it afterwards through an alias would be unsound,
therefore an appended inner list is frozen (`("frozen", ref)` ghost) and a later mutation
raises Unsupported (OUT-OF-SUBSET, never a wrong verdict).

Semantics assumed (PY-COMP, PY-MAX, PY-JOIN, listed by the packs using this module):
* `[f(x) for x in s]` / `(f(x) for x in s)` for a total, effect-free `f` is the sequence of
  the same length with i-th element f(s[i]);
* `max(it, default=d)` is d for an empty iterable, otherwise an element that is >= every element;
* `sep.join(seq_of_str)` is an uninterpreted function JOIN(sep, n, elements) (extensional: the
  same separator, length and element function give the same string).
"""
import ast

import z3

from pyvc import ops
from pyvc.ops import Unsupported
from pyvc.state import Frame, HeapObj
from pyvc.values import NONE, V, VBool, VExt, VInt, VRef, VSeq, VStr, VTuple, VUnk, ext_sort, fresh_name

I = z3.IntSort()


# ------------------------------------------------------------ value helpers --
def vite(c, a, b):
    """If(c, a, b) on values, including symbolic sequences."""
    if a is b:
        return a
    if isinstance(a, VSeq) and isinstance(b, VSeq):
        return VSeq(z3.If(c, a.length, b.length), lambda i, a=a, b=b, c=c: vite(c, a.elem(i), b.elem(i)), a.ekind)
    r = ops.same_shape_ite(c, a, b)
    if r is None:
        raise Unsupported(f"cannot merge {a!r} / {b!r} in a symbolic list")
    return r


def subst_v(v, pairs):
    """Substitute z3 constants in a value (pairs: [(const, term)])."""
    if isinstance(v, VInt):
        return VInt(z3.substitute(v.t, *pairs))
    if isinstance(v, VStr):
        return VStr(z3.substitute(v.t, *pairs))
    if isinstance(v, VBool):
        return VBool(z3.substitute(v.t, *pairs))
    if isinstance(v, VExt):
        return VExt(v.sort, z3.substitute(v.t, *pairs))
    if isinstance(v, VTuple):
        return VTuple([subst_v(x, pairs) for x in v.items])
    if isinstance(v, VSeq):
        return VSeq(z3.substitute(v.length, *pairs), lambda i, v=v: subst_v(v.elem(i), pairs), v.ekind)
    if type(v).__name__ in ("VReal",):
        return type(v)(z3.substitute(v.t, *pairs))
    if v is NONE:
        return v
    raise Unsupported(f"cannot abstract {v!r} over a comprehension variable")


def fresh_seq(shape, name):
    """Unconstrained symbolic value of a shape: 'str' | 'int' | ('ext', sort) | ('list', shape).
    Returns (value, well-formedness constraints)."""
    name = fresh_name(name)
    wf = []

    def mk(sh, path):
        dom = [I] * len(path)
        if sh == "str":
            f = z3.Function(f"{name}_s{len(path)}", *dom, z3.StringSort()) if path else None
            return VStr(f(*path) if path else z3.String(name))
        if sh == "int":
            f = z3.Function(f"{name}_i{len(path)}", *dom, I) if path else None
            return VInt(f(*path) if path else z3.Int(name))
        if isinstance(sh, tuple) and sh[0] == "ext":
            f = z3.Function(f"{name}_e{len(path)}", *dom, ext_sort(sh[1])) if path else None
            return VExt(sh[1], f(*path) if path else z3.Const(name, ext_sort(sh[1])))
        if isinstance(sh, tuple) and sh[0] == "tuple":
            from pyvc.values import VTuple as _VT
            items = []
            for ci, comp in enumerate(sh[1]):
                tag = f"{name}_t{ci}"
                if comp == "str":
                    f = z3.Function(f"{tag}_s{len(path)}", *dom, z3.StringSort()) if path else None
                    items.append(VStr(f(*path) if path else z3.String(tag)))
                elif comp == "int":
                    f = z3.Function(f"{tag}_i{len(path)}", *dom, I) if path else None
                    items.append(VInt(f(*path) if path else z3.Int(tag)))
                else:
                    raise Unsupported(f"tuple component shape {comp!r}")
            return _VT(items)
        if isinstance(sh, tuple) and sh[0] == "list":
            if path:
                lf = z3.Function(f"{name}_len{len(path)}", *dom, I)
                ln = lf(*path)
            else:
                ln = z3.Int(f"{name}_len")
            return VSeq(ln, lambda i, sh=sh, path=path: mk(sh[1], path + [i]), "sym")
        raise Unsupported(f"shape {sh!r}")

    def wf_of(sh, path, qvars):
        if isinstance(sh, tuple) and sh[0] == "list":
            v = mk(sh, path)
            c = v.length >= 0
            wf.append(z3.ForAll(qvars, c) if qvars else c)
            q = z3.Int(f"{name}_q{len(path)}")
            wf_of(sh[1], path + [q], qvars + [q])

    wf_of(shape, [], [])
    return mk(shape, []), wf


def elem_eq(a, b):
    if (isinstance(a, VUnk) and a.tag == "empty") or (isinstance(b, VUnk) and b.tag == "empty"):
        return z3.BoolVal(True)        # element of the empty sequence: the index range is empty
    if isinstance(a, VSeq) or isinstance(b, VSeq):
        return seq_eq(a, b)
    return ops.eq_term(a, b)


def seq_eq(a, b):
    """a == b for (possibly nested) symbolic sequences: same length, equal elements."""
    if not isinstance(a, VSeq) or not isinstance(b, VSeq):
        return z3.BoolVal(False)
    k = z3.Int(fresh_name("k"))
    return z3.And(a.length == b.length,
                  z3.ForAll([k], z3.Implies(z3.And(k >= 0, k < a.length), elem_eq(a.elem(k), b.elem(k)))))


def take(s: VSeq, n):
    return VSeq(n, s.elem, s.ekind)


def concat(a: VSeq, b: VSeq):
    return VSeq(a.length + b.length, lambda i, a=a, b=b: vite(i < a.length, a.elem(i), b.elem(i - a.length)), a.ekind)


def seq_of_items(items):
    """Concrete python list of values as a VSeq (ite chain)."""
    n = len(items)
    if n == 0:
        return VSeq(z3.IntVal(0), lambda i: VUnk("empty"), "sym")

    def at(i):
        acc = items[-1]
        for k in range(n - 2, -1, -1):
            acc = vite(i == k, items[k], acc)
        return acc
    return VSeq(z3.IntVal(n), at, "sym")


def is_max(m, n, f, default):
    """m is max(f(0..n-1), default=default)."""
    k, j = z3.Int(fresh_name("k")), z3.Int(fresh_name("j"))
    return z3.And(z3.ForAll([k], z3.Implies(z3.And(k >= 0, k < n), f(k) <= m)),
                  z3.If(n <= 0, m == default, z3.Exists([j], z3.And(j >= 0, j < n, f(j) == m))))


_JOIN_CACHE = {}

OVER = z3.Bool("pyvc!overapprox")     # assumed on every over-approximated path (EXC-ANY, havoc of an unmodelled call, loop cut without
                                      # invariant): a `sat` answer / a structural mismatch on such a path is NOT a counter-model -> unknown


def mentions_over(pc):
    return any(z3.eq(x, OVER) for x in pc)


def register_over():
    from pyvc import solve
    if _untrusted not in solve.SAT_UNTRUSTED:
        solve.SAT_UNTRUSTED.append(_untrusted)


def _untrusted(pc, goal):
    return mentions_over(pc)


class SymListMixin:
    # ------------------------------------------------------ over-approximations --
    def exc_any(self, st, site, also=()):
        st.assume(OVER)
        return super().exc_any(st, site, also)

    def havoc_call(self, st, what, args, node):
        r = super().havoc_call(st, what, args, node)
        st.assume(OVER)
        return r

    def exc_model(self, st, site):
        """an exception that an ASSUMED MODEL deliberately allows (documented behaviour of the library call): a real path, no marker"""
        t, c = self.uni.any_exception()
        s2 = st.fork().assume(c)
        from pyvc.values import VExc
        self.raise_in(s2, VExc(t, {"site": site}))
        self.exc_any_sites.append(site)

    def loop_spec(self, node):
        auto = getattr(self, "_auto_specs", {}).get(id(node))
        return auto if auto is not None else super().loop_spec(node)

    def symbolic_for(self, s, st, it):
        spec = self.loop_spec(s)
        if spec is None or spec.inv is None:
            auto = None
            try:
                auto = self._running_max_invariant(s, st, it)
            except (Unsupported, z3.Z3Exception, KeyError, AttributeError):
                auto = None
            if auto is not None:
                self._auto_specs = {**getattr(self, "_auto_specs", {}), id(s): auto}
            else:
                st.assume(OVER)
        return super().symbolic_for(s, st, it)

    def _running_max_invariant(self, s, st, it):
        """A `for` loop over a symbolic sequence that only updates one integer accumulator: try the invariant
        "acc is the maximum of its initial value and g(x) over the processed prefix" for every integer expression g(x) of the
        body.  A candidate is used ONLY after its inv-init / inv-preserve VCs have been proved here (Houdini style), so this
        never assumes anything unproved; otherwise the loop is cut as before (over-approximation marker)."""
        from pyvc import solve
        from pyvc.contracts import LoopSpec
        if not isinstance(s.target, ast.Name) or s.orelse:
            return None
        probe = st.fork()
        view = self.seq_view(probe, it)
        if view is None or self.mutated_refs(s.body, st):
            return None
        length, elem = view
        accs = [nm for nm in sorted(self.assigned_names(s.body) - {s.target.id}) if st.lookup(nm) is not None]
        if len(accs) != 1 or not isinstance(st.lookup(accs[0]), VInt):
            return None
        acc = accs[0]
        a0 = ops.int_term(st.lookup(acc))
        k = z3.Int(fresh_name("fk"))
        cands, seen = [], set()
        for node in [n for b in s.body for n in ast.walk(b) if isinstance(n, ast.expr)]:
            src = ast.unparse(node)
            if src in seen or s.target.id not in {x.id for x in ast.walk(node) if isinstance(x, ast.Name)} or acc in {x.id for x in ast.walk(node) if isinstance(x, ast.Name)}:
                continue
            seen.add(src)
            p2 = st.fork()
            p2.frames.append(Frame({s.target.id: elem(k)}, len(p2.frames) - 1, p2.frame.fnode))
            p2.assume(z3.And(k >= 0, k < length))
            self.sinks.append([])
            try:
                v, _facts = self._eval_pure(node, p2, len(p2.pc), "fold candidate")
            except Unsupported:
                continue
            finally:
                self.sinks.pop()
            if isinstance(v, VInt):
                cands.append((src, ops.int_term(v)))
        for src, g in cands[:6]:
            gk = (lambda j, g=g: z3.substitute(g, (k, j)))

            def inv(lc, gk=gk):
                a = ops.int_term(lc[acc])
                q, w = z3.Int(fresh_name("q")), z3.Int(fresh_name("w"))
                return z3.And(a >= a0, z3.ForAll([q], z3.Implies(z3.And(q >= 0, q < lc.i), gk(q) <= a)),
                              z3.Or(a == a0, z3.Exists([w], z3.And(w >= 0, w < lc.i, gk(w) == a))))
            spec = LoopSpec(inv=inv, label=f"auto-running-max-of-{acc}")
            saved_obls, saved_auto = self.obls, getattr(self, "_auto_specs", {})
            self.obls, self._auto_specs = {}, {**saved_auto, id(s): spec}
            self.sinks.append([])
            ok = False
            try:
                super().symbolic_for(s, st.fork(), it)
                vcs = [vc for ob in self.obls.values() if ob.kind in ("inv-init", "inv-preserve") for vc in ob.vcs]
                ok = bool(vcs) and all(solve.check_vc(vc.pc, vc.goal if not hasattr(vc.goal, "t") else vc.goal.t, 5000, want_model=False, use_cvc5=False).status == "proved" for vc in vcs)
            except Unsupported:
                ok = False
            finally:
                self.sinks.pop()
                self.obls, self._auto_specs = saved_obls, saved_auto
            if ok:
                return spec
        return None

    def try_concrete_while(self, s, st, limit=4096):
        """exact unrolling while the guard is DECIDED on each path -- by constant folding or because the path condition leaves
        only one truth value feasible (e.g. a cell text assumed non-blank); gives up (-> cut, over-approximation) otherwise"""
        from pyvc.symex import Outcome
        live, done, steps = [st.fork()], [], 0
        mark0 = len(self.sinks[-1])
        while live:
            steps += 1
            if steps > limit:
                del self.sinks[-1][mark0:]
                st.assume(OVER)
                return None
            nxt = []
            for cur in live:
                for (s2, g) in self.ev(s.test, cur):
                    branches = self.fork_truth(s2, g)
                    if len(branches) != 1:
                        del self.sinks[-1][mark0:]
                        st.assume(OVER)      # the loop will be cut without an invariant
                        return None
                    s3, t = branches[0]
                    if not t:
                        done.append(Outcome("fall", s3))
                        continue
                    for o in self.exec_block(s.body, s3):
                        if o.kind in ("fall", "continue"):
                            nxt.append(o.st)
                        elif o.kind == "break":
                            done.append(Outcome("fall", o.st))
                        else:
                            done.append(o)
            live = nxt
        return done

    # ---------------------------------------------------------------- views --
    def as_seq(self, st, v):
        """VSeq view of a sequence value (symbolic, slist, or concrete), else None."""
        if isinstance(v, VSeq):
            return v
        if isinstance(v, VRef):
            o = st.obj(v.ref)
            if o.kind == "slist":
                return o.data
            if o.kind == "list" and o.data is not None:
                return seq_of_items([self.snapshot(st, x) for x in o.data])
            return None
        if isinstance(v, VTuple):
            return seq_of_items([self.snapshot(st, x) for x in v.items])
        return None

    def snapshot(self, st, v):
        """Value stored inside a symbolic list: inner lists become immutable snapshots."""
        if isinstance(v, VRef):
            o = st.obj(v.ref)
            if o.kind in ("slist", "list"):
                s = self.as_seq(st, v)
                st.ghost[("frozen", v.ref)] = True
                return s
            raise Unsupported(f"cannot store heap object of kind {o.kind} in a symbolic list")
        return v

    def seq_view(self, st, it):
        if isinstance(it, VRef) and st.obj(it.ref).kind == "slist":
            s = st.obj(it.ref).data
            return s.length, s.elem
        return super().seq_view(st, it)

    def concrete_items(self, st, v):
        return super().concrete_items(st, v)

    def truth(self, st, v):
        if isinstance(v, VRef) and st.obj(v.ref).kind == "slist":
            return VBool(st.obj(v.ref).data.length > 0)
        return super().truth(st, v)

    def eq_hook(self, st, a, b):
        sa, sb = None, None
        if isinstance(a, VSeq) or (isinstance(a, VRef) and st.obj(a.ref).kind == "slist") or \
                isinstance(b, VSeq) or (isinstance(b, VRef) and st.obj(b.ref).kind == "slist"):
            sa, sb = self.as_seq(st, a), self.as_seq(st, b)
            if sa is None or sb is None:
                return z3.BoolVal(False)
            return seq_eq(sa, sb)
        return None

    # --------------------------------------------------------------- builtins --
    def b_len(self, st, args, kwargs, node):
        v = args[0]
        if isinstance(v, VRef) and st.obj(v.ref).kind == "slist":
            return [(st, VInt(st.obj(v.ref).data.length))]
        return super().b_len(st, args, kwargs, node)

    def _minmax(self, st, args, kwargs, node, is_min):
        if len(args) == 1 and not is_min:
            s = args[0] if isinstance(args[0], VSeq) else (self.as_seq(st, args[0]) if isinstance(args[0], VRef) and st.obj(args[0].ref).kind == "slist" else None)
            if s is not None:
                probe = s.elem(z3.Int(fresh_name("p")))
                if not isinstance(probe, VInt):
                    return self.havoc_call(st, "max over non-int symbolic sequence", args, node)
                f = lambda k, s=s: ops.int_term(s.elem(k))
                m = z3.Int(fresh_name("max"))
                if "default" in kwargs:
                    d = kwargs["default"]
                    if not isinstance(d, VInt):
                        return self.havoc_call(st, "max default", args, node)
                    st.assume(is_max(m, s.length, f, ops.int_term(d)))
                    return [(st, VInt(m))]
                # no default: ValueError on empty
                st2 = self.fork_raise(st, s.length <= 0, "ValueError")
                if st2 is None:
                    return []
                st2.assume(is_max(m, s.length, f, z3.IntVal(0)))
                return [(st2, VInt(m))]
        return super()._minmax(st, args, kwargs, node, is_min)

    def call_builtin(self, st, name, args, kwargs, node):
        if name == "next" and hasattr(self, "b_next"):
            return self.b_next(st, args, kwargs, node)
        return super().call_builtin(st, name, args, kwargs, node)

    def b_collection(self, st, name, args, node):
        if name == "list" and args and isinstance(args[0], VRef) and st.obj(args[0].ref).kind == "slist":
            return [(st, VRef(st.alloc(HeapObj("slist", st.obj(args[0].ref).data), self.refs)))]
        return super().b_collection(st, name, args, node)

    # ------------------------------------------------------------ list methods --
    def _check_not_frozen(self, st, ref, node):
        if st.ghost.get(("frozen", ref)):
            raise Unsupported(f"{self.loc(node)} mutation of a list already stored in a symbolic list")

    def list_method(self, st, obj, name, args, kwargs, node):
        o = st.obj(obj.ref)
        if name in ("append", "extend", "insert", "pop", "clear"):
            self._check_not_frozen(st, obj.ref, node)
        if o.kind == "list" and name == "extend":
            s = args[0] if isinstance(args[0], VSeq) else (st.obj(args[0].ref).data if isinstance(args[0], VRef) and st.obj(args[0].ref).kind == "slist" else None)
            if s is not None:
                cur = self.as_seq(st, obj)
                self.note_store(st, obj.ref, node)
                st.heap[obj.ref] = HeapObj("slist", concat(cur, s), None, o.fresh)
                return [(st, NONE)]
        if o.kind == "list" and name == "append" and isinstance(args[0], VRef) and st.obj(args[0].ref).kind == "slist":
            # a symbolic inner list in a concrete outer list: keep the outer concrete, store the snapshot
            self.note_store(st, obj.ref, node)
            st.wobj(obj.ref).data.append(self.snapshot(st, args[0]))
            return [(st, NONE)]
        return super().list_method(st, obj, name, args, kwargs, node)

    def call_method(self, st, obj, name, args, kwargs, node):
        if isinstance(obj, VRef) and st.obj(obj.ref).kind == "slist":
            return self.slist_method(st, obj, name, args, kwargs, node)
        if isinstance(obj, VStr) and name == "join" and args:
            s = args[0] if isinstance(args[0], VSeq) else (self.as_seq(st, args[0]) if isinstance(args[0], VRef) and st.obj(args[0].ref).kind == "slist" else None)
            if s is not None:
                return [(st, self.join_term(obj, s))]
        return super().call_method(st, obj, name, args, kwargs, node)

    def join_term(self, sep: VStr, s: VSeq) -> VStr:
        """JOIN as an extensional uninterpreted function: the element function is named by its
        application to a canonical bound variable, so syntactically equal sequences give equal terms."""
        raise Unsupported("join over a symbolic sequence needs a pack-level model (override join_term)")

    def slist_method(self, st, obj, name, args, kwargs, node):
        o = st.obj(obj.ref)
        cur = o.data
        if name == "append":
            self._check_not_frozen(st, obj.ref, node)
            v = self.snapshot(st, args[0])
            n = cur.length
            new = VSeq(n + 1, lambda i, v=v, cur=cur, n=n: vite(i == n, v, cur.elem(i)), "sym")
            self.note_store(st, obj.ref, node)
            st.heap[obj.ref] = HeapObj("slist", new, None, o.fresh)
            return [(st, NONE)]
        if name == "extend":
            self._check_not_frozen(st, obj.ref, node)
            s = self.as_seq(st, args[0])
            if s is None:
                raise Unsupported(f"{self.loc(node)} extend of a symbolic list by {args[0]!r}")
            self.note_store(st, obj.ref, node)
            st.heap[obj.ref] = HeapObj("slist", concat(cur, s), None, o.fresh)
            return [(st, NONE)]
        if name == "copy":
            return [(st, VRef(st.alloc(HeapObj("slist", cur), self.refs)))]
        raise Unsupported(f"{self.loc(node)} method {name} on a symbolic list")

    def get_index(self, st, base, idx, node):
        if isinstance(base, VRef) and st.obj(base.ref).kind == "slist":
            return super().get_index(st, st.obj(base.ref).data, idx, node)
        return super().get_index(st, base, idx, node)

    def get_slice(self, st, base, sl, node):
        if isinstance(base, VRef) and st.obj(base.ref).kind == "slist":
            return super().get_slice(st, st.obj(base.ref).data, sl, node)
        return super().get_slice(st, base, sl, node)

    def binop(self, st, op, a, b, node, inplace=False):
        if op == "Add" and not inplace:
            sa = self.as_seq(st, a) if isinstance(a, (VSeq, VRef)) else None
            sb = self.as_seq(st, b) if isinstance(b, (VSeq, VRef)) else None
            sym = lambda x: isinstance(x, VSeq) or (isinstance(x, VRef) and st.obj(x.ref).kind == "slist")
            if sa is not None and sb is not None and (sym(a) or sym(b)):
                return [(st, VRef(st.alloc(HeapObj("slist", concat(sa, sb)), self.refs)))]
        return super().binop(st, op, a, b, node, inplace)

    # ------------------------------------------------------------- loop havoc --
    PURE_BUILTINS = {"len", "min", "max", "sum", "any", "all", "enumerate", "zip", "sorted", "reversed", "list", "tuple", "range", "isinstance", "str", "int", "bool"}
    MUTATORS = {"append", "extend", "insert", "pop", "clear", "sort", "reverse", "remove", "__setitem__", "__delitem__"}

    def _maybe_mutated(self, body, name):
        """may the loop body mutate the list bound to `name`?  (syntactic, conservative: a mutating method, a store through
        it, or passing it to a call that is neither a pure builtin nor a function with a registered -- pure -- model)"""
        for stmt in body:
            for n in ast.walk(stmt):
                if isinstance(n, ast.Call):
                    f = n.func
                    if isinstance(f, ast.Attribute) and isinstance(f.value, ast.Name) and f.value.id == name and f.attr in self.MUTATORS:
                        return True
                    passed = any(isinstance(a, ast.Name) and a.id == name for a in list(n.args) + [k.value for k in n.keywords])
                    if passed:
                        if isinstance(f, ast.Name) and f.id in self.PURE_BUILTINS:
                            continue
                        if isinstance(f, ast.Name) and self.module.imports.get(f.id) in self.reg.ext_models:
                            continue
                        return True
                elif isinstance(n, (ast.Subscript, ast.Attribute)) and isinstance(n.ctx, (ast.Store, ast.Del)):
                    b = n.value
                    while isinstance(b, (ast.Subscript, ast.Attribute)):
                        b = b.value
                    if isinstance(b, ast.Name) and b.id == name:
                        return True
                elif isinstance(n, ast.AugAssign) and isinstance(n.target, ast.Name) and n.target.id == name:
                    return True
        return False

    def havoc_loop_state(self, st, body, spec, extra_names=()):
        declared = dict(getattr(spec, "havoc", ()) or ()) if spec is not None else {}
        # symbolic lists that the body only reads keep their value (the engine's conservative rule would forget them)
        keep = {}
        for fr in st.frames:
            for nm, v in fr.env.items():
                if isinstance(v, VRef) and st.heap.get(v.ref) is not None and st.heap[v.ref].kind == "slist" \
                        and nm not in declared and nm not in self.assigned_names(body) and not self._maybe_mutated(body, nm):
                    keep[v.ref] = st.heap[v.ref]
        refs = {}
        for name in declared:
            v = st.lookup(name)
            if isinstance(v, VRef):
                refs[name] = v.ref
        super().havoc_loop_state(st, body, spec, extra_names)
        aliased = {v.ref for fr in st.frames for nm, v in fr.env.items() if isinstance(v, VRef) and (nm in declared or self._maybe_mutated(body, nm))}
        for ref, obj in keep.items():
            if ref not in aliased:
                st.heap[ref] = obj
        for name, shape in declared.items():
            if name not in refs:
                continue
            val, wf = fresh_seq(shape, name)
            old = st.heap.get(refs[name])
            st.heap[refs[name]] = HeapObj("slist", val, None, old.fresh if old is not None else True)
            st.bind(name, VRef(refs[name]))
            for c in wf:
                st.assume(c)

    # ---------------------------------------------------------- comprehensions --
    def _eval_pure(self, node, st, npc, what):
        """evaluate `node` in st; the evaluation may fork (e.g. Optional results of a model) but must be effect free:
        -> (value merged over the forks with ite, facts assumed on every fork).  Raises Unsupported otherwise."""
        mark = len(self.sinks[-1])
        heap_keys = set(st.heap)
        res = self.ev(node, st.fork())
        if not res or len(self.sinks[-1]) != mark:
            raise Unsupported(f"{self.loc(node)} {what} may raise over a symbolic sequence")
        common = None
        for (s2, _v) in res:
            extra = [c for c in s2.pc[npc:]]
            ids = {c.get_id(): c for c in extra}
            common = ids if common is None else {k: c for k, c in common.items() if k in ids}
        common = common or {}
        merged = None
        for (s2, v) in reversed(res):
            v = self.snapshot(s2, v) if isinstance(v, VRef) else v
            cond = z3.And([c for c in s2.pc[npc:] if c.get_id() not in common] + [z3.BoolVal(True)])
            merged = v if merged is None else vite(cond, v, merged)
        return merged, list(common.values())

    def _sym_comp(self, n, st, elt_node):
        """[elt for x in S (if cond)] over a symbolic sequence S with a total, effect-free elt -> VSeq or None.
        With a filter the result is a lazy filtered view (tag = ("filter", n, keep(k), elem(k))) that only `next()` consumes."""
        if len(n.generators) != 1 or n.generators[0].is_async:
            return None
        g = n.generators[0]
        probe = st.fork()
        mark = len(self.sinks[-1])
        r = self.ev(g.iter, probe)
        del self.sinks[-1][mark:]
        if len(r) != 1:
            return None
        it = r[0][1]
        if self.concrete_items(r[0][0], it) is not None:
            return None
        out = []
        for (s2, it) in self.ev(g.iter, st):
            view = self.seq_view(s2, it)
            if view is None:
                raise Unsupported(f"{self.loc(n)} comprehension over {it!r}")
            length, elem = view
            k = z3.Int(fresh_name("ck"))
            fr = Frame({}, len(s2.frames) - 1, s2.frame.fnode)
            s2.frames.append(fr)
            npc = len(s2.pc)
            s2.assume(z3.And(k >= 0, k < length))
            try:
                states = self.assign(g.target, elem(k), s2)
                if len(states) != 1:
                    raise Unsupported(f"{self.loc(n)} comprehension target forks")
                s3 = states[0]
                keep = None
                for cond in g.ifs:
                    cv, facts0 = self._eval_pure(cond, s3, npc + 1, "comprehension filter")
                    t = self.truth(s3, cv).t
                    keep = t if keep is None else z3.And(keep, t)
                    for c in facts0:
                        s3.assume(c)
                v, facts = self._eval_pure(elt_node, s3, len(s3.pc), "comprehension element")
                extra = s3.pc[npc + 1:] + facts
            finally:
                s2.frames.pop()
                del s2.pc[npc:]
            for c in extra:     # facts assumed while evaluating (well-formedness of a model) hold for every index
                s2.assume(z3.ForAll([k], z3.Implies(z3.And(k >= 0, k < length), c)))
            el = (lambda i, v=v, k=k: subst_v(v, [(k, i)]))
            if keep is None:
                out.append((s2, VSeq(length, el, "sym")))
            else:
                kp = (lambda i, keep=keep, k=k: z3.substitute(keep, (k, i)))
                cnt = z3.Int(fresh_name("nkept"))
                s2.assume(z3.And(cnt >= 0, cnt <= length))

                def no_elem(i):
                    raise Unsupported("a filtered comprehension over a symbolic sequence is only supported as the argument of next()")
                out.append((s2, VSeq(cnt, no_elem, "filtered", tag=("filter", length, kp, el))))
        return out

    def b_next(self, st, args, kwargs, node):
        it = args[0] if args else None
        if isinstance(it, VRef) and st.obj(it.ref).kind == "slist":
            it = st.obj(it.ref).data
        if isinstance(it, VSeq) and isinstance(it.tag, tuple) and it.tag and it.tag[0] == "filter":
            # next(<x for x in S if keep(x)>, default): the first element that passes the filter
            _f, n, keep, el = it.tag
            j, m = z3.Int(fresh_name("first")), z3.Int(fresh_name("m"))
            out = []
            found = z3.And(j >= 0, j < n, keep(j), z3.ForAll([m], z3.Implies(z3.And(m >= 0, m < j), z3.Not(keep(m)))))
            none = z3.ForAll([m], z3.Implies(z3.And(m >= 0, m < n), z3.Not(keep(m))))
            s_found = st.fork().assume(found)
            if self.feasible(s_found.pc):
                out.append((s_found, el(j)))
            s_none = st.assume(none)
            if len(args) > 1:
                out.append((s_none, args[1]))
            else:
                self.raise_in(s_none, self.mk_exc("StopIteration"))
            return out
        sup = getattr(super(), "b_next", None)
        if sup is not None:
            return sup(st, args, kwargs, node)
        return self.havoc_call(st, "next", args, node)

    def b_map(self, st, args, kwargs, node):
        """map(f, S) over a symbolic sequence with a pure single-valued f: the element-wise image"""
        if len(args) == 2:
            s = args[1] if isinstance(args[1], VSeq) else (self.as_seq(st, args[1]) if isinstance(args[1], VRef) and st.obj(args[1].ref).kind == "slist" else None)
            if s is not None and not (isinstance(s.tag, tuple) and s.tag and s.tag[0] == "filter"):
                k = z3.Int(fresh_name("mk"))
                mark = len(self.sinks[-1])
                probe = st.fork()
                probe.assume(z3.And(k >= 0, k < s.length))
                r = self.call(probe, args[0], [s.elem(k)], {}, node)
                if len(r) == 1 and len(self.sinks[-1]) == mark and not mentions_over(r[0][0].pc):
                    v = r[0][1]
                    return [(st, VSeq(s.length, lambda i, v=v, k=k: subst_v(v, [(k, i)]), "sym"))]
                del self.sinks[-1][mark:]
            items = self.concrete_items(st, args[1])
            if items is not None:
                acc = [(st, [])]
                for x in items:
                    acc = [(s3, vals + [v]) for (s2, vals) in acc for (s3, v) in self.call(s2, args[0], [x], {}, node)]
                return [(s2, VTuple(vals)) for (s2, vals) in acc]
        return self.havoc_call(st, "map", args, node)

    # ------------------------------------------------- starred displays / targets --
    def e_List(self, n, st):
        """[a, *xs, b]: concrete pieces stay concrete; a starred symbolic sequence makes the result a symbolic list"""
        if not any(isinstance(e, ast.Starred) for e in n.elts):
            return super().e_List(n, st)
        acc = [(st, [])]
        for e in n.elts:
            nxt = []
            for (s, parts) in acc:
                for (s2, v) in self.ev(e.value if isinstance(e, ast.Starred) else e, s):
                    nxt.append((s2, parts + [(isinstance(e, ast.Starred), v)]))
            acc = nxt
        out = []
        for (s, parts) in acc:
            items, sym = [], False
            for star, v in parts:
                if not star:
                    items.append(("one", v))
                    continue
                ci = self.concrete_items(s, v)
                if ci is not None:
                    items.extend(("one", x) for x in ci)
                else:
                    sq = self.as_seq(s, v)
                    if sq is None:
                        raise Unsupported(f"{self.loc(n)} starred of {v!r}")
                    items.append(("seq", sq))
                    sym = True
            if not sym:
                out.append((s, self.new_list(s, [v for _k, v in items])))
                continue
            cur = None
            run = []
            for k, v in items + [("end", None)]:
                if k == "one":
                    run.append(self.snapshot(s, v))
                    continue
                if run:
                    piece = seq_of_items(run)
                    cur = piece if cur is None else concat(cur, piece)
                    run = []
                if k == "seq":
                    cur = v if cur is None else concat(cur, v)
            out.append((s, VRef(s.alloc(HeapObj("slist", cur), self.refs))))
        return out

    def assign(self, tgt, v, st):
        """a, *rest, z = <sequence of concrete length>"""
        if isinstance(tgt, (ast.Tuple, ast.List)) and sum(isinstance(e, ast.Starred) for e in tgt.elts) == 1:
            items = self.concrete_items(st, v)
            if items is None:
                raise Unsupported(f"{self.loc(tgt)} starred unpacking of a symbolic sequence")
            k = [isinstance(e, ast.Starred) for e in tgt.elts].index(True)
            after = len(tgt.elts) - k - 1
            if len(items) < k + after:
                self.raise_in(st, self.mk_exc("ValueError"))
                return []
            groups = items[:k] + [self.new_list(st, items[k:len(items) - after])] + (items[len(items) - after:] if after else [])
            states = [st]
            for e, item in zip(tgt.elts, groups):
                nxt = []
                for s2 in states:
                    nxt.extend(self.assign(e.value if isinstance(e, ast.Starred) else e, item, s2))
                states = nxt
            return states
        return super().assign(tgt, v, st)

    def e_GeneratorExp(self, n, st):
        r = self._sym_comp(n, st, n.elt)
        if r is not None:
            return r
        return super().e_GeneratorExp(n, st)

    def e_ListComp(self, n, st):
        r = self._sym_comp(n, st, n.elt)
        if r is not None:
            return [(s, VRef(s.alloc(HeapObj("slist", v), self.refs))) for (s, v) in r]
        return super().e_ListComp(n, st)
