"""C03: DocxContent.iterate_units -- when may the unit of a heading section be dropped?

Statement: "heading text counts as covered by the heading path of its section unit".  The iterator closes the running section at
every heading paragraph (nested flush function) and may return NO unit for a section without text / images / tables.  That is
right only when the heading of the closed section lives on in the heading path of the NEXT unit, i.e. when the heading that closes
it is pushed on top of it on the heading stack.  Contract, for the closing of a section whose heading (level CL) is the top of the
stack by a heading of level L:

  (a) every path of the flush function that returns no unit has  path-condition  =>  OUTSIDE  or  (L is not None and CL is not None
      and L > CL), where OUTSIDE = there is no running heading section (heading path empty / its bookkeeping still None);
  (b) the stack update of the heading block keeps the top entry when L > CL:  (stack non-empty and top level == CL and L > CL)
      =>  not <test of the popping loop>;  the push `stack.append((L, text))` and `CL = L` stand in the same block and nothing
      else modifies the stack.

(a) and (b) are VALIDITY queries over the real conditions of the code (translated into integer / boolean terms; sub-expressions
that are not understood become fresh unknowns, which is sound for a proof).  A counter-model is a candidate only: the obligation
is `unknown` and the native section search (replay/C03.py: outlines that skip levels, empty sections) decides.
"""
from __future__ import annotations

import ast
import itertools

import z3

from pyvc import loader
from pyvc.flow import dotted, ground_obligation

EX = "sharepoint2text/parsing/extractors/"
DT = EX + "data_types.py"
Q = "DocxContent.iterate_units"
BASE = f"C03/data_types.py::{Q}/contract#"
IDS = ["empty-section-is-dropped-only-when-the-closing-heading-is-deeper-than-its-own",
       "a-deeper-heading-is-pushed-on-top-of-the-heading-it-follows"]


class Unknown(Exception):
    pass


class Tr:
    """expressions of the flush function -> z3 (ints, booleans, optional ints)"""

    def __init__(self):
        self.n = itertools.count()
        self.version = {}
        self.facts = []
        self.abstracted = []
        self.cache = {}

    def v(self, name):
        return f"{name}#{self.version.get(name, 0)}"

    def havoc(self, name):
        self.version[name] = self.version.get(name, 0) + 1

    def isnone(self, name):
        return z3.Bool(self.v(name) + "!none")

    def ival(self, name):
        return z3.Int(self.v(name) + "!int")

    def length(self, name):
        t = z3.Int(self.v(name) + "!len")
        self.facts.append(t >= 0)
        return t

    def truthy_name(self, name, env):
        if name in env:
            return self.boolean(env[name], env)
        return z3.Bool(self.v(name) + "!truthy")

    def fresh_bool(self, e):
        """one unknown per expression TEXT (names that were re-bound carry their version), so that two tests of the same value agree"""
        self.abstracted.append(ast.unparse(e)[:50])
        k = ("b", ast.dump(e))
        if k not in self.cache:
            self.cache[k] = z3.Bool(f"abs!{next(self.n)}")
        return self.cache[k]

    def fresh_int(self, e):
        self.abstracted.append(ast.unparse(e)[:50])
        k = ("i", ast.dump(e))
        if k not in self.cache:
            self.cache[k] = z3.Int(f"abs!{next(self.n)}")
        return self.cache[k]

    def integer(self, e, env):
        if isinstance(e, ast.Constant) and isinstance(e.value, int) and not isinstance(e.value, bool):
            return z3.IntVal(e.value)
        if isinstance(e, ast.Name):
            if e.id in env:
                return self.integer(env[e.id], env)
            return self.ival(e.id)
        if isinstance(e, ast.Call) and dotted(e.func) == "len" and len(e.args) == 1 and isinstance(e.args[0], ast.Name) and e.args[0].id not in env:
            return self.length(e.args[0].id)
        if isinstance(e, ast.BinOp) and isinstance(e.op, (ast.Add, ast.Sub)):
            a, b = self.integer(e.left, env), self.integer(e.right, env)
            return a + b if isinstance(e.op, ast.Add) else a - b
        if isinstance(e, ast.Subscript) and self.top_level is not None and ast.unparse(e).replace(" ", "") == self.top_level[0]:
            return self.top_level[1]
        return self.fresh_int(e)

    top_level = None

    def none_test(self, e, env):
        """z3 Bool for `e is None`"""
        if isinstance(e, ast.Constant):
            return z3.BoolVal(e.value is None)
        if isinstance(e, ast.Name):
            if e.id in env:
                return self.none_test(env[e.id], env)
            return self.isnone(e.id)
        return self.fresh_bool(e)

    def boolean(self, e, env):
        if isinstance(e, ast.Constant):
            return z3.BoolVal(bool(e.value))
        if isinstance(e, ast.UnaryOp) and isinstance(e.op, ast.Not):
            return z3.Not(self.boolean(e.operand, env))
        if isinstance(e, ast.BoolOp):
            parts = [self.boolean(x, env) for x in e.values]
            return z3.And(*parts) if isinstance(e.op, ast.And) else z3.Or(*parts)
        if isinstance(e, ast.Compare):
            terms, left = [], e.left
            for op, right in zip(e.ops, e.comparators):
                if isinstance(op, (ast.Is, ast.IsNot)) and isinstance(right, ast.Constant) and right.value is None:
                    t = self.none_test(left, env)
                    terms.append(t if isinstance(op, ast.Is) else z3.Not(t))
                elif isinstance(op, (ast.Lt, ast.LtE, ast.Gt, ast.GtE, ast.Eq, ast.NotEq)):
                    a, b = self.integer(left, env), self.integer(right, env)
                    terms.append({ast.Lt: a < b, ast.LtE: a <= b, ast.Gt: a > b, ast.GtE: a >= b, ast.Eq: a == b, ast.NotEq: a != b}[type(op)])
                else:
                    terms.append(self.fresh_bool(e))
                left = right
            return z3.And(*terms) if len(terms) > 1 else terms[0]
        if isinstance(e, ast.Name):
            if e.id in env:
                return self.boolean(env[e.id], env)
            if e.id in self.opt_ints:
                return z3.And(z3.Not(self.isnone(e.id)), self.ival(e.id) != 0)
            t = z3.Bool(self.v(e.id) + "!truthy")
            return t
        if isinstance(e, (ast.List, ast.Tuple, ast.Set)):
            return z3.BoolVal(bool(e.elts))
        if isinstance(e, ast.Dict):
            return z3.BoolVal(bool(e.keys))
        if isinstance(e, ast.Call) and dotted(e.func) == "bool" and len(e.args) == 1:
            return self.boolean(e.args[0], env)
        if isinstance(e, ast.Call) and dotted(e.func) == "len" and len(e.args) == 1:
            return self.integer(e, env) > 0
        return self.fresh_bool(e)

    opt_ints = frozenset()


def _empty_seq(v):
    if v is None:
        return True
    while isinstance(v, ast.Call) and dotted(v.func) in ("iter", "list", "tuple") and len(v.args) <= 1:
        if not v.args:
            return True
        v = v.args[0]
    return isinstance(v, (ast.List, ast.Tuple)) and not v.elts


_MUT = {"append", "extend", "add", "update", "insert", "pop", "remove", "clear", "setdefault"}


def _paths(tr, stmts, env, pc, out):
    """symbolic paths through a statement list; out collects (pc, 'empty'|'unit') at returns.  -> list of (env, pc) falling through"""
    live = [(dict(env), list(pc))]
    for s in stmts:
        nxt = []
        for env, pc in live:
            if isinstance(s, (ast.Nonlocal, ast.Global, ast.Pass)) or (isinstance(s, ast.Expr) and isinstance(s.value, ast.Constant)):
                nxt.append((env, pc))
            elif isinstance(s, (ast.Assign, ast.AnnAssign)) and getattr(s, "value", None) is not None:
                tg = s.targets if isinstance(s, ast.Assign) else [s.target]
                if len(tg) == 1 and isinstance(tg[0], ast.Name):
                    env = dict(env)
                    # substitute the current environment into the value so that later re-bindings of its names do not change it
                    env[tg[0].id] = _subst(s.value, env)
                    nxt.append((env, pc))
                else:
                    raise Unknown(f"assignment target {ast.unparse(tg[0])[:40]}")
            elif isinstance(s, ast.AnnAssign):
                nxt.append((env, pc))
            elif isinstance(s, ast.AugAssign) and isinstance(s.target, ast.Name):
                env = dict(env)
                env.pop(s.target.id, None)
                tr.havoc(s.target.id)
                nxt.append((env, pc))
            elif isinstance(s, ast.If):
                c = tr.boolean(s.test, env)
                a = _paths(tr, s.body, env, pc + [c], out)
                b = _paths(tr, s.orelse, env, pc + [z3.Not(c)], out)
                nxt += a + b
            elif isinstance(s, (ast.For, ast.While)):
                env = dict(env)
                for n in ast.walk(s):
                    if isinstance(n, ast.Return) or isinstance(n, (ast.Yield, ast.YieldFrom)):
                        raise Unknown("return / yield inside a loop of the flush function")
                    nm = None
                    if isinstance(n, ast.Call) and isinstance(n.func, ast.Attribute) and isinstance(n.func.value, ast.Name) and n.func.attr in _MUT:
                        nm = n.func.value.id
                    elif isinstance(n, ast.Name) and isinstance(n.ctx, ast.Store):
                        nm = n.id
                    if nm:
                        tr.havoc(nm)
                        env[nm] = ast.Name(id=f"{nm}@{tr.version[nm]}", ctx=ast.Load())
                nxt.append((env, pc))
            elif isinstance(s, ast.Return):
                out.append((pc, "empty" if _empty_seq(s.value) else "unit"))
            elif isinstance(s, ast.Expr) and isinstance(s.value, (ast.Yield, ast.YieldFrom)):
                out.append((pc, "unit"))
                nxt.append((env, pc))
            elif isinstance(s, ast.Expr) and isinstance(s.value, ast.Call):
                f = s.value.func
                if isinstance(f, ast.Attribute) and isinstance(f.value, ast.Name) and f.attr in _MUT:
                    env = dict(env)
                    tr.havoc(f.value.id)
                    env[f.value.id] = ast.Name(id=f"{f.value.id}@{tr.version[f.value.id]}", ctx=ast.Load())
                nxt.append((env, pc))
            elif isinstance(s, ast.Raise):
                pass
            else:
                raise Unknown(f"statement {type(s).__name__} at line {s.lineno}")
        live = nxt
    return live


class _Sub(ast.NodeTransformer):
    def __init__(self, env):
        self.env = env

    def visit_Name(self, n):
        if isinstance(n.ctx, ast.Load) and n.id in self.env:
            return self.env[n.id]
        return n


def _subst(e, env):
    import copy
    return _Sub(env).visit(copy.deepcopy(e)) if env else e


def _valid(hyps, goal):
    s = z3.Solver()
    s.set("rlimit", 20000000)        # a resource limit, not a time limit: the answer does not depend on machine load
    s.add(*hyps)
    s.add(z3.Not(goal))
    r = s.check()
    if r == z3.unsat:
        return True, ""
    if r == z3.sat:
        mdl = s.model()
        return False, ", ".join(f"{d.name()}={mdl[d]}" for d in sorted(mdl.decls(), key=lambda d: d.name()) if not d.name().startswith("abs!"))[:300]
    return None, "solver gave no answer"


def obligations(repo, tier):
    def result(verdicts, fn_info=None):
        obls = []
        for oid, (v, detail, loc) in zip(IDS, verdicts):
            if v is True:
                obls.append(ground_obligation(BASE + oid, True, detail, loc, kind="contract", backend="z3"))
            else:
                obls.append(ground_obligation(BASE + oid, False, ("suspicious: " if v is False else "") + (detail or "shape not recognised"), loc,
                                              kind="contract", backend="z3", definite=False))
        return {"obligations": obls, "functions": [fn_info] if fn_info else []}

    def unknown_all(why):
        return result([(None, why, DT)] * len(IDS))
    try:
        m = loader.module(DT, repo)
        fn = m.functions.get(Q)
        if fn is None:
            return unknown_all("contract-target-missing")
        nested = [n for n in fn.body if isinstance(n, ast.FunctionDef)]
        flushes = [nf for nf in nested if any(isinstance(n, ast.Call) and dotted(n.func) == "DocxUnit" and any(k.arg == "unit_number" for k in n.keywords)
                                              for n in ast.walk(nf))]
        if len(flushes) != 1:
            return unknown_all(f"{len(flushes)} nested functions build numbered units")
        flush = flushes[0]
        # the heading block: the statement list that pushes a (level, text) pair on a stack and closes the running section
        block = None
        for n in ast.walk(fn):
            for f in ("body", "orelse"):
                stmts = getattr(n, f, None)
                if not isinstance(stmts, list) or n is fn or any(n is x for x in ast.walk(flush)):
                    continue
                pushes = [c for s in stmts for c in ast.walk(s) if isinstance(c, ast.Call) and isinstance(c.func, ast.Attribute) and c.func.attr == "append"
                          and isinstance(c.func.value, ast.Name) and len(c.args) == 1 and isinstance(c.args[0], ast.Tuple) and len(c.args[0].elts) == 2
                          and isinstance(c.args[0].elts[0], ast.Name)]
                closes = [c for s in stmts for c in ast.walk(s) if isinstance(c, ast.Call) and dotted(c.func) == flush.name]
                size = sum(1 for s in stmts for _x in ast.walk(s))
                if pushes and closes and (block is None or size < block[3]):      # the innermost such statement list
                    block = (stmts, pushes, closes, size)
        if block is None or len(block[1]) != 1 or len(block[2]) != 1:
            return unknown_all("heading block (push on the heading stack + closing flush) not recognised")
        stmts, (push,), (close,), _size = block
        stack, lvl = push.func.value.id, push.args[0].elts[0].id
        params = [a.arg for a in flush.args.posonlyargs + flush.args.args + flush.args.kwonlyargs]
        lp = [k.arg for k in close.keywords if isinstance(k.value, ast.Name) and k.value.id == lvl and k.arg in params]
        lp += [params[i] for i, a in enumerate(close.args) if isinstance(a, ast.Name) and a.id == lvl and i < len(params)]
        if len(lp) != 1:
            return unknown_all(f"the closing flush call does not receive the new heading's level `{lvl}` in exactly one parameter")
        lp = lp[0]
        assigned = {}
        for s in stmts:
            if isinstance(s, (ast.Assign, ast.AnnAssign)) and getattr(s, "value", None) is not None:
                for t in (s.targets if isinstance(s, ast.Assign) else [s.target]):
                    if isinstance(t, ast.Name):
                        assigned[t.id] = s.value
        cl = [n for n, v in assigned.items() if isinstance(v, ast.Name) and v.id == lvl]
        if len(cl) != 1:
            return unknown_all(f"the level of the running section is not kept in exactly one variable ({cl})")
        cl = cl[0]
        paths_ = [n for n, v in assigned.items() if stack in {x.id for x in ast.walk(v) if isinstance(x, ast.Name)}]
        may_be_none = [n for n, v in assigned.items() if n != lvl and not (isinstance(v, ast.Constant) and v.value is None)]

        # ---- (a)
        tr = Tr()
        tr.opt_ints = frozenset({lp, cl})
        out = []
        try:
            _paths(tr, flush.body, {}, [], out)
        except Unknown as e:
            va = (None, f"flush function not followed: {e}", f"{DT}:{flush.lineno}")
        else:
            L, CL = tr.ival(lp), tr.ival(cl)
            tr0 = Tr()
            outside = [z3.Not(z3.Bool(f"{p}#0!truthy")) for p in paths_] + [z3.Bool(f"{n}#0!none") for n in may_be_none if n != cl] + [z3.Bool(f"{cl}#0!none")]
            # a list is truthy iff its length is positive
            links = []
            for p in paths_:
                links.append(z3.Bool(f"{p}#0!truthy") == (z3.Int(f"{p}#0!len") > 0))
            deeper = z3.And(z3.Not(z3.Bool(f"{lp}#0!none")), z3.Not(z3.Bool(f"{cl}#0!none")), L > CL)
            empties = [pc for pc, kind in out if kind == "empty"]
            units = [pc for pc, kind in out if kind == "unit"]
            if not units:
                va = (None, "no path of the flush function returns a unit", f"{DT}:{flush.lineno}")
            else:
                va = (True, f"{len(empties)} path(s) without a unit, each only outside a heading section or when `{lp}` > `{cl}`"
                      + (f" (unknowns: {sorted(set(tr.abstracted))[:4]})" if tr.abstracted else ""), f"{DT}:{flush.lineno}")
                for pc in empties:
                    ok, mdl = _valid(tr.facts + links + pc, z3.Or(*outside, deeper))
                    if ok is not True:
                        va = (False if ok is False else None,
                              f"a section can be dropped although the closing heading is not deeper than its own heading (`{lp}` > `{cl}` does not follow "
                              f"from the path condition); candidate: {mdl}", f"{DT}:{flush.lineno}")
                        break

        # ---- (b)
        whiles = [s for s in stmts if isinstance(s, ast.While) and any(isinstance(c, ast.Call) and isinstance(c.func, ast.Attribute) and c.func.attr == "pop"
                                                                        and dotted(c.func.value) == stack for c in ast.walk(s))]
        muts = [c for c in ast.walk(fn) if isinstance(c, ast.Call) and isinstance(c.func, ast.Attribute) and dotted(c.func.value) == stack and c.func.attr in _MUT | {"sort", "reverse"}]
        stores = [n for n in ast.walk(fn) if isinstance(n, ast.Name) and n.id == stack and isinstance(n.ctx, ast.Store)]
        idx = {id(s): i for i, s in enumerate(stmts)}
        push_stmt = next((s for s in stmts if any(c is push for c in ast.walk(s))), None)
        only_pop = lambda w: len(w.body) == 1 and isinstance(w.body[0], ast.Expr) and isinstance(w.body[0].value, ast.Call) \
            and isinstance(w.body[0].value.func, ast.Attribute) and w.body[0].value.func.attr == "pop" and not w.body[0].value.args and not w.orelse
        if len(whiles) != 1 or len(muts) != 2 or len(stores) != 1 or push_stmt is None or id(push_stmt) not in idx or idx[id(whiles[0])] > idx[id(push_stmt)] \
                or not only_pop(whiles[0]):
            vb = (None, f"stack discipline not recognised: {len(whiles)} popping loop(s), {len(muts)} modification(s) of `{stack}`", f"{DT}:{fn.lineno}")
        else:
            tb = Tr()
            tb.opt_ints = frozenset()
            top = z3.Int("top!level")
            tb.top_level = (f"{stack}[-1][0]", top)
            test = tb.boolean(whiles[0].test, {})
            Lb = tb.ival(lvl)
            hyp = [z3.Bool(f"{stack}#0!truthy"), Lb > top] + tb.facts
            ok, mdl = _valid(hyp, z3.Not(test))
            if ok is True:
                vb = (True, f"`{ast.unparse(whiles[0].test)}` is false when `{lvl}` is greater than the level on top of `{stack}`; the push and `{cl} = {lvl}` "
                            "stand in the same block", f"{DT}:{whiles[0].lineno}")
            else:
                vb = (False if ok is False else None, f"the popping loop may remove the heading a deeper heading follows; candidate: {mdl}", f"{DT}:{whiles[0].lineno}")
        return result([va, vb], dict(m.fn_info(Q), obligations=2))
    except Exception as e:  # noqa -- never let an exception escape
        return unknown_all(f"analysis failed: {type(e).__name__}: {e}"[:200])
