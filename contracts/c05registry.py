"""C05: the dataclass registry re-derived from the AST of data_types.py (every run), hint classification,
and the kind-flow check of the ODS cell value.  No z3 here except for evaluating COV on hint terms."""
import ast

from pyvc import loader

DT_PY = "sharepoint2text/parsing/extractors/data_types.py"
PRIMS = {"str": 1, "int": 2, "float": 3, "bool": 4}
MARKERS = ("_type", "_bytes", "_bytesio")


def _dotted(e):
    parts = []
    while isinstance(e, ast.Attribute):
        parts.append(e.attr)
        e = e.value
    if isinstance(e, ast.Name):
        parts.append(e.id)
        return ".".join(reversed(parts))
    return None


def classify(ann, classes):
    """Annotation AST -> hint shape (nested tuples):
    ('any',) ('prim', k) ('bytes',) ('bytearray',) ('bytesio',) ('opt', X) ('u604', X) ('list', X) ('listbare',)
    ('dict', K, V) ('dictbare',) ('cls', name) ('classvar',) ('other', text)."""
    if isinstance(ann, ast.Constant) and isinstance(ann.value, str):
        try:
            return classify(ast.parse(ann.value, mode="eval").body, classes)
        except SyntaxError:
            return ("other", ann.value)
    if isinstance(ann, ast.Constant) and ann.value is None:
        return ("none",)
    d = _dotted(ann)
    if d is not None:
        short = d.split(".")[-1]
        if d in ("typing.Any", "Any"):
            return ("any",)
        if d in PRIMS:
            return ("prim", PRIMS[d])
        if d == "bytes":
            return ("bytes",)
        if d == "bytearray":
            return ("bytearray",)
        if d in ("io.BytesIO", "BytesIO"):
            return ("bytesio",)
        if d in ("typing.List", "List"):
            return ("listbare",)
        if d in ("typing.Dict", "Dict"):
            return ("dictbare",)
        if d in ("list", "dict", "tuple", "set", "object") or d in classes:
            return ("cls", short)
        return ("other", d)
    if isinstance(ann, ast.Subscript):
        base = _dotted(ann.value)
        args = list(ann.slice.elts) if isinstance(ann.slice, ast.Tuple) else [ann.slice]
        if base in ("typing.List", "List", "list") and len(args) == 1:
            return ("list", classify(args[0], classes))
        if base in ("typing.Dict", "Dict", "dict") and len(args) == 2:
            return ("dict", classify(args[0], classes), classify(args[1], classes))
        if base in ("typing.Optional", "Optional") and len(args) == 1:
            return ("opt", classify(args[0], classes))
        if base in ("typing.Union", "Union") and len(args) == 2:
            ks = [classify(a, classes) for a in args]
            if ks[1] == ("none",) and ks[0] != ("none",):
                return ("opt", ks[0])
            if ks[0] == ("none",) and ks[1] != ("none",):
                return ("opt", ks[1])
        if base in ("typing.ClassVar", "ClassVar"):
            return ("classvar",)
        return ("other", ast.unparse(ann))
    if isinstance(ann, ast.BinOp) and isinstance(ann.op, ast.BitOr):
        l, r = classify(ann.left, classes), classify(ann.right, classes)
        if r == ("none",) and l != ("none",):
            return ("u604", l)
        if l == ("none",) and r != ("none",):
            return ("u604", r)
        return ("other", ast.unparse(ann))
    return ("other", ast.unparse(ann))


def is_dataclass_decorated(cnode):
    for d in cnode.decorator_list:
        t = d.func if isinstance(d, ast.Call) else d
        if _dotted(t) in ("dataclass", "dataclasses.dataclass"):
            return True
    return False


def derive(repo=None):
    """{'classes': {name: {'fields': [(name, shape, has_default)], 'bases': [...], 'post_init': bool, 'dict_subclass': bool}},
        'all_classes': [...], 'imports': {...}} from the AST."""
    m = loader.module(DT_PY, repo)
    top = {n.name: n for n in m.tree.body if isinstance(n, ast.ClassDef)}
    out = {}

    def own_fields(cn):
        res = []
        for b in cn.body:
            if isinstance(b, ast.AnnAssign) and isinstance(b.target, ast.Name):
                shape = classify(b.annotation, top)
                if shape == ("classvar",):
                    continue
                res.append((b.target.id, shape, b.value is not None))
        return res

    def all_fields(name, seen=()):
        cn = top[name]
        acc = []
        for base in reversed([_dotted(b) for b in cn.bases]):       # dataclass: fields in reverse MRO order, bases first
            pass
        for b in cn.bases:
            bn = _dotted(b)
            if bn in top and is_dataclass_decorated(top[bn]) and bn not in seen:
                for f in all_fields(bn, seen + (name,)):
                    acc = [x for x in acc if x[0] != f[0]] + [f]
        for f in own_fields(cn):
            if any(x[0] == f[0] for x in acc):
                acc = [f if x[0] == f[0] else x for x in acc]     # redefinition keeps the original position
            else:
                acc.append(f)
        return acc

    for name, cn in top.items():
        if not is_dataclass_decorated(cn):
            continue
        bases = [_dotted(b) for b in cn.bases]
        out[name] = {"fields": all_fields(name), "bases": bases,
                     "post_init": any(isinstance(b, ast.FunctionDef) and b.name == "__post_init__" for b in cn.body),
                     "dict_subclass": "dict" in bases, "lineno": cn.lineno}
    return {"classes": out, "all_classes": sorted(top), "imports": dict(m.imports), "module": m}


def shape_text(s):
    if s[0] in ("opt", "u604", "list"):
        return f"{s[0]}[{shape_text(s[1])}]"
    if s[0] == "dict":
        return f"dict[{shape_text(s[1])},{shape_text(s[2])}]"
    if s[0] in ("prim", "cls", "other"):
        return f"{s[0]}:{s[1]}"
    return s[0]


# ------------------------------------------------------------- ODS kind flow --
JSON_KINDS = {"str", "int", "float", "bool", "none"}


def expr_kinds(e, env):
    if isinstance(e, ast.Constant):
        v = e.value
        return {"none" if v is None else "bool" if isinstance(v, bool) else "int" if isinstance(v, int) else "float" if isinstance(v, float)
                else "str" if isinstance(v, str) else "unknown"}
    if isinstance(e, ast.Name):
        return set(env.get(e.id, {"unknown"}))
    if isinstance(e, ast.JoinedStr):
        return {"str"}
    if isinstance(e, ast.Compare) or (isinstance(e, ast.UnaryOp) and isinstance(e.op, ast.Not)):
        return {"bool"}
    if isinstance(e, ast.Call):
        f = e.func
        if isinstance(f, ast.Name) and f.id in ("int", "float", "str", "bool"):
            return {f.id}
        if isinstance(f, ast.Attribute):
            if f.attr == "join" and isinstance(f.value, ast.Constant) and isinstance(f.value.value, str):
                return {"str"}
            if f.attr in ("lower", "upper", "strip") and expr_kinds(f.value, env) == {"str"}:
                return {"str"}
            if f.attr == "get" and expr_kinds(f.value, env) == {"xml-element"} and len(e.args) == 2 and expr_kinds(e.args[1], env) == {"str"}:
                return {"str"}       # ASSUMED: Element.get(name, default) returns an attribute value (str) or the default
        return {"unknown"}
    if isinstance(e, ast.IfExp):
        return expr_kinds(e.body, env) | expr_kinds(e.orelse, env)
    return {"unknown"}


def first_component_kinds(fnode, param_kinds):
    """Flow-insensitive kinds of the first component of every returned tuple."""
    env = {k: set(v) for k, v in param_kinds.items()}
    for _ in range(3):
        for n in ast.walk(fnode):
            if isinstance(n, ast.Assign) and len(n.targets) == 1 and isinstance(n.targets[0], ast.Name):
                env.setdefault(n.targets[0].id, set()).update(expr_kinds(n.value, env))
            elif isinstance(n, ast.AnnAssign) and isinstance(n.target, ast.Name) and n.value is not None:
                env.setdefault(n.target.id, set()).update(expr_kinds(n.value, env))
    # names assigned in one round may be read before assignment in walk order: recompute with the final env
    for _ in range(2):
        for n in ast.walk(fnode):
            if isinstance(n, ast.Assign) and len(n.targets) == 1 and isinstance(n.targets[0], ast.Name):
                ks = expr_kinds(n.value, env)
                env[n.targets[0].id] = (env[n.targets[0].id] - {"unknown"}) | ks if "unknown" not in ks else env[n.targets[0].id] | ks
    rets = []
    for n in ast.walk(fnode):
        if isinstance(n, ast.Return):
            if isinstance(n.value, ast.Tuple) and n.value.elts:
                rets.append((n.lineno, expr_kinds(n.value.elts[0], env)))
            else:
                rets.append((n.lineno, {"unknown"}))
    return rets
