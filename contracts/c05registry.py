"""C05: the dataclass registry re-derived from the AST of data_types.py (every run), hint classification,
and the kind-flow check of the ODS cell value.  No z3 here except for evaluating COV on hint terms."""
import ast

from pyvc import loader

DT_PY = "sharepoint2text/parsing/extractors/data_types.py"
PRIMS = {"str": 1, "int": 2, "float": 3, "bool": 4}
MARKERS = ("_type", "_bytes", "_bytesio")


def _dotted(e):
    parts = []
    while isinstance(e, ast.Attribute):
        parts.append(e.attr)
        e = e.value
    if isinstance(e, ast.Name):
        parts.append(e.id)
        return ".".join(reversed(parts))
    return None


IMPORT_ALIASES = {}     # local name -> dotted origin, filled by derive() from the module's imports (import typing as t, from typing import Optional as Opt)


def _resolve(d):
    if d is None:
        return None
    head, _, rest = d.partition(".")
    origin = IMPORT_ALIASES.get(head)
    if origin and origin != head:
        return origin + ("." + rest if rest else "")
    return d


def classify(ann, classes):
    """Annotation AST -> hint shape (nested tuples):
    ('any',) ('prim', k) ('bytes',) ('bytearray',) ('bytesio',) ('opt', X) ('u604', X) ('list', X) ('listbare',)
    ('dict', K, V) ('dictbare',) ('cls', name) ('classvar',) ('other', text)."""
    if isinstance(ann, ast.Constant) and isinstance(ann.value, str):
        try:
            return classify(ast.parse(ann.value, mode="eval").body, classes)
        except SyntaxError:
            return ("other", ann.value)
    if isinstance(ann, ast.Constant) and ann.value is None:
        return ("none",)
    d = _resolve(_dotted(ann))
    if d is not None:
        short = d.split(".")[-1]
        if d in ("typing.Any", "Any"):
            return ("any",)
        if d in PRIMS:
            return ("prim", PRIMS[d])
        if d == "bytes":
            return ("bytes",)
        if d == "bytearray":
            return ("bytearray",)
        if d in ("io.BytesIO", "BytesIO"):
            return ("bytesio",)
        if d in ("typing.List", "List"):
            return ("listbare",)
        if d in ("typing.Dict", "Dict"):
            return ("dictbare",)
        if d in ("list", "dict", "tuple", "set", "object") or d in classes:
            return ("cls", short)
        return ("other", d)
    if isinstance(ann, ast.Subscript):
        base = _resolve(_dotted(ann.value))
        args = list(ann.slice.elts) if isinstance(ann.slice, ast.Tuple) else [ann.slice]
        if base in ("typing.List", "List", "list") and len(args) == 1:
            return ("list", classify(args[0], classes))
        if base in ("typing.Dict", "Dict", "dict") and len(args) == 2:
            return ("dict", classify(args[0], classes), classify(args[1], classes))
        if base in ("typing.Optional", "Optional") and len(args) == 1:
            return ("opt", classify(args[0], classes))
        if base in ("typing.Union", "Union") and len(args) == 2:
            ks = [classify(a, classes) for a in args]
            if ks[1] == ("none",) and ks[0] != ("none",):
                return ("opt", ks[0])
            if ks[0] == ("none",) and ks[1] != ("none",):
                return ("opt", ks[1])
        if base in ("typing.ClassVar", "ClassVar"):
            return ("classvar",)
        return ("other", ast.unparse(ann))
    if isinstance(ann, ast.BinOp) and isinstance(ann.op, ast.BitOr):
        l, r = classify(ann.left, classes), classify(ann.right, classes)
        if r == ("none",) and l != ("none",):
            return ("u604", l)
        if l == ("none",) and r != ("none",):
            return ("u604", r)
        return ("other", ast.unparse(ann))
    return ("other", ast.unparse(ann))


def is_dataclass_decorated(cnode):
    for d in cnode.decorator_list:
        t = d.func if isinstance(d, ast.Call) else d
        if _dotted(t) in ("dataclass", "dataclasses.dataclass"):
            return True
    return False


def derive(repo=None):
    """{'classes': {name: {'fields': [(name, shape, has_default)], 'bases': [...], 'post_init': bool, 'dict_subclass': bool}},
        'all_classes': [...], 'imports': {...}} from the AST."""
    m = loader.module(DT_PY, repo)
    IMPORT_ALIASES.clear()
    for node in m.tree.body:
        if isinstance(node, ast.Import):
            for a in node.names:
                IMPORT_ALIASES[a.asname or a.name.split(".")[0]] = a.name if a.asname else a.name.split(".")[0]
        elif isinstance(node, ast.ImportFrom) and node.module in ("typing", "io", "dataclasses"):
            for a in node.names:
                IMPORT_ALIASES[a.asname or a.name] = f"{node.module}.{a.name}"
    top = {n.name: n for n in m.tree.body if isinstance(n, ast.ClassDef)}
    out = {}

    def own_fields(cn):
        res = []
        for b in cn.body:
            if isinstance(b, ast.AnnAssign) and isinstance(b.target, ast.Name):
                shape = classify(b.annotation, top)
                if shape == ("classvar",):
                    continue
                res.append((b.target.id, shape, b.value is not None))
        return res

    def all_fields(name, seen=()):
        cn = top[name]
        acc = []
        for base in reversed([_dotted(b) for b in cn.bases]):       # dataclass: fields in reverse MRO order, bases first
            pass
        for b in cn.bases:
            bn = _dotted(b)
            if bn in top and is_dataclass_decorated(top[bn]) and bn not in seen:
                for f in all_fields(bn, seen + (name,)):
                    acc = [x for x in acc if x[0] != f[0]] + [f]
        for f in own_fields(cn):
            if any(x[0] == f[0] for x in acc):
                acc = [f if x[0] == f[0] else x for x in acc]     # redefinition keeps the original position
            else:
                acc.append(f)
        return acc

    for name, cn in top.items():
        if not is_dataclass_decorated(cn):
            continue
        bases = [_dotted(b) for b in cn.bases]
        out[name] = {"fields": all_fields(name), "bases": bases,
                     "post_init": any(isinstance(b, ast.FunctionDef) and b.name == "__post_init__" for b in cn.body),
                     "dict_subclass": "dict" in bases, "lineno": cn.lineno}
    return {"classes": out, "all_classes": sorted(top), "imports": dict(m.imports), "module": m}


def shape_text(s):
    if s[0] in ("opt", "u604", "list"):
        return f"{s[0]}[{shape_text(s[1])}]"
    if s[0] == "dict":
        return f"dict[{shape_text(s[1])},{shape_text(s[2])}]"
    if s[0] in ("prim", "cls", "other"):
        return f"{s[0]}:{s[1]}"
    return s[0]


# ------------------------------------------------------------- ODS kind flow --
JSON_KINDS = {"str", "int", "float", "bool", "none"}


def expr_kinds(e, env):
    if isinstance(e, ast.Constant):
        v = e.value
        return {"none" if v is None else "bool" if isinstance(v, bool) else "int" if isinstance(v, int) else "float" if isinstance(v, float)
                else "str" if isinstance(v, str) else "unknown"}
    if isinstance(e, ast.Name):
        return set(env.get(e.id, {"unknown"}))
    if isinstance(e, ast.JoinedStr):
        return {"str"}
    if isinstance(e, ast.Compare) or (isinstance(e, ast.UnaryOp) and isinstance(e.op, ast.Not)):
        return {"bool"}
    if isinstance(e, ast.Call):
        f = e.func
        if isinstance(f, ast.Name) and f.id in ("int", "float", "str", "bool"):
            return {f.id}
        if isinstance(f, ast.Attribute):
            if f.attr == "join" and isinstance(f.value, ast.Constant) and isinstance(f.value.value, str):
                return {"str"}
            if f.attr in ("lower", "upper", "strip") and expr_kinds(f.value, env) == {"str"}:
                return {"str"}
            if f.attr == "get" and expr_kinds(f.value, env) == {"xml-element"} and len(e.args) == 2 and expr_kinds(e.args[1], env) == {"str"}:
                return {"str"}       # ASSUMED: Element.get(name, default) returns an attribute value (str) or the default
        return {"unknown"}
    if isinstance(e, ast.IfExp):
        return expr_kinds(e.body, env) | expr_kinds(e.orelse, env)
    return {"unknown"}


def first_component_kinds(fnode, param_kinds):
    """Flow-insensitive kinds of the first component of every returned tuple."""
    env = {k: set(v) for k, v in param_kinds.items()}
    for _ in range(3):
        for n in ast.walk(fnode):
            if isinstance(n, ast.Assign) and len(n.targets) == 1 and isinstance(n.targets[0], ast.Name):
                env.setdefault(n.targets[0].id, set()).update(expr_kinds(n.value, env))
            elif isinstance(n, ast.AnnAssign) and isinstance(n.target, ast.Name) and n.value is not None:
                env.setdefault(n.target.id, set()).update(expr_kinds(n.value, env))
    # names assigned in one round may be read before assignment in walk order: recompute with the final env
    for _ in range(2):
        for n in ast.walk(fnode):
            if isinstance(n, ast.Assign) and len(n.targets) == 1 and isinstance(n.targets[0], ast.Name):
                ks = expr_kinds(n.value, env)
                env[n.targets[0].id] = (env[n.targets[0].id] - {"unknown"}) | ks if "unknown" not in ks else env[n.targets[0].id] | ks
    rets = []
    for n in ast.walk(fnode):
        if isinstance(n, ast.Return):
            if isinstance(n.value, ast.Tuple) and n.value.elts:
                rets.append((n.lineno, expr_kinds(n.value.elts[0], env)))
            else:
                rets.append((n.lineno, {"unknown"}))
    return rets


# ------------------------------------------------- provenance of stored cell values --
# Abstract shapes: "bot" (nothing yet) | "n" (JSON-able scalar: result of a cell normaliser, a str / number / bool / None built in
# place) | ("list", s) | ("dict", s) | ("tuple", (s1, ...)) | "raw" (anything else).  Flow-insensitive fixpoint over one function
# body: comprehensions, loops (incl. enumerate / zip), appends / extends / item stores, tuple unpacking, slices, repetition.
def kjoin(a, b):
    """Key classes of a mapping: bot < lit (string literals that are not markers) < str (str objects whose text is not chosen by the
    code: document content) < raw (anything else, kind unknown) < marker (a literal marker)."""
    order = {"bot": 0, "lit": 1, "str": 2, "raw": 3, "marker": 4}
    return a if order[a] >= order[b] else b


def mkdict(val, key="raw"):
    return ("dict", val, key)


def sjoin(a, b):
    if a == "bot":
        return b
    if b == "bot" or a == b:
        return a
    if isinstance(a, tuple) and isinstance(b, tuple) and a[0] == b[0]:
        if a[0] == "dict":
            return ("dict", sjoin(a[1], b[1]), kjoin(a[2] if len(a) > 2 else "raw", b[2] if len(b) > 2 else "raw"))
        if a[0] == "list":
            return (a[0], sjoin(a[1], b[1]))
        if a[0] == "tuple" and len(a[1]) == len(b[1]):
            return ("tuple", tuple(sjoin(x, y) for x, y in zip(a[1], b[1])))
    return "raw"


def selem(s):
    if s == "bot":
        return "bot"
    if isinstance(s, tuple) and s[0] in ("list", "dict"):
        return s[1]
    if isinstance(s, tuple) and s[0] == "tuple":
        out = "bot"
        for x in s[1]:
            out = sjoin(out, x)
        return out
    return "raw"


def sok(s):
    if s in ("bot", "n"):
        return True
    if s == "raw":
        return False
    if s[0] == "tuple":
        return all(sok(x) for x in s[1])
    return sok(s[1])


def stext(s):
    if isinstance(s, str):
        return s
    if s[0] == "tuple":
        return "(" + ", ".join(stext(x) for x in s[1]) + ")"
    return f"{s[0]}[{stext(s[1])}]"


def key_classes(s):
    """Join of the key classes of every mapping inside a shape."""
    if isinstance(s, str):
        return "bot"
    if s[0] == "tuple":
        out = "bot"
        for x in s[1]:
            out = kjoin(out, key_classes(x))
        return out
    if s[0] == "dict":
        return kjoin(s[2] if len(s) > 2 else "raw", key_classes(s[1]))
    return key_classes(s[1])


def key_class(e, lit_names=()):
    if isinstance(e, ast.Constant) and isinstance(e.value, str):
        return "marker" if e.value in MARKERS else "lit"
    if isinstance(e, ast.Name) and e.id in lit_names:
        return lit_names[e.id]
    return "raw"


class Provenance:
    def __init__(self, fnode, normalisers, attr_env=None, call_shape=None, kinds_of=None):
        self.fn, self.norm = fnode, normalisers          # {callee name: result shape}
        self.kinds_of = kinds_of                         # fn(function node) -> c05kinds.Kinds | None: decides whether a key expression is a str
        self.attr_env = attr_env                         # shared {attribute name: shape} (object-insensitive) or None
        self.call_shape = call_shape                     # fn(name) -> shape | None: return shape of a module-level function
        self.lit_names = {}                              # names bound only to string literals -> their key class
        for n in ast.walk(fnode):
            if isinstance(n, ast.For) and isinstance(n.target, ast.Name) and isinstance(n.iter, (ast.Tuple, ast.List)) \
                    and n.iter.elts and all(isinstance(x, ast.Constant) and isinstance(x.value, str) for x in n.iter.elts):
                kc = "bot"
                for x in n.iter.elts:
                    kc = kjoin(kc, key_class(x))
                self.lit_names[n.target.id] = kc
        self.env = {}
        self.alias = {}          # name -> representative (x = y for containers: stores through either name reach both)
        params = [a.arg for a in fnode.args.posonlyargs + fnode.args.args + fnode.args.kwonlyargs]
        for p in params:
            self.env[p] = "raw"
        for _ in range(6):
            before = dict(self.env)
            self.block(fnode.body)
            if self.env == before:
                break

    def kc(self, e):
        """Key class of a key expression: a literal of the code, else `str` when its kind is shown to be str (c05kinds), else raw."""
        k = key_class(e, self.lit_names)
        if k == "raw" and self.kinds_of is not None:
            try:
                kk = self.kinds_of(self.fn)
                if kk is not None and kk.of(e) == {"str"}:
                    return "str"
            except Exception:  # noqa  (a shape the kind flow does not know: stays raw)
                return "raw"
        return k

    def get(self, name):
        return self.env.get(name, "bot")

    def root(self, name):
        while self.alias.get(name, name) != name:
            name = self.alias[name]
        return name

    def put(self, name, shape):
        r = self.root(name)
        for nm in [n for n in set(self.env) | {name} if self.root(n) == r]:
            self.env[nm] = sjoin(self.get(nm), shape)

    def bind(self, target, shape):
        if isinstance(target, ast.Name):
            self.put(target.id, shape)
        elif isinstance(target, (ast.Tuple, ast.List)):
            if isinstance(shape, tuple) and shape[0] == "tuple" and len(shape[1]) == len(target.elts):
                for t, s_ in zip(target.elts, shape[1]):
                    self.bind(t, s_)
            else:
                for t in target.elts:
                    self.bind(t, selem(shape) if shape != "bot" else "bot")
        elif isinstance(target, ast.Subscript) and isinstance(target.value, ast.Name) and not isinstance(target.slice, ast.Slice):
            cur = self.get(target.value.id)
            if isinstance(cur, tuple) and cur[0] == "list":
                self.put(target.value.id, ("list", shape))
            else:
                self.put(target.value.id, ("dict", shape, self.kc(target.slice)))
        elif isinstance(target, ast.Starred):
            self.bind(target.value, "raw")
        elif isinstance(target, ast.Attribute) and self.attr_env is not None:
            self.attr_env[target.attr] = sjoin(self.attr_env.get(target.attr, "bot"), shape)
        elif isinstance(target, ast.Subscript) and isinstance(target.value, ast.Attribute) and self.attr_env is not None \
                and not isinstance(target.slice, ast.Slice):
            a_ = target.value.attr
            cur = self.attr_env.get(a_, "bot")
            new = ("list", shape) if isinstance(cur, tuple) and cur[0] == "list" else ("dict", shape, self.kc(target.slice))
            self.attr_env[a_] = sjoin(cur, new)
        # attribute stores are sinks, handled by the caller

    def ev(self, e):
        if e is None:
            return "bot"
        if isinstance(e, ast.Constant):
            return "n" if e.value is None or isinstance(e.value, (str, int, float, bool)) else "raw"
        if isinstance(e, ast.JoinedStr):
            return "n"
        if isinstance(e, ast.Name):
            return self.get(e.id) if e.id in self.env else ("n" if e.id in ("True", "False", "None") else "raw")
        if isinstance(e, ast.Attribute) and self.attr_env is not None and e.attr in self.attr_env:
            return self.attr_env[e.attr]
        if isinstance(e, ast.IfExp):
            return sjoin(self.ev(e.body), self.ev(e.orelse))
        if isinstance(e, ast.BoolOp):
            out = "bot"
            for v in e.values:
                out = sjoin(out, self.ev(v))
            return out
        if isinstance(e, (ast.Compare,)) or (isinstance(e, ast.UnaryOp) and isinstance(e.op, ast.Not)):
            return "n"
        if isinstance(e, ast.NamedExpr):
            s_ = self.ev(e.value)
            self.bind(e.target, s_)
            return s_
        if isinstance(e, (ast.List, ast.Set)):
            out = "bot"
            for x in e.elts:
                out = sjoin(out, self.ev(x))
            return ("list", out)
        if isinstance(e, ast.Tuple):
            return ("tuple", tuple(self.ev(x) for x in e.elts))
        if isinstance(e, ast.Dict):
            out, kc = "bot", "bot"
            for k, v in zip(e.keys, e.values):
                if k is not None:
                    out, kc = sjoin(out, self.ev(v)), kjoin(kc, self.kc(k))
                else:
                    sv_ = self.ev(v)
                    out, kc = sjoin(out, selem(sv_)), kjoin(kc, sv_[2] if isinstance(sv_, tuple) and sv_[0] == "dict" and len(sv_) > 2 else "raw")
            return ("dict", out, kc)
        if isinstance(e, (ast.ListComp, ast.GeneratorExp, ast.SetComp, ast.DictComp)):
            for g in e.generators:
                self.bind(g.target, selem(self.ev(g.iter)))
            if isinstance(e, ast.DictComp):
                return ("dict", self.ev(e.value), self.kc(e.key))
            return ("list", self.ev(e.elt))
        if isinstance(e, ast.Subscript):
            base = self.ev(e.value)
            if isinstance(e.slice, ast.Slice):
                return base
            if isinstance(base, tuple) and base[0] == "tuple" and isinstance(e.slice, ast.Constant) and isinstance(e.slice.value, int) \
                    and -len(base[1]) <= e.slice.value < len(base[1]):
                return base[1][e.slice.value]
            return selem(base)
        if isinstance(e, ast.BinOp):
            l, r = self.ev(e.left), self.ev(e.right)
            if isinstance(e.op, ast.Mult):
                return l if isinstance(l, tuple) and l[0] == "list" else (r if isinstance(r, tuple) and r[0] == "list" else ("n" if l == r == "n" else "raw"))
            if isinstance(e.op, ast.Add):
                return sjoin(l, r)
            return "n" if l == r == "n" else "raw"
        if isinstance(e, ast.Call):
            f = e.func
            name = f.id if isinstance(f, ast.Name) else None
            if name in self.norm:
                return self.norm[name]
            if name in ("str", "int", "float", "bool", "len", "repr"):
                return "n"
            if name in ("list", "tuple", "sorted", "reversed", "set") and len(e.args) >= 1:
                return ("list", selem(self.ev(e.args[0])))
            if name == "list" and not e.args and not e.keywords:
                return ("list", "bot")
            if name == "dict" and not e.args:
                out, kc = "bot", "bot"
                for k in e.keywords:
                    if k.arg is None:
                        return ("dict", "raw", "raw")
                    out, kc = sjoin(out, self.ev(k.value)), kjoin(kc, "marker" if k.arg in MARKERS else "lit")
                return ("dict", out, kc)
            if self.call_shape is not None and name is not None and name not in self.norm:
                cs = self.call_shape(name)
                if cs is not None:
                    return cs
            if name == "enumerate" and e.args:
                return ("list", ("tuple", ("n", selem(self.ev(e.args[0])))))
            if name in ("map", "filter") and len(e.args) >= 2 and not e.keywords and name not in self.env:
                if name == "filter":                      # a selection of the elements
                    return ("list", selem(self.ev(e.args[1])))
                g = e.args[0]                             # map(g, xs, ..): the results of g, whatever the elements were
                gn = g.id if isinstance(g, ast.Name) and g.id not in self.env else None
                if gn in self.norm:
                    return ("list", self.norm[gn])
                if gn in ("str", "int", "float", "bool", "len", "repr"):
                    return ("list", "n")
                if gn is not None and self.call_shape is not None:
                    cs = self.call_shape(gn)
                    if cs is not None:
                        return ("list", cs)
                if isinstance(g, ast.Lambda) and len(e.args) == 2 and len(g.args.args) == 1 and not (g.args.posonlyargs or g.args.kwonlyargs or g.args.vararg or g.args.kwarg):
                    self.bind(ast.Name(id=g.args.args[0].arg, ctx=ast.Store()), selem(self.ev(e.args[1])))
                    return ("list", self.ev(g.body))
                return ("list", "raw")
            if name == "zip":
                return ("list", ("tuple", tuple(selem(self.ev(a)) for a in e.args)))
            if name == "dict" and len(e.args) == 1:
                s_ = self.ev(e.args[0])
                el = selem(s_)
                if isinstance(s_, tuple) and s_[0] == "dict":
                    return s_
                if isinstance(el, tuple) and el[0] == "tuple" and len(el[1]) == 2:
                    return ("dict", el[1][1], "raw")
                return "raw"
            if isinstance(f, ast.Attribute):
                base = self.ev(f.value)
                if f.attr in ("copy",):
                    return base
                if f.attr in ("get", "pop", "setdefault") and isinstance(base, tuple) and base[0] in ("dict", "list"):
                    out = base[1]
                    for a in e.args[1:]:
                        out = sjoin(out, self.ev(a))
                    return out
                if f.attr in ("values",) and isinstance(base, tuple) and base[0] == "dict":
                    return ("list", base[1])
                if f.attr == "items" and isinstance(base, tuple) and base[0] == "dict":
                    return ("list", ("tuple", ("n", base[1])))
                if f.attr == "keys" and isinstance(base, tuple) and base[0] == "dict":
                    return ("list", "n")
                if f.attr in ("join", "strip", "lower", "upper", "format", "rstrip", "lstrip", "isoformat") and (base == "n" or isinstance(f.value, ast.Constant)):
                    return "n"
            return "raw"
        return "raw"

    def block(self, stmts):
        for st in stmts:
            self.stmt(st)

    def stmt(self, st):
        if isinstance(st, ast.Assign):
            s_ = self.ev(st.value)
            for t in st.targets:
                if isinstance(t, ast.Name) and isinstance(st.value, ast.Name) and self.root(t.id) != self.root(st.value.id):
                    self.alias[self.root(t.id)] = self.root(st.value.id)
                self.bind(t, s_)
        elif isinstance(st, ast.AnnAssign) and st.value is not None:
            self.bind(st.target, self.ev(st.value))
        elif isinstance(st, ast.AugAssign):
            self.bind(st.target, self.ev(ast.BinOp(left=_load(st.target), op=st.op, right=st.value)))
        elif isinstance(st, ast.Expr):
            e = st.value
            if isinstance(e, ast.Call) and isinstance(e.func, ast.Attribute) and isinstance(e.func.value, ast.Attribute) and self.attr_env is not None \
                    and e.func.attr in ("append", "extend", "insert", "update", "setdefault") and e.args:
                a_ = e.func.value.attr                      # obj.attr.append(x) etc.
                cur = self.attr_env.get(a_, "bot")
                x = self.ev(e.args[-1])
                if e.func.attr in ("append", "insert"):
                    new = ("list", x)
                elif e.func.attr == "extend":
                    new = ("list", selem(x))
                elif e.func.attr == "update":
                    new = x if isinstance(x, tuple) and x[0] == "dict" else ("dict", "raw", "raw")
                else:
                    new = ("dict", x, self.kc(e.args[0]))
                self.attr_env[a_] = sjoin(cur, new)
                return
            if isinstance(e, ast.Call) and isinstance(e.func, ast.Attribute) and isinstance(e.func.value, ast.Name):
                acc, m = e.func.value.id, e.func.attr
                if m == "append" and len(e.args) == 1:
                    self.put(acc, ("list", self.ev(e.args[0])))
                    return
                if m == "insert" and len(e.args) == 2:
                    self.put(acc, ("list", self.ev(e.args[1])))
                    return
                if m == "extend" and len(e.args) == 1:
                    self.put(acc, ("list", selem(self.ev(e.args[0]))))
                    return
                if m == "update" and len(e.args) == 1:
                    u = self.ev(e.args[0])
                    self.put(acc, u if isinstance(u, tuple) and u[0] == "dict" else ("dict", selem(u) if u != "raw" else "raw", "raw"))
                    return
                if m == "setdefault" and len(e.args) == 2:
                    self.put(acc, ("dict", self.ev(e.args[1]), self.kc(e.args[0])))
                    return
                if m in ("pop", "clear", "sort", "reverse", "remove"):
                    return
                if isinstance(self.get(acc), tuple):      # an unknown method of a tracked container may store anything
                    self.put(acc, "raw")
                    return
            self.ev(e)
        elif isinstance(st, (ast.For, ast.AsyncFor)):
            self.bind(st.target, selem(self.ev(st.iter)))
            self.block(st.body)
            self.block(st.orelse)
        elif isinstance(st, ast.While):
            self.ev(st.test)
            self.block(st.body)
            self.block(st.orelse)
        elif isinstance(st, ast.If):
            self.ev(st.test)
            self.block(st.body)
            self.block(st.orelse)
        elif isinstance(st, (ast.With, ast.AsyncWith)):
            for it in st.items:
                if it.optional_vars is not None:
                    self.bind(it.optional_vars, "raw")
            self.block(st.body)
        elif isinstance(st, ast.Try):
            self.block(st.body)
            for h in st.handlers:
                self.block(h.body)
            self.block(st.orelse)
            self.block(st.finalbody)
        elif isinstance(st, ast.Return):
            self.ev(st.value)

    def sinks(self, kind, a=None, b=None):
        """[(lineno, shape)] of what reaches the sink: ('return', None) | ('kwarg', callee, kw) | ('attr', name)."""
        out = []
        for n in ast.walk(self.fn):
            if kind == "return" and isinstance(n, ast.Return) and n.value is not None:
                out.append((n.lineno, self.ev(n.value)))
            elif kind == "kwarg" and isinstance(n, ast.Call) and (getattr(n.func, "id", None) == a or getattr(n.func, "attr", None) == a):
                for k in n.keywords:
                    if k.arg == b:
                        out.append((n.lineno, self.ev(k.value)))
            elif kind == "attr" and isinstance(n, ast.Assign):
                for t in n.targets:
                    if isinstance(t, ast.Attribute) and t.attr == a:
                        out.append((n.lineno, self.ev(n.value)))
        return out


def _load(t):
    import copy
    t2 = copy.deepcopy(t)
    for n in ast.walk(t2):
        if hasattr(n, "ctx"):
            n.ctx = ast.Load()
    return t2


class ModuleFlow:
    """Provenance over a whole module: attributes are tracked by name (object-insensitive), module-level functions by the
    join of what they return (memoised, recursion-guarded).  Used for the key classes of mapping-typed fields."""

    def __init__(self, module, norm=None):
        self.m = module
        self.norm = dict(norm or {})
        self.attr_env = {}
        self._ret, self._busy = {}, set()
        self._kinds, self._mk = {}, None
        fns = [f for q, f in module.functions.items()]
        for _ in range(3):
            before = dict(self.attr_env)
            self.provs = {id(f): Provenance(f, self.norm, self.attr_env, self.ret_shape, self.kinds_of) for f in fns}
            if self.attr_env == before:
                break

    def kinds_of(self, fnode):
        """Kind environment (c05kinds.Kinds) of one function of the module, helper results per call site."""
        from contracts import c05kinds as K
        if id(fnode) not in self._kinds:
            if self._mk is None:
                self._mk = K.ModuleKinds(self.m)
            self._kinds[id(fnode)] = K.Kinds(fnode, None, self._mk.call_kinds, None, self_name="", call_parts=self._mk.call_parts, method_call=self._mk.method_call)
        return self._kinds[id(fnode)]

    def ret_shape(self, name):
        fn = self.m.functions.get(name)
        if fn is None:
            return None
        if name in self._ret:
            return self._ret[name]
        if name in self._busy:
            return "bot"
        self._busy.add(name)
        try:
            pv_ = Provenance(fn, self.norm, self.attr_env, self.ret_shape, self.kinds_of)
            out = "bot"
            for _ln, sh in pv_.sinks("return"):
                out = sjoin(out, sh)
        finally:
            self._busy.discard(name)
        self._ret[name] = out
        return out

    def enclosing(self, node):
        best = None
        for q, f in self.m.functions.items():
            if any(x is node for x in ast.walk(f)) and (best is None or sum(1 for _ in ast.walk(f)) < sum(1 for _ in ast.walk(best))):
                best = f
        return best

    def shape_at(self, expr):
        fn = self.enclosing(expr)
        if fn is None:
            return "raw"
        return Provenance(fn, self.norm, self.attr_env, self.ret_shape, self.kinds_of).ev(expr)


def shape_has_dict(shape):
    if shape[0] == "dict":
        return True
    return any(shape_has_dict(x) for x in shape[1:] if isinstance(x, tuple))


def shape_has_str_keyed_dict(shape):
    """A Dict[str, ...] anywhere in a hint shape."""
    if shape[0] == "dict" and shape[1] == ("prim", PRIMS["str"]):
        return True
    return any(shape_has_str_keyed_dict(x) for x in shape[1:] if isinstance(x, tuple))
