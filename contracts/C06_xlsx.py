"""C06: the guard that neutralises a third-party clock default (openpyxl).

ASSUMED library model (validated natively on a grammar of docProps/core.xml files by replay/C06.py, corpus `c06_core_*.xlsx`):
openpyxl's DocumentProperties takes `created` / `modified` from the children `{http://purl.org/dc/terms/}created|modified` of the
core.xml root and substitutes `datetime.now()` for a missing one -- a nondeterministic value that would reach XlsxMetadata.

`xlsx_extractor._core_dates_present` is verified deductively against the abstract element model of contracts/etree_model.py
(real body; OOXMLZipContext abstracted to "part exists" / "root of part", `read_xml_root` may raise):
    result[0]  ==>  core.xml exists and its root has a child {dcterms}created        (and likewise result[1] / modified)
i.e. the guard never claims a stored date that openpyxl would not find.  The call site (`read_xlsx`) is a dataflow obligation:
each flag is bound from that call and a negative test of it blanks the matching metadata field before the result is built.
"""
import ast

import z3

from pyvc.contracts import FnContract
from pyvc.flow import dotted, ground_obligation
from pyvc.values import NONE, VBool, VExc, VExt, VStr, VTuple, ext_sort
from pyvc.verify import p_unk

XLSX = "sharepoint2text/parsing/extractors/ms_modern/xlsx_extractor.py"
DCTERMS = "{http://purl.org/dc/terms/}"
CORE = "docProps/core.xml"


def contracts(reg):
    from contracts import etree_model as EM
    EM.install(reg)
    S, B = z3.StringSort(), z3.BoolSort()
    EXISTS = z3.Function("zip_part_exists", S, B)
    XROOT = z3.Function("zip_part_root", S, EM.ELEM)
    CTX = ext_sort("ZipCtx")

    def new_ctx(ex, st, args, kwargs, node):
        return [(st, VExt("ZipCtx", z3.Const("zipctx", CTX)))]

    def m_exists(ex, st, obj, args, kwargs, node):
        if not args or not isinstance(args[0], VStr):
            return ex.havoc_call(st, "ZipContext.exists(non-string)", args, node)
        return [(st, VBool(EXISTS(args[0].t)))]

    def m_read_root(ex, st, obj, args, kwargs, node):
        if not args or not isinstance(args[0], VStr):
            return ex.havoc_call(st, "ZipContext.read_xml_root(non-string)", args, node)
        # modelled behaviour (not a havoc): a missing / malformed part raises
        t, c = ex.uni.any_exception()
        s2 = st.fork().assume(c)
        ex.raise_in(s2, VExc(t, {"site": "read_xml_root"}))
        return [(st, EM.elem(XROOT(args[0].t)))]

    def m_close(ex, st, obj, args, kwargs, node):
        return [(st, NONE)]

    from pyvc.values import VDictC, VRef

    def with_local_ns(model):
        """The element model reads namespace maps from module-level constants; a local dict literal {"p": "uri"} is the same thing."""
        def wrapped(ex, st, obj, args, kwargs, node):
            def conv(v):
                if isinstance(v, VRef):
                    o = st.obj(v.ref)
                    if o.kind == "dict" and isinstance(o.data, dict) and all(isinstance(k, str) and isinstance(x, VStr) and x.const() is not None
                                                                             for k, x in o.data.items()):
                        return VDictC(dict(o.data))
                return v
            args = [conv(a) for a in args]
            kwargs = {k: conv(v) for k, v in kwargs.items()}
            return model(ex, st, obj, args, kwargs, node)
        return wrapped
    try:
        for name in ("find", "findall"):
            reg.method_models[("Elem", name)] = with_local_ns(reg.method_models[("Elem", name)])
    except Exception:  # noqa -- value classes changed: keep the plain model
        pass

    reg.ext_models[("new", "OOXMLZipContext")] = new_ctx
    reg.ext_models[("new", "ZipContext")] = new_ctx
    reg.method_models[("ZipCtx", "exists")] = m_exists
    reg.method_models[("ZipCtx", "read_xml_root")] = m_read_root
    reg.method_models[("ZipCtx", "close")] = m_close

    def sound(i, local):
        def clause(c):
            r = c.result
            if not isinstance(r, VTuple) or len(r.items) != 2 or not isinstance(r.items[i], VBool):
                return z3.BoolVal(False)
            core = z3.StringVal(CORE)
            tag = z3.StringVal(DCTERMS + local)
            return z3.Implies(r.items[i].t, z3.And(EXISTS(core), EM.FA_N(XROOT(core), tag) > 0))
        return clause

    return [FnContract(
        target=f"{XLSX}::_core_dates_present", params=[("file_like", p_unk())],
        ensures=[("created-flag-implies-dcterms-created-element", sound(0, "created")),
                 ("modified-flag-implies-dcterms-modified-element", sound(1, "modified"))],
        note="the flags that keep openpyxl's created/modified are only set when core.xml stores the dcterms element openpyxl reads")]


# ------------------------------------------------------------------ call site --
def site_obligations(mods):
    """Every function that takes workbook metadata from openpyxl (`load_workbook` reaches it directly or through helpers of the module)
    and builds a result must blank `created` / `modified` under the negated flags of `_core_dates_present`."""
    m = mods.get(XLSX)
    obls = []
    if m is None:
        return obls
    guard_callers = []
    for q, f in m.functions.items():
        if isinstance(f, ast.Lambda):
            continue
        for n in ast.walk(f):
            if isinstance(n, ast.Assign) and isinstance(n.value, ast.Call) and dotted(n.value.func).split(".")[-1] == "_core_dates_present":
                guard_callers.append((q, f, n))
    uses_openpyxl = any("load_workbook" in dotted(n.func) for n in ast.walk(m.tree) if isinstance(n, ast.Call))
    if not uses_openpyxl:
        return obls
    if not guard_callers:
        o = ground_obligation("C06/xlsx_extractor.py/nondet#openpyxl-clock-defaults-guarded", False,
                              "openpyxl metadata is used but no call of _core_dates_present guards created / modified", XLSX, definite=False)
        o["replay_hint"] = {"kind": "nondet", "file": XLSX, "function": "read_xlsx"}
        o["volatile"] = True
        return [o]
    for q, f, asg in guard_callers:
        tgt = asg.targets[0]
        flags = [e.id if isinstance(e, ast.Name) else None for e in tgt.elts] if isinstance(tgt, ast.Tuple) and len(tgt.elts) == 2 else [None, None]
        for i, field in enumerate(("created", "modified")):
            ok, why = False, "flag not bound to a name"
            flag = flags[i]
            if flag:
                why = f"no `if not {flag}: <metadata>.{field} = ''` found"
                for n in ast.walk(f):
                    # <metadata>.field = <kept> if flag else ""   /   = "" if not flag else <kept>
                    if isinstance(n, ast.Assign) and len(n.targets) == 1 and isinstance(n.targets[0], ast.Attribute) and n.targets[0].attr == field \
                            and isinstance(n.value, ast.IfExp):
                        t, a_, b_ = n.value.test, n.value.body, n.value.orelse
                        blank = lambda e: isinstance(e, ast.Constant) and e.value in ("", None)
                        if (isinstance(t, ast.Name) and t.id == flag and blank(b_)) or \
                                (isinstance(t, ast.UnaryOp) and isinstance(t.op, ast.Not) and isinstance(t.operand, ast.Name) and t.operand.id == flag and blank(a_)):
                            ok, why = True, f"line {n.lineno}: {ast.unparse(n)[:70]}"
                    if not isinstance(n, ast.If):
                        continue
                    t = n.test
                    neg = isinstance(t, ast.UnaryOp) and isinstance(t.op, ast.Not) and isinstance(t.operand, ast.Name) and t.operand.id == flag
                    pos = isinstance(t, ast.Name) and t.id == flag
                    body = n.body if neg else (n.orelse if pos else [])
                    for b in body:
                        if isinstance(b, ast.Assign) and len(b.targets) == 1 and isinstance(b.targets[0], ast.Attribute) and b.targets[0].attr == field \
                                and isinstance(b.value, ast.Constant) and b.value.value in ("", None):
                            ok, why = True, f"line {b.lineno}: {ast.unparse(b)} under `not {flag}`"
            o = ground_obligation(f"C06/xlsx_extractor.py::{q}/nondet#openpyxl-default-{field}-blanked-when-not-stored", ok,
                                  f"{XLSX}:{asg.lineno} {why}", XLSX, definite=False)
            o["replay_hint"] = {"kind": "nondet", "file": XLSX, "function": q}
            o["volatile"] = True
            obls.append(o)
    return obls
