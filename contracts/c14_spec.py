"""C14 spec functions (written from the property statement and the format specifications, never from the code).

* image formats over a symbolic byte string (D : Int -> BV8, N): PNG IHDR, GIF logical screen descriptor,
  BMP info header, JPEG marker chain (ITU T.81 B.1.1: markers may be preceded by fill bytes 0xFF; the
  frame header SOFn carries Lf, P, Y, X);
* OPC / EPUB reference resolution RESOLVE(base_dir, target) as a fold over the "/"-segments.
"""
import z3

from contracts.c14_exec import SEGS, JOINS, SS, S, I, BV8, byte_int, uint_of, sint_of

# ------------------------------------------------------------------------ byte helpers --


class Data:
    """Accessors over (D, N)."""

    def __init__(self, D, N):
        self.D, self.N = D, N

    def b(self, o):
        """byte o as an Int in 0..255"""
        return byte_int(self.D, z3.simplify(o) if z3.is_expr(o) else z3.IntVal(o))

    def u(self, o, n, order="big"):
        o = o if z3.is_expr(o) else z3.IntVal(o)
        return uint_of([self.b(o + k) for k in range(n)], order)

    def s(self, o, n, order="big"):
        o = o if z3.is_expr(o) else z3.IntVal(o)
        return sint_of([self.b(o + k) for k in range(n)], order)

    def starts(self, const: bytes, at=0):
        return z3.And([self.N >= at + len(const)] + [self.b(at + k) == c for k, c in enumerate(const)])


PNG_SIG = b"\x89PNG\r\n\x1a\n"
SOF_MARKERS = (0xC0, 0xC1, 0xC2, 0xC3, 0xC5, 0xC6, 0xC7, 0xC9, 0xCA, 0xCB, 0xCD, 0xCE, 0xCF)   # SOF0..SOF15 without DHT(C4), JPG(C8), DAC(CC)


def png_declares(d: Data):
    """PNG: 8-byte signature, then the IHDR chunk (length, 'IHDR', width, height big-endian at 16 / 20)."""
    return z3.And(d.starts(PNG_SIG), d.N >= 24, d.starts(b"IHDR", 12))


def png_size(d: Data):
    return d.u(16, 4), d.u(20, 4)


def gif_declares(d: Data):
    """GIF: 'GIF87a' / 'GIF89a', then the logical screen width / height little-endian at 6 / 8."""
    return z3.And(z3.Or(d.starts(b"GIF87a"), d.starts(b"GIF89a")), d.N >= 10)


def gif_size(d: Data):
    return d.u(6, 2, "little"), d.u(8, 2, "little")


def bmp_declares(d: Data):
    """BMP: 'BM', info header with signed little-endian width / height at 18 / 22 (negative height = top-down)."""
    return z3.And(d.starts(b"BM"), d.N >= 26)


def bmp_size(d: Data):
    w, h = d.s(18, 4, "little"), d.s(22, 4, "little")
    return w, h


def zabs(t):
    return z3.If(t < 0, -t, t)


def known_signature(d: Data):
    return z3.Or(d.starts(PNG_SIG), d.starts(b"GIF87a"), d.starts(b"GIF89a"), d.starts(b"BM"), d.starts(b"\xff\xd8"))


# JPEG marker chain --------------------------------------------------------------------
DIMS, OTHER = 0, 1


class Jpeg:
    """KIND(o), W(o), H(o): what the marker chain starting at offset o declares.

    Definition (one unfolding at offset o; `fill` switches the T.81 fill-byte rule on):
      o + 4 > N                         -> OTHER  (no further marker segment)
      D[o] != FF                        -> OTHER  (not a marker: the stream does not follow the format)
      D[o+1] == FF  (fill byte)         -> same as chain(o + 1)
      D[o+1] in {00, 01, D0..DA}        -> OTHER  (stuffed byte / standalone marker / EOI / SOS before any frame header)
      L = u16be(o+2) < 2                -> OTHER
      SOFn: L >= 8 and o + 2 + L <= N   -> DIMS, W = u16be(o+7), H = u16be(o+5);   otherwise OTHER (truncated frame header)
      any other marker segment          -> same as chain(o + 2 + L)
    """

    def __init__(self, d: Data, tag="", fill=True):
        self.d = d
        self.fill = fill
        self.KIND = z3.Function(f"jpeg_kind{tag}", I, I)
        self.W = z3.Function(f"jpeg_w{tag}", I, I)
        self.H = z3.Function(f"jpeg_h{tag}", I, I)

    def same(self, a, b):
        return z3.And(self.KIND(a) == self.KIND(b), self.W(a) == self.W(b), self.H(a) == self.H(b))

    def is_sof(self, m):
        return z3.Or([m == c for c in SOF_MARKERS])

    def defn(self, o):
        d = self.d
        b0, m = d.b(o), d.b(o + 1)
        L = d.u(o + 2, 2)
        other = self.KIND(o) == OTHER
        standalone = z3.Or(m == 0, m == 1, z3.And(m >= 0xD0, m <= 0xDA))
        fill_case = self.same(o, o + 1) if self.fill else other
        return z3.If(o + 4 > d.N, other,
               z3.If(b0 != 0xFF, other,
               z3.If(m == 0xFF, fill_case,
               z3.If(standalone, other,
               z3.If(L < 2, other,
               z3.If(self.is_sof(m),
                     z3.If(z3.And(L >= 8, o + 2 + L <= d.N),
                           z3.And(self.KIND(o) == DIMS, self.W(o) == d.u(o + 7, 2), self.H(o) == d.u(o + 5, 2)), other),
                     self.same(o, o + 2 + L)))))))

    def axiom(self):
        o = z3.Int("o!jpeg")
        return z3.ForAll([o], z3.Implies(o >= 0, self.defn(o)), patterns=[self.KIND(o)])

    def tail_lemma(self):
        """o + 10 > N  =>  KIND(o) == OTHER  (a frame header needs 10 bytes); proved by induction (lemmas())."""
        o = z3.Int("o!tail")
        return z3.ForAll([o], z3.Implies(z3.And(o >= 0, o + 10 > self.d.N), self.KIND(o) == OTHER), patterns=[self.KIND(o)])

    def tail_at(self, o):
        return z3.Implies(z3.And(o >= 0, o + 10 > self.d.N), self.KIND(o) == OTHER)

    def declares(self):
        return z3.And(self.d.starts(b"\xff\xd8"), self.KIND(z3.IntVal(2)) == DIMS)

    def size(self):
        return self.W(z3.IntVal(2)), self.H(z3.IntVal(2))


# ---------------------------------------------------------------- reference resolution --
# fold of the first i segments of a segment list: "" and "." dropped, ".." pops (dropped at the root).  Indexed by the number of
# segments processed (not by a prefix term): the VCs of the segment loop then contain no sub-sequence terms at all.
FOLDP = z3.Function("resolve_fold_first", SS, I, SS)


def FOLD(p):
    return FOLDP(p, z3.Length(p))


def step(acc, x):
    n = z3.Length(acc)
    return z3.If(x == z3.StringVal(".."), z3.If(n > 0, z3.SubSeq(acc, 0, n - 1), acc),
                 z3.If(z3.And(x != z3.StringVal(""), x != z3.StringVal(".")), z3.Concat(acc, z3.Unit(x)), acc))


def fold_defn(p, i):
    """Definition of the fold by the number of processed segments: FOLDP(p, 0) = [], FOLDP(p, i+1) = step(FOLDP(p, i), p[i]) for 0 <= i < |p|."""
    return z3.And(FOLDP(p, z3.IntVal(0)) == z3.Empty(SS),
                  z3.Implies(z3.And(i >= 0, i < z3.Length(p)), FOLDP(p, i + 1) == step(FOLDP(p, i), p[i])))


def segments_of(base, target):
    return z3.If(z3.PrefixOf(z3.StringVal("/"), target), SEGS(target), z3.Concat(SEGS(base), SEGS(target)))


def RESOLVE(base, target):
    """OPC part-name resolution (DESIGN Appendix B): absolute targets are package-root relative."""
    return JOINS(FOLD(segments_of(base, target)))


def DIRNAME(p):
    """Directory of a part name: everything before the last '/', '' when there is none."""
    sl = z3.StringVal("/")
    return z3.If(z3.Contains(p, sl), z3.SubString(p, 0, z3.LastIndexOf(p, sl)), z3.StringVal(""))


def BASENAME(p):
    sl = z3.StringVal("/")
    k = z3.LastIndexOf(p, sl)
    return z3.If(z3.Contains(p, sl), z3.SubString(p, k + 1, z3.Length(p) - k - 1), p)


def RELS_PART(p):
    """OPC: the relationships of part <dir>/<name> are stored in <dir>/_rels/<name>.rels (at the package root: _rels/<name>.rels)."""
    sl = z3.StringVal("/")
    return z3.If(z3.Contains(p, sl), z3.Concat(DIRNAME(p), z3.StringVal("/_rels/"), BASENAME(p), z3.StringVal(".rels")),
                 z3.Concat(z3.StringVal("_rels/"), p, z3.StringVal(".rels")))


# percent-decoding of an IRI reference (EPUB manifest hrefs are IRI references, ZIP member names are unescaped): %XX -> byte, UTF-8;
# '+' is NOT a space in a path (that is the form-encoding rule of query strings).  Uninterpreted; the model of urllib.parse.unquote.
PCT = z3.Function("percent_decode", S, S)
